"""Condition analysis: what does a branch condition (or any operand) depend on?
Goes backwards through temporaries, *through* a configurable set of transparent
callees (bit-mask helpers, Option combinators, branch hints) and through
phi-like locals (a local assigned in several blocks: the conditions that select
the assigning block are part of the value, which is how `a && b` is lowered)."""
from core import callee_path, last_field, PASS_THROUGH

TRANSPARENT_PREFIX = (
    "control::bitmask::BitMask::",
    "control::bitmask::<BitMask",
    "control::bitmask::<BitMaskIter",
    "core::option::Option::is_some",
    "core::option::Option::is_none",
    "core::option::Option::unwrap_unchecked",
    "core::option::Option::unwrap",
    "core::result::Result::is_ok",
    "core::result::Result::is_err",
    "core::convert::num::",
    "core::cmp::impls::",
    "core::cmp::Ord::max",
    "core::cmp::Ord::min",
    "core::cmp::max",
    "core::cmp::min",
    "core::num::",
    "core::ops::try_trait::",
    "core::option::<Option as Try>",
    "core::result::<Result as Try>",
    "core::iter::traits::collect::<I as IntoIterator>::into_iter",
    "control::tag::<Tag as PartialEq",
)


class Sources:
    def __init__(self):
        self.calls = {}      # callee path -> list of (bb, term)
        self.loads = set()   # (field name, adt)
        self.consts = []     # const operands
        self.binops = set()
        self.args = set()    # arg locals reached
        self.indirect = False  # depends on an indirect / user callback call
        self.via = {}        # callee path -> list of (bb, term): calls whose returned struct was looked into field by field

    def call_names(self):
        return set(self.calls)

    def has_call(self, suffix):
        return any(c.endswith(suffix) for c in self.calls)

    def has_load(self, name):
        return any(n == name for n, _ in self.loads)


def sources(body, operand, transparent=TRANSPARENT_PREFIX, follow_phi=True, maxdepth=80):
    S = Sources()
    seen = set()

    def transparent_call(t):
        cp = callee_path(t) or ""
        decl = t["f"].get("path", "") if t["f"]["k"] == "fn" else ""
        if cp in PASS_THROUGH:
            return True
        return any(cp.startswith(p) or decl.startswith(p) for p in transparent)

    def go_local(l, depth):
        if l in seen or depth > maxdepth:
            return
        seen.add(l)
        if body.is_arg(l):
            S.args.add(l)
            return
        ds = body.defs.get(l, ())
        for d in ds:
            if d[0] == "call":
                t = d[3]
                if t["f"]["k"] != "fn":
                    S.indirect = True
                    S.calls.setdefault("<indirect>", []).append((d[1], t))
                    continue
                cp = callee_path(t)
                if transparent_call(t):
                    for a in t["args"]:
                        go_op(a, depth + 1)
                else:
                    S.calls.setdefault(cp, []).append((d[1], t))
                    f = t["f"]
                    st = f.get("self_ty", {})
                    if "trait" in f and st.get("k") in ("param", "dyn", "alias"):
                        S.indirect = True
            elif d[3]["k"] == "assign":
                go_rv(d[3]["rv"], depth + 1)
        if follow_phi and len([d for d in ds if (d[0] == "call" or not d[3]["p"].get("proj"))]) > 1:
            for d in ds:
                blk = d[1]
                for (b, s) in body.control_deps(exits="all").get(blk, ()):
                    t = body.term(b)
                    if t["k"] == "switch":
                        go_op(t["discr"], depth + 1)

    def field_summary(p, depth):
        """`x.f` where x is the result of a call to a crate function that builds and returns a struct: what the function puts
        into field f (its own calls / loads / constants; its parameters are followed into the call's arguments)"""
        pj = p.get("proj") or []
        if len(pj) != 1 or pj[0]["k"] != "field" or depth > maxdepth - 4:
            return False
        d = body.single_def(p["l"])
        for _ in range(3):
            if d and d[0] == "stmt" and d[3]["k"] == "assign" and d[3]["rv"]["k"] == "use" and d[3]["rv"]["op"]["k"] in ("copy", "move") \
                    and not d[3]["rv"]["op"]["p"].get("proj"):
                d = body.single_def(d[3]["rv"]["op"]["p"]["l"])
        if not d or d[0] != "call" or d[3]["f"]["k"] != "fn":
            return False
        t = d[3]
        cp = callee_path(t)
        cb = body.facts.bodies.get(cp) if getattr(body, "facts", None) is not None else None
        if cb is None or cb is body or transparent_call(t) or (cp, pj[0].get("name")) in seen:
            return False
        seen.add((cp, pj[0].get("name")))
        S.via.setdefault(cp, []).append((d[1], t))
        done = False
        for i, k, st in cb.stmts():
            if st["k"] != "assign" or st["rv"]["k"] != "aggregate" or st["rv"].get("kind") == "closure":
                continue
            rv = st["rv"]
            if not rv.get("fields") or pj[0].get("name") not in rv["fields"] or rv.get("adt") != pj[0].get("adt"):
                continue
            op = rv["ops"][rv["fields"].index(pj[0]["name"])]
            S2 = sources(cb, op, transparent=transparent, follow_phi=follow_phi, maxdepth=max(10, maxdepth // 2))
            for c, lst in S2.calls.items():
                S.calls.setdefault(c, []).extend(lst)
            S.loads |= S2.loads
            S.consts.extend(S2.consts)
            S.binops |= S2.binops
            S.indirect = S.indirect or S2.indirect
            for a in S2.args:
                if a - 1 < len(t["args"]):
                    go_op(t["args"][a - 1], depth + 1)
            done = True
        return done

    def go_place(p, depth):
        lf = last_field(p)
        if lf:
            S.loads.add((lf["name"], lf.get("adt")))
            if field_summary(p, depth):
                return      # field-precise: the other fields of the returned struct are not part of this value
        go_local(p["l"], depth)
        for e in p.get("proj", []):
            if e["k"] == "index":
                go_local(e["local"], depth)

    def go_op(o, depth):
        if o["k"] in ("copy", "move"):
            go_place(o["p"], depth)
        elif o["k"] == "const":
            S.consts.append(o)

    def go_rv(rv, depth):
        k = rv["k"]
        if k in ("use", "cast", "repeat"):
            go_op(rv["op"], depth)
        elif k in ("ref", "rawptr", "discriminant"):
            go_place(rv["p"], depth)
        elif k == "binop":
            S.binops.add(rv["op"])
            go_op(rv["a"], depth)
            go_op(rv["b"], depth)
        elif k == "unop":
            go_op(rv["a"], depth)
        elif k == "aggregate":
            for x in rv["ops"]:
                go_op(x, depth)

    go_op(operand, 0)
    return S


def sources_x(F, body, operand, depth=2, **kw):
    """sources() extended across the call boundary for private functions: a parameter that is reached is followed into the
    argument expressions of the (at most three) call sites of the function, so that a quantity a refactoring now computes
    in the caller and passes in (`new_items = items.checked_add(additional)`) is still seen for what it is. The result has
    an extra attribute `arg_names`: the names of all parameters reached in any frame."""
    S = sources(body, operand, **kw)
    S.arg_names = set(body.locals[a].get("name") for a in S.args)
    if depth <= 0 or not S.args:
        return S
    sites = [(cb, t) for cb in F.bodies.values() for _, t in cb.calls() if callee_path(t) == body.path]
    if not (1 <= len(sites) <= 3):
        return S
    for cb, t in sites:
        for a in sorted(S.args):
            if a - 1 < len(t["args"]):
                Sc = sources_x(F, cb, t["args"][a - 1], depth - 1, **kw)
                for c, lst in Sc.calls.items():
                    S.calls.setdefault(c, []).extend(lst)
                for c, lst in Sc.via.items():
                    S.via.setdefault(c, []).extend(lst)
                S.loads |= Sc.loads
                S.consts.extend(Sc.consts)
                S.binops |= Sc.binops
                S.indirect = S.indirect or Sc.indirect
                S.arg_names |= Sc.arg_names
    return S


def branch_sources(body, block, **kw):
    t = body.term(block)
    if t["k"] != "switch":
        return Sources()
    return sources(body, t["discr"], **kw)


def controlling_sources(body, block, **kw):
    """union of the sources of every branch `block` is transitively control dependent on;
    returns list of (branch_block, succ_taken, Sources)"""
    out = []
    for (b, s) in body.control_deps_trans(block, "all"):
        out.append((b, s, branch_sources(body, b, **kw)))
    return out


def expr_key(body, operand, depth=0):
    """canonical string of the expression that defines an operand (through single-definition temporaries):
    two operands with equal keys are the same pure expression over the same inputs (local value numbering)."""
    if depth > 25:
        return "?deep"
    if operand["k"] == "const":
        return "c:%s:%s" % (operand.get("val", operand.get("def", "")), operand.get("t", ""))
    if operand["k"] not in ("copy", "move"):
        return "?"
    p = operand["p"]
    proj = "".join("." + (e.get("name") or e["k"]) for e in p.get("proj", []))
    l = p["l"]
    if body.is_arg(l):
        return "a%d%s" % (l, proj)
    d = body.single_def(l)
    if d is None:
        return "l%d%s" % (l, proj)
    if d[0] == "call":
        t = d[3]
        cp = callee_path(t) or "?"
        if cp in PASS_THROUGH:
            return expr_key(body, t["args"][0], depth + 1) + proj
        return "%s(%s)%s" % (cp, ",".join(expr_key(body, a, depth + 1) for a in t["args"]), proj)
    rv = d[3]["rv"]
    k = rv["k"]
    if k in ("use", "cast"):
        return expr_key(body, rv["op"], depth + 1) + proj
    if k in ("ref", "rawptr"):
        return "&" + expr_key(body, {"k": "copy", "p": rv["p"]}, depth + 1) + proj
    if k == "binop":
        return "%s(%s,%s)%s" % (rv["op"].replace("WithOverflow", "").replace("Unchecked", ""), expr_key(body, rv["a"], depth + 1), expr_key(body, rv["b"], depth + 1), proj)
    if k == "unop":
        return "%s(%s)%s" % (rv["op"], expr_key(body, rv["a"], depth + 1), proj)
    return "l%d%s" % (l, proj)
