"""Shared vocabulary of the rules (DESIGN.md section 3): accounting state,
primitive partial operations, user callbacks (MAYCB), guards."""
from core import callee_path, callee_decl, last_field

INNER = "raw::RawTableInner"
TAG_T = "control::tag::Tag"
SCOPEGUARD = "scopeguard::ScopeGuard"

# traits whose methods on a type parameter are NOT user callbacks for the
# purposes of panic-window analysis (assumption recorded in evidence:
# allocators do not unwind)
NONCB_TRAITS = (
    "allocator_api2::stable::alloc::Allocator",
    "core::alloc::Allocator",
    "alloc::alloc::Allocator",
    "raw::alloc::inner::Allocator",
    "control::tag::TagSliceExt",
)

# trait methods that, on a *non-parameter* self type mentioning a parameter,
# are known not to run user code at the call itself (lazy adaptor
# constructors, control-flow desugaring, pointer identity)
LAZY_OR_STRUCTURAL = {
    ("core::ops::try_trait::Try", "branch"),
    ("core::ops::try_trait::FromResidual", "from_residual"),
    ("core::ops::deref::Deref", "deref"),
    ("core::ops::deref::DerefMut", "deref_mut"),
    ("core::ops::index::Index", "index"),
    ("core::ops::index::IndexMut", "index_mut"),
    ("core::iter::traits::collect::IntoIterator", "into_iter"),
    ("core::iter::traits::iterator::Iterator", "chain"),
    ("core::iter::traits::iterator::Iterator", "cloned"),
    ("core::iter::traits::iterator::Iterator", "copied"),
    ("core::iter::traits::iterator::Iterator", "map"),
    ("core::iter::traits::iterator::Iterator", "enumerate"),
    ("core::iter::traits::iterator::Iterator", "filter"),
    ("core::iter::traits::exact_size::ExactSizeIterator", "len"),
    ("rayon::iter::ParallelIterator", "map"),
    ("rayon::iter::ParallelIterator", "chain"),
    ("rayon::iter::ParallelIterator", "filter"),
}

NONCALLING_EXT = (
    "core::mem::forget",
    "core::mem::ManuallyDrop::new",
    "core::mem::manually_drop::ManuallyDrop::new",
    "core::mem::replace",
    "core::mem::swap",
    "core::mem::take",
    "core::ptr::read",
    "core::ptr::write",
    "core::ptr::mut_ptr::*mut T::write",
    "core::ptr::mut_ptr::*mut T::read",
    "core::option::Option::Some",
)

PTR_ID_TYPES = ("core::ptr::NonNull", "core::ptr::non_null::NonNull")

# external generic functions that run user code (destructors / consumers)
EXT_CB_FNS = (
    "core::ptr::drop_in_place",
    "core::ptr::mut_ptr::*mut T::drop_in_place",
    "core::mem::drop",
    "rayon::iter::plumbing::bridge_unindexed",
    "rayon::iter::plumbing::bridge",
)


def _ty_only_ptr_identity(ty):
    """param occurs only under NonNull / raw pointers (pointer comparison, not user code)."""
    k = ty.get("k")
    if k == "ptr":
        return True
    if k == "adt":
        if ty["path"] in PTR_ID_TYPES:
            return True
        if ty["path"] in ("core::option::Option",):
            return all(_ty_only_ptr_identity(a) for a in ty.get("args", []))
        return not ty.get("param")
    return not ty.get("param", False)


class Vocab:
    def __init__(self, facts):
        self.F = facts
        self._maycb = None
        self._callable_params = {}
        # ADT path -> path of its `Drop::drop` body
        self.drop_impl = {}
        for im in facts.impls:
            if im.get("trait") == "core::ops::drop::Drop" and im["self_ty"].get("k") == "adt":
                for it in im["items"]:
                    if it["name"] == "drop" and it["kind"] == "fn":
                        self.drop_impl[im["self_ty"]["path"]] = it["path"]

    # ------------------------------------------------------------ callbacks

    def callable_params(self, body):
        """type parameters of the enclosing fn that carry an Fn*/FnMut/FnOnce bound."""
        path = body.path
        while "::{closure#" in path:
            path = path.rsplit("::{closure#", 1)[0]
        if path in self._callable_params:
            return self._callable_params[path]
        out = set()
        fn = self.F.fns.get(path)
        if fn:
            for p in fn["predicates"]:
                if ": core::ops::Fn" in p or ": core::ops::function::Fn" in p or ": for<" in p and "Fn" in p:
                    out.add(p.split(":")[0].strip())
        self._callable_params[path] = out
        return out

    def direct_callback(self, body, t):
        """Is this call terminator itself a user-callback site (not via a crate callee)?
        Returns a short description or None."""
        f = t["f"]
        if f["k"] != "fn":
            return "indirect call through %s" % f.get("t", "fn pointer")
        path = f["path"]
        if "trait" in f:
            tr, m = f["trait"], f["method"]
            st = f.get("self_ty", {})
            if tr in NONCB_TRAITS:
                return None
            if f.get("resolved_local") or (f.get("resolved") in self.F.bodies):
                return None  # analysed as a crate body
            if f["local"] and "resolved" not in f and st.get("k") not in ("param", "alias", "dyn") and path in self.F.bodies:
                return None  # default method body in this crate
            k = st.get("k")
            if k in ("param", "alias", "dyn"):
                return "<%s as %s>::%s" % (st.get("s"), tr, m)
            if k == "ref" and st["inner"].get("k") in ("param", "alias", "dyn"):
                if tr == "core::clone::Clone":
                    return None
                return "<%s as %s>::%s" % (st.get("s"), tr, m)
            if not st.get("param"):
                return None
            if (tr, m) in LAZY_OR_STRUCTURAL:
                return None
            if tr in ("core::cmp::PartialEq", "core::convert::From", "core::clone::Clone") and _ty_only_ptr_identity(st):
                return None
            if k == "closure":
                return None  # crate closure; linked through the call graph
            return "<%s as %s>::%s (generic, not resolved to a crate body)" % (st.get("s"), tr, m)
        if not f["local"]:
            if path in EXT_CB_FNS:
                if any(_mentions_param(s, body) for s in f["substs"]):
                    return "%s::<%s>" % (path, ",".join(f["substs"]))
                return None
            cps = self.callable_params(body)
            for s in f["substs"]:
                if s in cps or s.startswith("impl Fn") or s.startswith("impl for<"):
                    return "%s with user callable %s" % (path, s)
        return None

    def drop_may_cb(self, ty, body=None):
        k = ty.get("k")
        if k in ("ref", "ptr", "prim", "never", "fnptr", "fndef"):
            return False
        if k in ("param", "alias", "dyn"):
            return True
        if k == "adt":
            if ty["path"] == SCOPEGUARD:
                args = ty.get("args", [])
                if args and self.drop_may_cb(args[0]):
                    return True
                if len(args) > 1 and args[1].get("k") == "closure":
                    return self.maycb(args[1]["path"])
                return True
            if ty["path"] in ("core::marker::PhantomData", "core::ptr::NonNull", "core::mem::ManuallyDrop", "core::mem::MaybeUninit"):
                return False
            return bool(ty.get("param"))
        if k == "tuple":
            return any(self.drop_may_cb(e) for e in ty.get("elems", []))
        if k in ("array", "slice"):
            return self.drop_may_cb(ty["inner"])
        if k == "closure":
            return any(self.drop_may_cb(u) for u in ty.get("upvars", []))
        return bool(ty.get("param"))

    def _closure_args(self, t):
        """local closure bodies passed (by type) to an external higher-order fn."""
        out = []
        f = t["f"]
        if f["k"] != "fn":
            return out
        for a in t["args"]:
            pass
        return out

    def site_callees(self, body, t):
        """crate bodies that may run as part of this call terminator."""
        out = []
        f = t["f"]
        if f["k"] != "fn":
            return out
        cp = f.get("resolved", f["path"])
        if cp in self.F.bodies:
            out.append(cp)
        st = f.get("self_ty")
        if st and st.get("k") == "closure" and st["path"] in self.F.bodies:
            out.append(st["path"])
        # closures / fn items passed as arguments to external functions run inside them
        # (except functions that only move or forget their argument)
        if (not f["local"] or cp not in self.F.bodies) and cp not in NONCALLING_EXT:
            for a in t["args"]:
                if a["k"] in ("copy", "move"):
                    ty = body.locals[a["p"]["l"]]["ty"] if not a["p"].get("proj") else None
                    if ty:
                        for c in _closures_in(ty):
                            if c in self.F.bodies:
                                out.append(c)
                elif a["k"] == "const" and "fn" in a:
                    c = a["fn"].get("resolved", a["fn"]["path"])
                    if c in self.F.bodies:
                        out.append(c)
        return out

    def _compute_maycb(self):
        direct = {}
        edges = {}
        for p, b in self.F.bodies.items():
            d = []
            e = set()
            for i, bb in enumerate(b.blocks):
                if bb["cleanup"]:
                    continue
                t = bb["term"]
                if t["k"] == "call":
                    x = self.direct_callback(b, t)
                    if x:
                        d.append((i, x))
                    e.update(self.site_callees(b, t))
                elif t["k"] == "drop":
                    e.update(_closures_in(t["ty"]))
                    if t["ty"].get("k") == "adt" and t["ty"]["path"] in self.drop_impl:
                        e.add(self.drop_impl[t["ty"]["path"]])
            direct[p] = d
            edges[p] = e
        self._direct = direct
        self._edges = edges
        may = {p: bool(d) for p, d in direct.items()}
        # drops need maycb of closures -> iterate to fixpoint including drop terminators
        changed = True
        self._maycb = may
        while changed:
            changed = False
            for p, b in self.F.bodies.items():
                if may[p]:
                    continue
                v = any(may.get(q, False) for q in edges[p])
                if not v:
                    for i, bb in enumerate(b.blocks):
                        if bb["cleanup"]:
                            continue
                        t = bb["term"]
                        if t["k"] == "drop" and self._drop_term_cb(t):
                            v = True
                            break
                if v:
                    may[p] = True
                    changed = True

    def _drop_term_cb(self, t):
        return self.drop_may_cb(t["ty"])

    def maycb(self, path):
        if self._maycb is None:
            self._compute_maycb()
        return self._maycb.get(path, False)

    def is_destructor_site(self, body, i):
        """the callback at block i can only run destructors (Drop terminator, drop_in_place, Bucket::drop, drop_elements...)"""
        t = body.term(i)
        if t["k"] == "drop":
            return True
        if t["k"] == "call":
            cp = (t["f"].get("resolved") or t["f"].get("path") or "") if t["f"]["k"] == "fn" else ""
            if cp in EXT_CB_FNS[:3] or cp.endswith("::drop_elements") or cp.endswith("Bucket::drop") or cp.endswith("::drop_inner_table") or cp.endswith("as Drop>::drop"):
                return True
        return False

    def callback_sites(self, body):
        """list of (block, description) of normal-flow terminators in `body`
        that may run user code (directly or through crate callees)."""
        if self._maycb is None:
            self._compute_maycb()
        out = []
        for i, bb in enumerate(body.blocks):
            if bb["cleanup"]:
                continue
            t = bb["term"]
            if t["k"] == "call":
                x = self.direct_callback(body, t)
                if x:
                    out.append((i, "callback " + x))
                    continue
                for c in self.site_callees(body, t):
                    if self.maycb(c):
                        out.append((i, "call to %s which may run user code" % c))
                        break
            elif t["k"] == "drop":
                if self._drop_term_cb(t):
                    out.append((i, "drop of %s" % t["ty"]["s"]))
        return out

    # ------------------------------------------------------------ accounting state

    def acct_store(self, s):
        """statement is a direct store to RawTableInner.items / growth_left: returns field name."""
        if s["k"] != "assign":
            return None
        lf = last_field(s["p"])
        if lf and lf.get("adt") == INNER and lf["name"] in ("items", "growth_left", "bucket_mask", "ctrl"):
            return lf["name"]
        return None

    def ctrl_byte_store(self, s):
        """statement stores through a pointer/reference to a control byte."""
        if s["k"] != "assign":
            return False
        pr = s["p"].get("proj", [])
        return bool(pr) and pr[-1]["k"] == "deref" and s["p"].get("t") == TAG_T


def _mentions_param(s, body):
    tps = set(body.j["ty_params"])
    import re
    toks = set(re.findall(r"[A-Za-z_][A-Za-z0-9_]*", s))
    return bool(toks & tps) or s.startswith("impl ")


def _closures_in(ty, depth=0):
    out = []
    if not isinstance(ty, dict) or depth > 6:
        return out
    if ty.get("k") == "closure":
        out.append(ty["path"])
        for u in ty.get("upvars", []):
            out += _closures_in(u, depth + 1)
    for key in ("args", "elems", "upvars"):
        for a in ty.get(key, []) or []:
            out += _closures_in(a, depth + 1)
    if "inner" in ty:
        out += _closures_in(ty["inner"], depth + 1)
    return out
