"""W-BORROW / W-AUTO: compile-fail witnesses with compiling twins, decided by rustc's borrow checker and
trait solver under `cargo +nightly test --doc` (error codes are only honoured on nightly). Nothing is run:
witnesses must fail to compile with the stated code, twins are no_run."""
import json
import os
import re
import shutil
import subprocess
import tempfile

import extract
from rules.base import Result

VERIF = extract.VERIF


class _Anchor:
    def __init__(self, name):
        self.path = "witnesses::w_" + name

    def file(self):
        return os.path.join(VERIF, "witnesses", "src", "lib.rs")

    def line(self):
        return 1


_cache = {}


def run_witnesses(repo=None):
    repo = repo or os.environ.get("HBV_REPO") or extract.REPO
    key = extract.tree_key(repo)
    if key in _cache:
        return _cache[key]
    d = tempfile.mkdtemp(prefix="hbv-wit.")
    try:
        shutil.copytree(os.path.join(VERIF, "witnesses", "src"), os.path.join(d, "src"))
        with open(os.path.join(VERIF, "witnesses", "Cargo.toml.in")) as f:
            toml = f.read().replace("@REPO@", repo)
        with open(os.path.join(d, "Cargo.toml"), "w") as f:
            f.write(toml)
        lock = os.path.join(repo, "Cargo.lock")
        if os.path.exists(lock):
            shutil.copy(lock, os.path.join(d, "Cargo.lock"))
        env = dict(os.environ)
        env["CARGO_NET_OFFLINE"] = "true"
        env["CARGO_TARGET_DIR"] = os.path.join(d, "target")
        env.pop("RUSTC_WORKSPACE_WRAPPER", None)
        env.pop("RUSTFLAGS", None)
        p = subprocess.run(["cargo", "+nightly", "test", "--doc", "--offline", "--", "--test-threads", "16"], cwd=d, env=env, stdout=subprocess.PIPE, stderr=subprocess.STDOUT, text=True)
        out = p.stdout
    finally:
        shutil.rmtree(d, ignore_errors=True)
    res = {}
    for m in re.finditer(r"^test src/lib\.rs - w_(\w+) \(line \d+\) - (compile fail|compile) \.\.\. (ok|FAILED)", out, re.M):
        res.setdefault(m.group(1), {})["fail" if m.group(2) == "compile fail" else "twin"] = m.group(3)
    built = bool(res)
    _cache[key] = (res, built, out)
    return _cache[key]


def hook(pid, tier, repo=None):
    with open(os.path.join(VERIF, "witnesses", "index.json")) as f:
        index = json.load(f)
    R = Result("W-BORROW", "witness")
    mine = [w for w in index if pid in w["props"]]
    if not mine:
        return {"results": [], "undecided": [], "info": {}}
    res, built, out = run_witnesses(repo)
    if not built:
        R.undec("the witness crate did not build against the current tree:\n" + out[-1500:])
        return {"results": [R], "undecided": R.undecided, "info": {}}
    n = 0
    for w in mine:
        r = res.get(w["name"])
        key = w["name"]
        if r is None:
            R.undec("witness %s produced no result" % key)
            continue
        n += 1
        if r.get("twin") == "FAILED":
            R.undec("the compiling twin of witness %s no longer compiles (API changed?): the witness cannot be trusted" % key)
            continue
        if r.get("fail") == "ok":
            R.inst(key, "rejected by rustc with %s; twin compiles" % w["code"], "ok", True, "witnesses/src/lib.rs")
        else:
            R.violation(key, _Anchor(key), "the program of witness `%s` is no longer rejected with %s: a borrow/auto-trait restriction of the public API has been lost (see witnesses/src/lib.rs, item w_%s)" % (key, w["code"], key))
            R.inst(key, "witness compiles", "violation", True, "witnesses/src/lib.rs")
    R.info["witnesses"] = n
    return {"results": [R], "undecided": R.undecided,
            "info": {"witness_corpus": {"witnesses_for_this_property": n, "total_doctests": sum(len(v) for v in res.values()), "decided_by": "rustc borrowck / trait solver via cargo +nightly test --doc (compile_fail,E0xxx)"}}}
