"""Extraction driver: run hbv-extract over /repo (or a scratch copy) for one
configuration, with a content-addressed cache so that the 19 property commands
share one extraction per source-tree state."""
import fcntl
import hashlib
import json
import os
import shutil
import subprocess
import tempfile
import time

VERIF = os.path.dirname(os.path.dirname(os.path.abspath(__file__)))
REPO = os.environ.get("HBV_REPO", "/repo")
DRIVER = os.path.join(VERIF, "extractor", "target", "release", "hbv-extract")
CACHE = os.path.join(VERIF, ".cache")

ALLF = "rayon,serde,rustc-internal-api"
# name -> (cargo flags, extra RUSTFLAGS)
CONFIGS = {
    "default": ([], ""),
    "all": (["--features", ALLF], ""),
    "all-generic": (["--features", ALLF], "--cfg miri"),
    "nodefault": (["--no-default-features"], ""),
    "rayon": (["--features", "rayon"], ""),
    "serde": (["--features", "serde"], ""),
    "rustc-internal-api": (["--features", "rustc-internal-api"], ""),
    "all-release-shape": (["--features", ALLF], "-C debug-assertions=off -C overflow-checks=off"),
}
QUICK = ["default", "all"]
THOROUGH = ["default", "all", "all-generic", "nodefault", "rayon", "serde", "rustc-internal-api", "all-release-shape"]

# floors on what an extraction must contain (measured on the pinned snapshot,
# minus a margin: a facts file below these is an extraction failure, not a pass)
BODY_FLOOR = {"default": 500, "all": 700, "all-generic": 700, "nodefault": 350, "rayon": 600, "serde": 500,
              "rustc-internal-api": 500, "all-release-shape": 700, "posctl": 5}


def sysroot():
    return subprocess.check_output(["rustc", "+nightly", "--print", "sysroot"], text=True).strip()


_tree_key_cache = {}


def tree_key(repo=None):
    repo = repo or REPO
    if repo in _tree_key_cache:
        return _tree_key_cache[repo]
    h = hashlib.sha256()
    files = []
    for root, dirs, fs in os.walk(os.path.join(repo, "src")):
        dirs.sort()
        for f in sorted(fs):
            files.append(os.path.join(root, f))
    for f in ("Cargo.toml", "Cargo.lock", "build.rs"):
        p = os.path.join(repo, f)
        if os.path.exists(p):
            files.append(p)
    for root, dirs, fs in os.walk(os.path.join(VERIF, "extractor", "src")):
        for f in sorted(fs):
            files.append(os.path.join(root, f))
    for p in files:
        h.update(os.path.relpath(p, "/").encode())
        h.update(b"\0")
        with open(p, "rb") as fh:
            h.update(fh.read())
        h.update(b"\0")
    try:
        h.update(subprocess.check_output(["rustc", "+nightly", "--version"]))
    except Exception:
        pass
    k = h.hexdigest()[:24]
    _tree_key_cache[repo] = k
    return k


def ensure_driver():
    if not os.path.exists(DRIVER):
        build_driver()


def build_driver():
    env = dict(os.environ)
    env["CARGO_NET_OFFLINE"] = "true"
    subprocess.check_call(["cargo", "+nightly", "build", "--release", "--offline"], cwd=os.path.join(VERIF, "extractor"), env=env)


class ExtractError(Exception):
    pass


def run_extract(cfg, repo, out_dir, key="", crate="hashbrown", cargo_flags=None, rustflags_extra=None, manifest=None):
    """Run the driver once. Raises ExtractError with the compiler output if
    the crate does not build (then no verdict can be given)."""
    ensure_driver()
    if cargo_flags is None:
        cargo_flags, rustflags_extra = CONFIGS[cfg]
    td = tempfile.mkdtemp(prefix="hbv-td.")
    try:
        env = dict(os.environ)
        sr = sysroot()
        env["LD_LIBRARY_PATH"] = sr + "/lib" + (":" + env["LD_LIBRARY_PATH"] if env.get("LD_LIBRARY_PATH") else "")
        env["HBV_OUT"] = out_dir
        env["HBV_CFG"] = cfg
        env["HBV_KEY"] = key
        env["HBV_CRATE"] = crate
        env["RUSTFLAGS"] = "-Zmir-opt-level=0 -Awarnings " + (rustflags_extra or "")
        env["RUSTC_WORKSPACE_WRAPPER"] = DRIVER
        env["CARGO_TARGET_DIR"] = td
        env["CARGO_NET_OFFLINE"] = "true"
        env.pop("RUSTC_WRAPPER", None)
        manifest = manifest or os.path.join(repo, "Cargo.toml")
        cmd = ["cargo", "+nightly", "check", "--offline", "--lib", "--manifest-path", manifest] + list(cargo_flags)
        p = subprocess.run(cmd, env=env, stdout=subprocess.PIPE, stderr=subprocess.STDOUT, text=True)
        out = os.path.join(out_dir, cfg + ".facts.json")
        if p.returncode != 0 or not os.path.exists(out):
            raise ExtractError("extraction failed for config %s (cargo exit %s)\n%s" % (cfg, p.returncode, p.stdout[-4000:]))
        return out
    finally:
        shutil.rmtree(td, ignore_errors=True)


def facts_path(cfg, repo=None):
    """Return the path of up-to-date facts for `cfg` of the current tree,
    extracting if needed. Safe under concurrent invocations."""
    repo = repo or REPO
    key = tree_key(repo)
    d = os.path.join(CACHE, key)
    os.makedirs(d, exist_ok=True)
    out = os.path.join(d, cfg + ".facts.json")
    lock = os.path.join(d, cfg + ".lock")
    with open(lock, "w") as lf:
        fcntl.flock(lf, fcntl.LOCK_EX)
        try:
            if os.path.exists(out) and _header_ok(out, key, cfg):
                return out
            run_extract(cfg, repo, d, key=key)
            if not _header_ok(out, key, cfg):
                raise ExtractError("facts for %s do not carry the expected key/floor" % cfg)
            _prune_cache(keep=key)
            return out
        finally:
            fcntl.flock(lf, fcntl.LOCK_UN)


def _header_ok(path, key, cfg):
    try:
        with open(path) as f:
            head = f.read(600)
        # header is the first object in the file
        i = head.index('"header":')
        j = head.index("}", i)
        hdr = json.loads(head[i + len('"header":'):j + 1])
        return hdr.get("key") == key and hdr.get("cfg") == cfg and hdr.get("n_bodies", 0) >= BODY_FLOOR.get(cfg, 1)
    except Exception:
        return False


def _prune_cache(keep):
    """Keep the cache small without ever touching a tree that another (parallel) run may be using:
    only entries untouched for more than 3 hours are removed, oldest first, beyond 40 entries all older than 30 min."""
    try:
        ents = []
        now = time.time()
        for e in os.listdir(CACHE):
            p = os.path.join(CACHE, e)
            if os.path.isdir(p) and e != keep:
                ents.append((os.path.getmtime(p), p))
        ents.sort(reverse=True)
        for k, (mt, p) in enumerate(ents):
            age = now - mt
            if age > 3 * 3600 or (k >= 40 and age > 1800):
                shutil.rmtree(p, ignore_errors=True)
    except Exception:
        pass
