"""Pretty-printer for extracted MIR facts (used by `hbv replay` and for debugging)."""

def place(p):
    s = "_%d" % p["l"]
    for e in p.get("proj", []):
        k = e["k"]
        if k == "deref":
            s = "(*%s)" % s
        elif k == "field":
            s = "%s.%s" % (s, e["name"])
        elif k == "downcast":
            s = "(%s as %s)" % (s, e["variant"])
        elif k == "index":
            s = "%s[_%d]" % (s, e["local"])
        else:
            s = "%s.<%s>" % (s, k)
    return s


def callee(f):
    if f["k"] == "fn":
        s = f["path"]
        if "self_ty" in f:
            s = "<%s as %s>::%s" % (f["self_ty"]["s"], f["trait"], f["method"])
        if "resolved" in f:
            s += " => " + f["resolved"]
        return s
    return "indirect(%s)" % operand(f["op"])


def operand(o):
    k = o["k"]
    if k in ("copy", "move"):
        return ("move " if k == "move" else "") + place(o["p"])
    if k == "const":
        if "fn" in o:
            return "fn:" + callee(o["fn"])
        if "val" in o:
            return "const %s: %s" % (o["val"], o["t"])
        if "def" in o:
            return "const %s" % o["def"]
        return "const <%s>" % o["t"]
    return k


def rvalue(rv):
    k = rv["k"]
    if k == "use":
        return operand(rv["op"])
    if k == "ref":
        return "&%s%s" % ("mut " if rv["mut"] else "", place(rv["p"]))
    if k == "rawptr":
        return "&raw %s %s" % ("mut" if rv["mut"] else "const", place(rv["p"]))
    if k == "binop":
        return "%s(%s, %s)" % (rv["op"], operand(rv["a"]), operand(rv["b"]))
    if k == "unop":
        return "%s(%s)" % (rv["op"], operand(rv["a"]))
    if k == "cast":
        return "%s as %s [%s]" % (operand(rv["op"]), rv["t"], rv["kind"])
    if k == "discriminant":
        return "discriminant(%s)" % place(rv["p"])
    if k == "aggregate":
        if rv["kind"] == "adt":
            return "%s::%s{%s}" % (rv["adt"], rv["variant"], ", ".join("%s: %s" % (f, operand(o)) for f, o in zip(rv["fields"], rv["ops"])))
        if rv["kind"] == "closure":
            return "closure %s[%s]" % (rv["closure"], ", ".join(operand(o) for o in rv["ops"]))
        return "%s(%s)" % (rv["kind"], ", ".join(operand(o) for o in rv["ops"]))
    return k


def sp(x):
    if not x:
        return ""
    s = "%s:%d" % (x["f"].split("/src/")[-1], x["l"])
    if "mac" in x:
        s += " !" + ",".join(x["mac"])
    return s


def term(t):
    k = t["k"]
    if k == "goto":
        return "goto bb%d" % t["target"]
    if k == "switch":
        return "switch(%s: %s) [%s, otherwise: bb%d]" % (operand(t["discr"]), t["discr_t"], ", ".join("%s: bb%d" % (v, b) for v, b in t["targets"]), t["otherwise"])
    if k == "call":
        tgt = "bb%d" % t["target"] if t.get("target") is not None else "!"
        return "%s = %s(%s) -> %s unwind %s" % (place(t["dest"]), callee(t["f"]), ", ".join(operand(a) for a in t["args"]), tgt, t["unwind"])
    if k == "drop":
        return "drop(%s: %s) -> bb%d unwind %s" % (place(t["p"]), t["ty"]["s"], t["target"], t["unwind"])
    if k == "assert":
        return "assert(%s == %s, %s) -> bb%d" % (operand(t["cond"]), t["expected"], t["kind"], t["target"])
    return k


def body(b):
    out = []
    out.append("fn %s  [%s%s] %s" % (b["path"], b["kind"], " unsafe" if b["unsafe"] else "", sp(b["sp"])))
    for i, l in enumerate(b["locals"]):
        tag = "arg" if 0 < i <= b["arg_count"] else ("ret" if i == 0 else "")
        out.append("  let _%d: %s  %s %s" % (i, l["ty"]["s"], l.get("name", ""), tag))
    for i, bb in enumerate(b["blocks"]):
        out.append(" bb%d%s:" % (i, " (cleanup)" if bb["cleanup"] else ""))
        for s in bb["stmts"]:
            if s["k"] == "assign":
                out.append("    %s = %s   // %s" % (place(s["p"]), rvalue(s["rv"]), sp(s["sp"])))
            else:
                out.append("    %s  // %s" % (s["k"], sp(s.get("sp"))))
        out.append("    %s   // %s" % (term(bb["term"]), sp(bb["term"].get("sp"))))
    return "\n".join(out)


if __name__ == "__main__":
    import json, sys
    d = json.load(open(sys.argv[1]))
    for b in d["bodies"]:
        if any(a in b["path"] for a in sys.argv[2:]):
            print(body(b))
            print()
