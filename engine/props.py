"""Property -> rules mapping and the per-property statements of what is and is
not decided (DESIGN.md section 5)."""

# rule name -> (module, function)
RULES = {
    "R-DROPGLUE": ("rules.accounting", "r_dropglue"),
    "R-LINK": ("rules.accounting", "r_link"),
    "R-WINDOW": ("rules.accounting", "r_window"),
    "R-BULKDROP-GUARD": ("rules.accounting", "r_bulkdrop_guard"),
    "R-PROBE-STOP": ("rules.lookup", "r_probe_stop"),
    "R-SLOT-PROVENANCE": ("rules.lookup", "r_slot_provenance"),
    "R-SLOT-FRESH": ("rules.lookup", "r_slot_fresh"),
    "R-BUCKET-FRESH": ("rules.lookup", "r_bucket_fresh"),
    "R-RESERVE-FIRST": ("rules.lookup", "r_reserve_first"),
    "R-RESERVE-GUARD": ("rules.lookup", "r_reserve_guard"),
    "R-REHASH-DECISION": ("rules.lookup", "r_rehash_decision"),
    "R-ENTRY-NOEFFECT": ("rules.lookup", "r_entry_noeffect"),
    "R-EQ-NOEFFECT": ("rules.lookup", "r_eq_noeffect"),
    "R-ITEMS-GUARD": ("rules.iters", "r_items_guard"),
    "R-FORWARD": ("rules.iters", "r_forward"),
    "R-CLONE-FIELDS": ("rules.iters", "r_clone_fields"),
    "R-DEFAULT-EMPTY": ("rules.iters", "r_default_empty"),
    "R-RETAIN-SHAPE": ("rules.iters", "r_retain_shape"),
    "R-EXTRACT-NODROP": ("rules.iters", "r_extract_nodrop"),
    "R-MANYMUT": ("rules.iters", "r_manymut"),
    "R-CURSOR-STATE": ("rules.iters", "r_cursor_state"),
    "R-REHASH-LOOP": ("rules.iters", "r_rehash_loop"),
    "R-ARITH": ("rules.arith", "r_arith"),
    "R-GROUP-CONSTS": ("rules.arith", "r_group_consts"),
    "R-HASH-TAINT": ("rules.arith", "r_hash_taint"),
    "R-INDEX-BOUNDED": ("rules.arith", "r_index_bounded"),
    "R-SAME-GROUP": ("rules.arith", "r_same_group"),
    "R-SHRINK-DECISION": ("rules.lookup", "r_shrink_decision"),
    "R-SET-DELEGATION": ("rules.derived", "r_set_delegation"),
    "R-SET-EQUIV-ASSERT": ("rules.derived", "r_set_equiv_assert"),
    "R-EQ-LEN": ("rules.derived", "r_eq_len"),
    "R-CLONE-SHAPE": ("rules.derived", "r_clone_shape"),
    "R-KEEP-KEY": ("rules.derived", "r_keep_key"),
    "R-HASH-SOURCE": ("rules.derived", "r_hash_source"),
    "R-PAR-LINEAR": ("rules.derived", "r_par_linear"),
    "R-SPLIT-ABUT": ("rules.derived", "r_split_abut"),
    "R-PAR-DELEGATION": ("rules.derived", "r_par_delegation"),
    "R-SERDE": ("rules.derived", "r_serde"),
    "R-SWEEP-RANGE": ("rules.round2", "r_sweep_range"),
    "R-PROBE-STEP": ("rules.round2", "r_probe_step"),
    "R-ZST-PTR": ("rules.round2", "r_zst_ptr"),
    "R-GROUP-DEFS": ("rules.round2", "r_group_defs"),
    "R-CLONE-GUARD-RANGE": ("rules.round2", "r_clone_guard_range"),
    "R-ALLOC-IDENTITY": ("rules.round2", "r_alloc_identity"),
    "R-RESIZE-TARGET": ("rules.round2", "r_resize_target"),
    "R-PAR-CONSUME": ("rules.round2", "r_par_consume"),
    "R-SUBSET-LEN": ("rules.round2", "r_subset_len"),
    "R-SET-ASSIGN": ("rules.derived", "r_set_assign"),
    "R-HASHER-SOURCE": ("rules.derived", "r_hasher_source"),
    "R-DROP-ORDER": ("rules.ownership", "r_drop_order"),
    "R-UNCHECKED-LEDGER": ("rules.ownership", "r_unchecked_ledger"),
    "R-REBORROW": ("rules.typelevel", "r_reborrow"),
    "R-HINT-LOWER": ("rules.round3", "r_hint_lower"),
    "R-TRY-WRAPPERS": ("rules.round3", "r_try_wrappers"),
    "R-CAP-WRAPPERS": ("rules.round3", "r_cap_wrappers"),
    "R-SIBLING-FORWARD": ("rules.round3", "r_sibling_forward"),
    "R-TAG-CONSTS": ("rules.round3", "r_tag_consts"),
    "R-BITMASK-DEFS": ("rules.round3", "r_bitmask_defs"),
    "R-ARG-ORDER": ("rules.round3", "r_arg_order"),
    "R-ZST-DROP": ("rules.round3", "r_zst_drop"),
    "R-FORGET-WINDOW": ("rules.round3", "r_forget_window"),
    "R-LOAD-FACTOR": ("rules.round3", "r_load_factor"),
    "R-ERASE-WINDOW": ("rules.round3", "r_erase_window"),
    "R-PROBE-INDEX": ("rules.round3", "r_probe_index"),
    "R-CTRL-GEOMETRY": ("rules.round3", "r_ctrl_geometry"),
    "R-ACCT": ("rules.acct", "r_acct"),
    "R-CTRL-WRITE": ("rules.acct", "r_ctrl_write"),
    "R-ERASE-BEFORE": ("rules.ownership", "r_erase_before"),
    "R-OWNING-ITER": ("rules.ownership", "r_owning_iter"),
    "R-DUP-FORGET": ("rules.ownership", "r_dup_forget"),
    "R-DRAIN-PROTOCOL": ("rules.ownership", "r_drain_protocol"),
    "R-GUARD-STALE-COUNT": ("rules.round3", "r_guard_stale_count"),
    "R-DROPCK": ("rules.typelevel", "r_dropck"),
    "R-LINEAR-INNER": ("rules.ownership", "r_linear_inner"),
    "R-ALLOC-WHO": ("rules.ownership", "r_alloc_who"),
    "R-SINGLETON-GUARD": ("rules.ownership", "r_singleton_guard"),
    "R-FIELD-IMMUT": ("rules.ownership", "r_field_immut"),
    "R-LAYOUT-SOURCE": ("rules.ownership", "r_layout_source"),
    "R-NOALLOC-REACH": ("rules.ownership", "r_noalloc_reach"),
    "R-INFALLIBLE": ("rules.fallible", "r_infallible"),
    "R-FALLIBLE-THREAD": ("rules.fallible", "r_fallible_thread"),
    "R-FALLIBLE-NOPANIC": ("rules.fallible", "r_fallible_nopanic"),
    "R-ERR-CLEAN": ("rules.fallible", "r_err_clean"),
    "R-AUTO": ("rules.typelevel", "r_auto"),
    "R-VARIANCE": ("rules.typelevel", "r_variance"),
    "R-SIG-REGION": ("rules.typelevel", "r_sig_region"),
    "R-MUT-FROM-MUT": ("rules.typelevel", "r_mut_from_mut"),
    "R-RAW-ESCAPE": ("rules.typelevel", "r_raw_escape"),
}

# rules that only exist when a feature is compiled in: rule -> configs where it is evaluated
RAYON_CFGS = ("all", "all-generic", "rayon", "all-release-shape")
SERDE_CFGS = ("all", "all-generic", "serde", "all-release-shape")
RULE_CONFIGS = {
    "R-PAR-LINEAR": RAYON_CFGS, "R-SPLIT-ABUT": RAYON_CFGS, "R-PAR-DELEGATION": RAYON_CFGS,
    "R-SERDE": SERDE_CFGS,
    "R-PAR-CONSUME": RAYON_CFGS,
}
# properties whose code only exists with a feature: quick tier must include a config that has it (all)

PROPS = {
    "C04": {
        "rules": ["R-WINDOW", "R-DROPGLUE", "R-LINK", "R-BULKDROP-GUARD", "R-ERASE-BEFORE", "R-ACCT", "R-DRAIN-PROTOCOL"],
        "level": "other",
        "decided": "no user callback can run inside a broken-invariant window of any table operation without a live scope guard (R-WINDOW, all callback sites of all operations); "
                   "accounting repairs do not depend on drop glue (R-DROPGLUE); table and hasher of a map are never left mismatched by an unwinding Clone (R-LINK); "
                   "bulk destructor runs are guarded by a table reset (R-BULKDROP-GUARD); an element is moved out or destroyed only after its slot was unregistered, so a destructor or closure panic cannot cause a double drop (R-ERASE-BEFORE); "
                   "counts are balanced on every path including the unwind guards (R-ACCT); a leaked or panicking drain leaves an empty valid table (R-DRAIN-PROTOCOL)",
        "not_decided": "that a guard closure restores exactly the right counts (only necessary conditions); leak-vs-drop accounting of individual elements",
    },
}

PROPS["C12"] = {
    "rules": ["R-FALLIBLE-THREAD", "R-FALLIBLE-NOPANIC", "R-ERR-CLEAN", "R-INFALLIBLE", "R-WINDOW", "R-ARITH", "R-LAYOUT-SOURCE"],
    "level": "other",
    "decided": "the public try_reserve passes Fallible and every function of the reservation call tree threads its own fallibility parameter unchanged down to the allocator call (R-FALLIBLE-THREAD); "
               "no explicit panic site is reachable from try_reserve outside debug assertions and the Infallible arms (R-FALLIBLE-NOPANIC, 69 bodies); "
               "every error exit of the call tree precedes the first write to the caller's table and follows no successful allocation, so on error contents, len and allocation are as before and nothing leaks (R-ERR-CLEAN); "
               "errors arise only from Fallibility::{capacity_overflow, alloc_err} (R-INFALLIBLE); the new table is fully built under a guard before the old one is touched (R-WINDOW on resize_inner); "
               "it never asks the allocator for an invalid layout: size arithmetic is checked and the only Layout ever passed is the guarded one (R-ARITH, R-LAYOUT-SOURCE)",
    "not_decided": "the numeric post-condition capacity() >= len()+additional on success; that the arithmetic guards compute the right bounds (see C17)",
}

PROPS["C16"] = {
    "rules": ["R-AUTO", "R-VARIANCE", "R-SIG-REGION", "R-MUT-FROM-MUT", "R-RAW-ESCAPE"],
    "level": "proof",
    "decided": "for every effectively-public type: the exact set of per-parameter bounds under which rustc's trait solver proves Send / Sync is at least what the type's access class requires (R-AUTO); "
               "every type that can hand out &mut with one of its own lifetimes is invariant in what it can write through, by rustc's variance inference (R-VARIANCE); "
               "every borrowed region in a public return type is tied to an argument (R-SIG-REGION) and mutable/owning access is only derived from an exclusive borrow or a by-value mutable handle of the same lifetime (R-MUT-FROM-MUT); "
               "no raw handle type escapes through a public signature (R-RAW-ESCAPE)",
    "not_decided": "nothing of the property's three clauses is left to runtime; outside the claim: the access-class table itself (reviewed by hand), configurations that cannot be type-checked here",
}

PROPS["C03"] = {
    "rules": ["R-ALLOC-WHO", "R-LAYOUT-SOURCE", "R-FIELD-IMMUT", "R-SINGLETON-GUARD", "R-NOALLOC-REACH", "R-LINEAR-INNER", "R-DROP-ORDER",
              "R-ERASE-BEFORE", "R-OWNING-ITER", "R-DUP-FORGET", "R-DRAIN-PROTOCOL", "R-BULKDROP-GUARD", "R-WINDOW"],
    "level": "other",
    "decided": "allocation pairing: who may call the allocator, every Layout comes from calculate_layout_for(buckets)/into_allocation and bucket_mask/ctrl are never reassigned, so a block is returned with the layout it was requested with (R-ALLOC-WHO, R-LAYOUT-SOURCE, R-FIELD-IMMUT); "
               "the static empty singleton is never freed (R-SINGLETON-GUARD); constructors of empty collections cannot reach the allocator and clear/drain/retain/extract_if cannot reach deallocate (R-NOALLOC-REACH); "
               "no local RawTableInner (which has no Drop) is dropped on the floor (R-LINEAR-INNER); an element is moved out or destroyed only after its slot was unregistered (R-ERASE-BEFORE); "
               "owning iterators destroy their remainder through the same cursor and then release storage (R-OWNING-ITER); bit-wise duplicates forget the original (R-DUP-FORGET); the drain protocol (R-DRAIN-PROTOCOL); guarded bulk destruction (R-BULKDROP-GUARD)",
    "not_decided": "that the group walk in drop_elements reaches every FULL byte; per-element drop counts for particular histories",
}

PROPS["C01"] = {
    "rules": ["R-PROBE-STOP", "R-CTRL-WRITE", "R-SLOT-PROVENANCE", "R-SLOT-FRESH", "R-BUCKET-FRESH", "R-KEEP-KEY", "R-HASH-SOURCE", "R-HASHER-SOURCE", "R-ACCT", "R-RESERVE-GUARD", "R-REHASH-DECISION", "R-SAME-GROUP"],
    "level": "other",
    "decided": "the mechanisms the property rests on are structurally intact on every path: lookups stop only at an EMPTY byte and all search loops agree (R-PROBE-STOP); control bytes are written only through mirror-maintaining primitives (R-CTRL-WRITE); "
               "every insert slot passes through the small-table fix-up (R-SLOT-PROVENANCE) and is consumed before any other mutation, buckets are not used across a rehash (R-SLOT-FRESH, R-BUCKET-FRESH); free-slot accounting (R-ACCT); growth decisions (R-RESERVE-GUARD, R-REHASH-DECISION)",
    "not_decided": "that each call returns what a reference association list would return; the values computed by erase's DELETED-vs-EMPTY threshold, the triangular probe, is_in_same_group and the in-place rehash loop",
}

PROPS["C09"] = {
    "rules": ["R-ITEMS-GUARD", "R-CURSOR-STATE", "R-FORWARD", "R-CLONE-FIELDS", "R-DEFAULT-EMPTY", "R-DRAIN-PROTOCOL", "R-OWNING-ITER"],
    "level": "other",
    "decided": "the count-bounded group walk is guarded by items != 0 and decrements items exactly once per yielded element, size_hint is (items, Some(items)), fold receives items (R-ITEMS-GUARD: fused, exact length reporting); "
               "every wrapper iterator forwards next/size_hint/fold/len to the same inner cursor (R-FORWARD); hand-written Clone impls copy field i from field i (R-CLONE-FIELDS); default iterators are built over the static empty table (R-DEFAULT-EMPTY)",
    "not_decided": "that next_impl/fold_impl visit each FULL byte exactly once (bit-mask walk over runtime control bytes)",
}

PROPS["C10"] = {
    "rules": ["R-RETAIN-SHAPE", "R-EXTRACT-NODROP", "R-DRAIN-PROTOCOL", "R-NOALLOC-REACH", "R-ERASE-BEFORE", "R-ACCT"],
    "level": "other",
    "decided": "retain calls its predicate once per element, erases exactly on false and erases the bucket just yielded (R-RETAIN-SHAPE); extract_if types have no Drop and remove exactly on true (R-EXTRACT-NODROP); "
               "the drain protocol: table moved out, remainder dropped, cleared, written back (R-DRAIN-PROTOCOL); clear/drain/retain/extract_if cannot reach deallocate (R-NOALLOC-REACH); erase-before-drop and clear-shape accounting (R-ERASE-BEFORE, R-ACCT)",
    "not_decided": "interaction of erase with the iterator's live group snapshot; which elements a particular predicate selects",
}

PROPS["C15"] = {
    "rules": ["R-MANYMUT", "R-SIG-REGION", "R-MUT-FROM-MUT"],
    "level": "other",
    "decided": "the no-alias clause: every conversion of looked-up pointers into &mut is dominated by a complete pairwise pointer-identity check that panics on equality and depends on nothing else; the unchecked variants are unreachable from safe code except through it; "
               "every requested key gets its own unconditional find; the returned references borrow the collection exclusively (R-SIG-REGION, R-MUT-FROM-MUT)",
    "not_decided": "result order and that each present key yields its own entry (runtime)",
}

PROPS["C05"] = {
    "rules": ["R-HASH-TAINT", "R-INDEX-BOUNDED", "R-PROBE-STOP", "R-MANYMUT", "R-EQ-NOEFFECT", "R-SLOT-FRESH", "R-REHASH-LOOP", "R-ACCT", "R-ITEMS-GUARD"],
    "level": "other",
    "decided": "arbitrary (even non-deterministic) hash answers never reach an index unmasked and every index handed to a bucket/control accessor is bounded by construction, including the re-hash during growth and in-place rehash (R-HASH-TAINT, R-INDEX-BOUNDED); probe termination never depends on eq/hash answers, only on an EMPTY byte (R-PROBE-STOP) whose existence is the free-slot accounting (R-ACCT); aliasing in get_many_mut is decided by pointer identity, not by the user's eq (R-MANYMUT); "
               "no accounting store depends on an eq answer (R-EQ-NOEFFECT); a slot found before a rehash is never used after it (R-SLOT-FRESH); iteration is bounded by items (R-ITEMS-GUARD)",
    "not_decided": "that len() equals the number of elements yielded under inconsistent hashes in rehash_in_place (loop logic over runtime control bytes)",
}

PROPS["C02"] = {
    "rules": ["R-ITEMS-GUARD", "R-CURSOR-STATE", "R-ACCT", "R-DROPGLUE", "R-WINDOW", "R-BULKDROP-GUARD", "R-INFALLIBLE", "R-FIELD-IMMUT", "R-LAYOUT-SOURCE", "R-ARITH",
              "R-HASH-TAINT", "R-INDEX-BOUNDED", "R-GROUP-CONSTS", "R-CTRL-WRITE", "R-DRAIN-PROTOCOL", "R-SINGLETON-GUARD", "R-SLOT-PROVENANCE", "R-SLOT-FRESH", "R-BUCKET-FRESH",
              "R-RESERVE-FIRST", "R-ERASE-BEFORE", "R-SIG-REGION", "R-MUT-FROM-MUT", "R-MANYMUT", "R-RAW-ESCAPE"],
    "level": "other",
    "decided": "necessary conditions of memory safety, each of which, if broken, yields undefined behaviour for some safe program: count-bounded group walks are bounded by items and items equals the number of FULL bytes on every path static analysis can see "
               "(R-ITEMS-GUARD, R-CURSOR-STATE, R-ACCT, R-DROPGLUE, R-WINDOW, R-BULKDROP-GUARD); every unreachable_unchecked after an infallible call / re-derived layout is unreachable (R-INFALLIBLE, R-FIELD-IMMUT, R-LAYOUT-SOURCE); "
               "from_size_align_unchecked gets the guarded length and the element-aware alignment (R-ARITH); hash bits never index unmasked and every index handed to a bucket/control accessor is bounded by construction (R-HASH-TAINT, R-INDEX-BOUNDED); "
               "back-end width/stride/mask constants agree (R-GROUP-CONSTS); mirrored control bytes (R-CTRL-WRITE); leak-safety of drains (R-DRAIN-PROTOCOL); the static singleton is never freed (R-SINGLETON-GUARD); "
               "insert slots and buckets are never stale (R-SLOT-PROVENANCE, R-SLOT-FRESH, R-BUCKET-FRESH, R-RESERVE-FIRST); no slot reference outlives or aliases a mutation (R-SIG-REGION, R-MUT-FROM-MUT, R-MANYMUT); raw handles do not escape (R-RAW-ESCAPE)",
    "not_decided": "the property as a whole (no sequence of safe calls causes UB); the three unwrap_unchecked that rest on the load-factor invariant, ZST pseudo-pointers and the values of index arithmetic are audited only",
}

PROPS["C17"] = {
    "rules": ["R-ARITH", "R-HASH-TAINT", "R-GROUP-CONSTS"],
    "level": "other",
    "decided": "the overflow clause as far as it is a shape property: every addition/multiplication on a size or capacity value in the sizing functions is a checked_* call whose None is branched on, or one of 7 reviewed allow-listed forms with a bound argument; "
               "the length given to Layout::from_size_align_unchecked is the very value compared against isize::MAX - (align - 1); ctrl_align is max(align_of::<T>(), Group::WIDTH) and is the alignment passed; the probe position is re-masked after every stride (R-HASH-TAINT); back-end constants (R-GROUP-CONSTS)",
    "not_decided": "every numeric clause: power of two, usable capacity >= request and < bucket count, that the probe sequence visits every group once; these need bit-precise evaluation over 2^64 inputs, outside this family",
}

PROPS["C13"] = {
    "rules": ["R-REHASH-DECISION", "R-ACCT", "R-PROBE-STOP", "R-DROPGLUE", "R-WINDOW", "R-RESERVE-GUARD"],
    "level": "other",
    "decided": "the three reclaiming mechanisms exist on the paths where they must: reserve_rehash_inner reaches both in-place rehash and resize on opposite arms of a comparison of items + additional against the 7/8 capacity, not of growth_left (R-REHASH-DECISION); "
               "tombstone reuse costs no capacity, only a slot restored to EMPTY gives capacity back, growth_left is always recomputed from bucket_mask_to_capacity (R-ACCT); probe termination rests on an EMPTY byte (R-PROBE-STOP); the EMPTY reserve promised by growth_left is not corrupted by unwinding (R-DROPGLUE, R-WINDOW); growth only when room is insufficient (R-RESERVE-GUARD)",
    "not_decided": "the memory bound and its constant; termination as such (it follows from the accounting only together with the numeric load-factor invariant)",
}

PROPS["C08"] = {
    "rules": ["R-NOALLOC-REACH", "R-RESERVE-GUARD", "R-SHRINK-DECISION", "R-LAYOUT-SOURCE", "R-SINGLETON-GUARD", "R-FIELD-IMMUT", "R-LINEAR-INNER", "R-ACCT", "R-WINDOW"],
    "level": "other",
    "decided": "new/default/with_capacity(0) cannot reach the allocator and clear/drain keep the allocation (R-NOALLOC-REACH); no allocation while additional <= growth_left, insert grows only when growth_left == 0 and the slot is EMPTY, capacity() = items + growth_left (R-RESERVE-GUARD); "
               "allocation_size() reports the size of the very layout the block was allocated with (R-LAYOUT-SOURCE, R-FIELD-IMMUT); shrink_to releases the old table on every path (R-LINEAR-INNER); clear recomputes growth_left from the bucket mask, replace_bucket_with restores it (R-ACCT); shrinking moves elements only through the guarded resize (R-WINDOW)",
    "not_decided": "the numeric clauses: capacity() >= len()+n after reserve(n), shrink bounds, 'no larger than a fresh with_capacity'",
}

PROPS["C14"] = {
    "rules": ["R-RESERVE-FIRST", "R-ENTRY-NOEFFECT", "R-HASH-SOURCE", "R-HASHER-SOURCE", "R-BUCKET-FRESH", "R-SLOT-FRESH", "R-RESERVE-GUARD", "R-ACCT", "R-WINDOW", "R-ERASE-BEFORE", "R-SIG-REGION", "R-MUT-FROM-MUT"],
    "level": "other",
    "decided": "rustc_entry reserves before creating a Vacant entry and insert_no_grow is reachable only from it (R-RESERVE-FIRST, code the baseline never compiles); creating an entry reaches no table mutation (except reserve for HashTable::entry / rustc_entry), so an unused Vacant entry changes nothing (R-ENTRY-NOEFFECT); "
               "an Occupied entry never holds a bucket found before a rehash (R-BUCKET-FRESH); Vacant inserts go through RawTable::insert whose growth condition is intact (R-RESERVE-GUARD, R-SLOT-FRESH); replace_bucket_with removes before calling the closure and restores control byte and growth_left (R-ERASE-BEFORE, R-ACCT, R-WINDOW); entry types borrow the map exclusively (R-SIG-REGION, R-MUT-FROM-MUT)",
    "not_decided": "equality of return values with the plain get/insert/remove API (runtime)",
}

PROPS["C06"] = {
    "rules": ["R-RESERVE-FIRST", "R-SLOT-FRESH", "R-PROBE-STOP", "R-SAME-GROUP", "R-ACCT", "R-CTRL-WRITE", "R-MANYMUT", "R-FORWARD", "R-ENTRY-NOEFFECT"],
    "level": "other",
    "decided": "find_or_find_insert_slot reserves before searching (R-RESERVE-FIRST); the slot of a VacantEntry is consumed before any other mutation and insert_in_slot re-reads the slot's control byte (R-SLOT-FRESH); iter_hash stops exactly where find stops: on EMPTY, never on a tombstone (R-PROBE-STOP); "
               "tombstone reuse by insert_unique costs no capacity (R-ACCT); mirrored control bytes (R-CTRL-WRITE); HashTable::get_many_mut goes through the checked path (R-MANYMUT); the seven table iterators forward to the raw cursor (R-FORWARD)",
    "not_decided": "the multiset equality and iter_hash completeness (runtime); is_in_same_group's arithmetic",
}

PROPS["C07"] = {
    "rules": ["R-SET-DELEGATION", "R-SET-ASSIGN", "R-SET-EQUIV-ASSERT", "R-KEEP-KEY", "R-SLOT-FRESH", "R-EQ-LEN", "R-PROBE-STOP", "R-SAME-GROUP", "R-HASH-SOURCE"],
    "level": "other",
    "decided": "the operator forms |, &, ^, - call union/intersection/symmetric_difference/difference with (self, rhs) in that order, is_superset swaps its operands, symmetric_difference chains both differences, the filtering iterators probe the other operand, "
               "and the basic operations forward to the map (R-SET-DELEGATION: 'agree with them' by construction); get_or_insert_with stores only after the equivalence assertion succeeded (R-SET-EQUIV-ASSERT); replace stores the new value, get_or_insert keeps the old (R-KEEP-KEY); "
               "^= consumes its slot before any other mutation (R-SLOT-FRESH); == compares lengths with == and looks up through the other set's hasher (R-EQ-LEN); insert-or-find never stops at a tombstone (R-PROBE-STOP)",
    "not_decided": "that the iterators yield the mathematical result with each element once (runtime); the assigning forms |=, &=, -= are independent implementations whose results are not decided",
}

PROPS["C11"] = {
    "rules": ["R-CLONE-SHAPE", "R-CTRL-WRITE", "R-WINDOW", "R-ACCT", "R-LINEAR-INNER", "R-SINGLETON-GUARD", "R-EQ-LEN", "R-LINK", "R-FIELD-IMMUT", "R-BULKDROP-GUARD"],
    "level": "other",
    "decided": "each slot of a clone is written with a T::clone result and control bytes are copied over the whole range (R-CLONE-SHAPE, R-CTRL-WRITE); clone_from re-allocates with the source's bucket count exactly when the bucket counts differ (R-CLONE-SHAPE) and frees/keeps the old block correctly on each of its paths "
               "(R-LINEAR-INNER, R-SINGLETON-GUARD, R-FIELD-IMMUT, R-BULKDROP-GUARD); counts are copied after the last clone (R-ACCT, R-WINDOW); table and hasher of a map/set are never left mismatched (R-LINK); == tests len() equality with ==/!= and looks up through the other collection's own hasher (R-EQ-LEN: symmetry, independence of layout/capacity/hasher state)",
    "not_decided": "equality of contents after clone for particular histories (runtime)",
}

PROPS["C19"] = {
    "rules": ["R-PAR-LINEAR", "R-SPLIT-ABUT", "R-DRAIN-PROTOCOL", "R-PAR-DELEGATION", "R-DUP-FORGET", "R-OWNING-ITER", "R-SINGLETON-GUARD", "R-AUTO", "R-MUT-FROM-MUT", "R-DROPGLUE"],
    "level": "other",
    "decided": "(feature rayon, never built by the baseline) a drain leaf iterates its cursor in place and forgets itself only after exhaustion, Drop walks the same cursor (R-PAR-LINEAR, R-OWNING-ITER); split forgets the original after duplicating the cursor (R-DUP-FORGET) and head end / tail start are one group-aligned value (R-SPLIT-ABUT); "
               "par_drain installs its clear guard before bridging (R-DRAIN-PROTOCOL); into_par_iter frees only a real allocation (R-SINGLETON-GUARD); par_extend/par_eq/set predicates reach their sequential counterparts and the parallel set operations probe the other operand (R-PAR-DELEGATION); Send/Sync and exclusivity of the rayon types (R-AUTO, R-MUT-FROM-MUT)",
    "not_decided": "exactly-once delivery under all split trees and schedules (runtime)",
}

PROPS["C20"] = {
    "rules": ["R-SERDE", "R-KEEP-KEY"],
    "level": "other",
    "decided": "(feature serde, never built by the baseline) every capacity reserved before reading depends on the claimed length only through size_hint::cautious = min(hint, C <= 4096) (taint); the visitors add elements with HashMap::insert / HashSet::insert, whose overwrite keeps the last value (R-KEEP-KEY); "
               "deserialize_in_place clears first; Serialize hands the collection itself to collect_map/collect_seq; no forget/ManuallyDrop in the module, so an error drops the partly built collection normally",
    "not_decided": "round-trip equality (runtime)",
}

NOT_APPLICABLE = {
    "C18": "Both sentences are about numeric results of bit-tricks and equality of two builds' observable values; deciding them needs bit-precise symbolic evaluation or execution, outside the static-analysis family. A structural proxy would fire on behaviour-preserving rewrites. The portable back-end is still covered by every other rule (config all-generic) and its width/stride/mask constants by R-GROUP-CONSTS under C02 (DESIGN.md section 7).",
}

# compile-fail witness corpus (W-BORROW / W-AUTO): every run for C16 (7 s), thorough tier for the others;
# thorough tier of every property also runs the self-test of that property's mutation corpus
for _p in PROPS:
    PROPS[_p]["extra"] = []
for _p in ("C02", "C06", "C07", "C14", "C15", "C16"):
    PROPS[_p]["extra"].append(("witness", "hook", "always" if _p == "C16" else "thorough"))
    PROPS[_p]["extra_technique"] = "compile-fail witnesses with twins (rustc borrowck / trait solver)"
for _p in PROPS:
    PROPS[_p]["extra"].append(("selfcheck", "hook", "thorough"))

# rules added after the second round of independent mutations (DESIGN.md 12.6)
_ROUND2 = {'C01': ['R-PROBE-STEP', 'R-SWEEP-RANGE', 'R-RESIZE-TARGET'], 'C02': ['R-VARIANCE', 'R-AUTO', 'R-ZST-PTR', 'R-SWEEP-RANGE', 'R-PROBE-STEP', 'R-GROUP-DEFS', 'R-ALLOC-IDENTITY', 'R-UNCHECKED-LEDGER'], 'C03': ['R-SWEEP-RANGE', 'R-ALLOC-IDENTITY', 'R-CLONE-GUARD-RANGE'], 'C04': ['R-SWEEP-RANGE', 'R-CLONE-GUARD-RANGE'], 'C05': ['R-SWEEP-RANGE', 'R-PROBE-STEP'], 'C06': ['R-PROBE-STEP', 'R-DROPGLUE', 'R-SWEEP-RANGE'], 'C07': ['R-SUBSET-LEN'], 'C08': ['R-RESIZE-TARGET'], 'C09': ['R-GROUP-DEFS'], 'C11': ['R-CLONE-GUARD-RANGE', 'R-ALLOC-IDENTITY'], 'C12': ['R-RESIZE-TARGET', 'R-RESERVE-GUARD'], 'C13': ['R-RESIZE-TARGET', 'R-CTRL-WRITE', 'R-SWEEP-RANGE'], 'C17': ['R-PROBE-STEP'], 'C19': ['R-PAR-CONSUME']}
for _p, _rs in _ROUND2.items():
    for _r in _rs:
        if _r not in PROPS[_p]["rules"]:
            PROPS[_p]["rules"].append(_r)

_ROUND2_CLAUSE = {
    "R-SWEEP-RANGE": "loops that must visit every bucket run over 0..buckets() (R-SWEEP-RANGE)",
    "R-PROBE-STEP": "the probe stride grows before it is added and the position is re-masked, so no group is visited twice per cycle (R-PROBE-STEP)",
    "R-ZST-PTR": "zero-sized elements get the aligned dangling pointer, never the index encoding (R-ZST-PTR)",
    "R-GROUP-DEFS": "every scanner back-end defines match_full as the inversion of match_empty_or_deleted (R-GROUP-DEFS)",
    "R-CLONE-GUARD-RANGE": "the clone guard's index is slot + 1 and advanced after the write (R-CLONE-GUARD-RANGE)",
    "R-ALLOC-IDENTITY": "blocks are obtained from and returned to the table's own allocator (R-ALLOC-IDENTITY)",
    "R-RESIZE-TARGET": "the resize capacity derives from items + additional and the in-place path has no extra condition (R-RESIZE-TARGET)",
    "R-PAR-CONSUME": "every element taken from the drain cursor is read before return; intermediate lists are concatenated in source order (R-PAR-CONSUME)",
    "R-SUBSET-LEN": "is_subset scans exactly when self.len() <= other.len() (R-SUBSET-LEN)",
    "R-VARIANCE": "mutable-access types are invariant (R-VARIANCE)",
    "R-AUTO": "Send/Sync bounds respect the access classes (R-AUTO)",
    "R-DROPGLUE": "accounting independent of drop glue (R-DROPGLUE)",
    "R-RESERVE-GUARD": "growth exactly when additional > growth_left (R-RESERVE-GUARD)",
    "R-CTRL-WRITE": "mirrored control bytes maintained (R-CTRL-WRITE)",
}
for _p, _rs in _ROUND2.items():
    _extra = "; ".join(_ROUND2_CLAUSE[_r] for _r in _rs if _r in _ROUND2_CLAUSE)
    if _extra and _extra not in PROPS[_p]["decided"]:
        PROPS[_p]["decided"] += "; also: " + _extra

# rules added after the third round of independent mutations (DESIGN.md 12.8)
_ROUND3 = {'C16': ['R-REBORROW'], 'C02': ['R-REBORROW', 'R-DUP-FORGET', 'R-OWNING-ITER', 'R-CLONE-GUARD-RANGE', 'R-DROP-ORDER', 'R-PAR-CONSUME', 'R-LINEAR-INNER', 'R-TAG-CONSTS', 'R-BITMASK-DEFS', 'R-ARG-ORDER', 'R-ZST-DROP', 'R-FORGET-WINDOW', 'R-CLONE-SHAPE', 'R-CTRL-WRITE'], 'C14': ['R-REBORROW', 'R-KEEP-KEY', 'R-ARG-ORDER', 'R-REHASH-LOOP'], 'C15': ['R-REBORROW'], 'C03': ['R-PAR-CONSUME', 'R-SIBLING-FORWARD', 'R-ZST-DROP', 'R-GROUP-DEFS', 'R-AUTO', 'R-FORGET-WINDOW', 'R-PAR-LINEAR', 'R-CLONE-SHAPE'], 'C10': ['R-PAR-CONSUME', 'R-ZST-PTR', 'R-DUP-FORGET', 'R-ZST-DROP', 'R-PAR-LINEAR'], 'C06': ['R-ZST-PTR', 'R-BULKDROP-GUARD', 'R-SIBLING-FORWARD', 'R-BITMASK-DEFS', 'R-ARG-ORDER'], 'C09': ['R-ZST-PTR', 'R-ACCT', 'R-TAG-CONSTS', 'R-BITMASK-DEFS', 'R-FORWARD', 'R-GROUP-CONSTS', 'R-REHASH-LOOP'], 'C01': ['R-HINT-LOWER', 'R-SIBLING-FORWARD', 'R-TAG-CONSTS', 'R-BITMASK-DEFS', 'R-ARG-ORDER', 'R-GROUP-DEFS', 'R-LOAD-FACTOR'], 'C07': ['R-LINK', 'R-SIBLING-FORWARD', 'R-ARG-ORDER'], 'C12': ['R-TRY-WRAPPERS', 'R-SIBLING-FORWARD', 'R-FORWARD'], 'C08': ['R-CAP-WRAPPERS', 'R-HINT-LOWER', 'R-SIBLING-FORWARD', 'R-LOAD-FACTOR'], 'C05': ['R-BUCKET-FRESH', 'R-RESERVE-FIRST', 'R-TAG-CONSTS', 'R-BITMASK-DEFS', 'R-GROUP-DEFS', 'R-ZST-DROP', 'R-LOAD-FACTOR'], 'C11': ['R-SIBLING-FORWARD', 'R-FORGET-WINDOW', 'R-ZST-DROP', 'R-DROP-ORDER'], 'C13': ['R-TAG-CONSTS', 'R-GROUP-DEFS', 'R-LOAD-FACTOR'], 'C17': ['R-TAG-CONSTS', 'R-INFALLIBLE', 'R-LAYOUT-SOURCE', 'R-FALLIBLE-THREAD', 'R-LOAD-FACTOR'], 'C19': ['R-ARG-ORDER', 'R-EQ-LEN', 'R-ZST-DROP'], 'C04': ['R-ZST-DROP', 'R-FORGET-WINDOW'], 'C20': ['R-SINGLETON-GUARD', 'R-BULKDROP-GUARD', 'R-ZST-DROP']}
_ROUND3_CLAUSE = {
    "R-REBORROW": "a by-reference method of a mutable-access handle (entry, IterMut, Drain, ..) never returns the handle's own collection lifetime (R-REBORROW)",
    "R-PAR-CONSUME": "the parallel drain leaf forgets its producer only when its cursor is exhausted, every taken element is consumed (R-PAR-CONSUME)",
    "R-ZST-PTR": "both arms (zero-sized / sized) of the bucket index<->pointer conversions use the same index argument (R-ZST-PTR)",
    "R-BULKDROP-GUARD": "bulk destructor runs (clear, drop) happen under a guard that resets the table, so len() and contents agree after a panicking destructor (R-BULKDROP-GUARD)",
    "R-ACCT": "`items` moves only by exactly one per FULL byte written or cleared, so count-terminated iteration sees every stored element (R-ACCT)",
    "R-KEEP-KEY": "insert on an occupied entry replaces exactly the value of the stored pair (R-KEEP-KEY)",
    "R-HINT-LOWER": "space reserved ahead of extend/from_iter is sized from the lower size_hint bound only (R-HINT-LOWER)",
    "R-LINK": "a set's table is never replaced without its hasher (R-LINK)",
    "R-CLONE-SHAPE": "clone_from re-allocates exactly when the bucket counts differ; slots are written with clones (R-CLONE-SHAPE)",
    "R-EQ-LEN": "equality (sequential and parallel) answers false for a key missing from the other map (R-EQ-LEN)",
    "R-GROUP-CONSTS": "back-end constants are consistent (R-GROUP-CONSTS)",
    "R-REHASH-LOOP": "each arm of the in-place rehash acts on the right slot (R-REHASH-LOOP)",
    "R-LOAD-FACTOR": "constant relations of the load factor: capacity < buckets (7/8 < 1) and capacity_to_buckets inverts bucket_mask_to_capacity incl. the small-table arms (R-LOAD-FACTOR)",
    "R-SINGLETON-GUARD": "an allocated table is always freed, the static singleton never (R-SINGLETON-GUARD)",
    "R-PAR-LINEAR": "parallel drains hand every element to exactly one owner (R-PAR-LINEAR)",
    "R-INFALLIBLE": "capacity overflow is reported through the Fallibility parameter, never as a bare Err (R-INFALLIBLE)",
    "R-LAYOUT-SOURCE": "block and control pointers are related by calculate_layout_for's ctrl_offset in both directions; the Layout reaches the allocator untouched (R-LAYOUT-SOURCE)",
    "R-FALLIBLE-THREAD": "fallibility is threaded unchanged (R-FALLIBLE-THREAD)",
    "R-FORWARD": "iterator wrappers forward next/size_hint/fold/len to their inner cursor (R-FORWARD)",
    "R-FORGET-WINDOW": "no table-owning value sits in a ManuallyDrop while user code can run (R-FORGET-WINDOW)",
    "R-ZST-DROP": "NEEDS_DROP is mem::needs_drop and no destructor site or rehash drop function is gated on the element size: zero-sized elements with Drop are dropped (R-ZST-DROP)",
    "R-GROUP-DEFS": "the SSE2 scans select lanes by the sign bit (both special tags) or by equality with one tag exactly where their contract says so (R-GROUP-DEFS)",
    "R-AUTO": "owning iterators are Send/Sync only with their elements (R-AUTO)",
    "R-ARG-ORDER": "no call of a crate function passes a value named like another same-typed parameter in the wrong position (swapped arguments; 3 listed intentional swaps) (R-ARG-ORDER)",
    "R-BITMASK-DEFS": "the bit iterator removes exactly the bit it yields; remove_lowest_bit, invert and the bit->index conversions are the definitions the scans rely on (R-BITMASK-DEFS)",
    "R-TAG-CONSTS": "the masks of Tag::{is_full,is_special,special_is_empty} classify EMPTY, DELETED and every Tag::full value consistently (constant relations) (R-TAG-CONSTS)",
    "R-SIBLING-FORWARD": "every wrapper of HashSet/HashMap/HashTable whose layer below has a same-named operation uses it (70 wrappers, 4 listed exceptions) (R-SIBLING-FORWARD)",
    "R-DUP-FORGET": "a cursor or resource duplicated out of a Drop type is paired with forgetting the original on every path (R-DUP-FORGET)",
    "R-OWNING-ITER": "owning iterators release elements and block exactly once (R-OWNING-ITER)",
    "R-DROP-ORDER": "elements are dropped before their block is freed (R-DROP-ORDER)",
    "R-LINEAR-INNER": "a RawTableInner is never duplicated (R-LINEAR-INNER)",
    "R-CLONE-GUARD-RANGE": "the clone guard covers exactly the slots already written (R-CLONE-GUARD-RANGE)",
    "R-CAP-WRAPPERS": "reserve/shrink_to/shrink_to_fit/capacity/allocation_size/clear of every layer forward the untouched request to the layer below, shrink requests are not filtered by capacity() (R-CAP-WRAPPERS)",
    "R-BUCKET-FRESH": "an Occupied entry never holds a bucket found before a rehash (R-BUCKET-FRESH)",
    "R-RESERVE-FIRST": "rustc_entry reserves before searching (R-RESERVE-FIRST)",
    "R-TRY-WRAPPERS": "the public try_reserve of HashMap/HashSet/HashTable reach the raw fallible reservation, reach no Infallible call and do no arithmetic on the request (R-TRY-WRAPPERS)",
}
for _p, _rs in _ROUND3.items():
    for _r in _rs:
        if _r not in PROPS[_p]["rules"]:
            PROPS[_p]["rules"].append(_r)
    _extra = "; ".join(_ROUND3_CLAUSE[_r] for _r in _rs if _r in _ROUND3_CLAUSE)
    if _extra and _extra not in PROPS[_p]["decided"]:
        PROPS[_p]["decided"] += "; round 3: " + _extra

# round 7 (regressions hidden inside refactorings)
_ROUND7 = {'C16': ['R-DROPCK'], 'C02': ['R-GUARD-STALE-COUNT', 'R-DROPCK'], 'C03': ['R-GUARD-STALE-COUNT'], 'C04': ['R-GUARD-STALE-COUNT'], 'C11': ['R-GUARD-STALE-COUNT'],
           'C06': ['R-DRAIN-PROTOCOL']}
_ROUND7_CLAUSE = {
    "R-DROPCK": "a type whose destructor reaches a borrowed table through a raw pointer carries the borrow's lifetime (R-DROPCK)",
    "R-GUARD-STALE-COUNT": "an unwind guard's clean-up never depends on an element count its creator stores only afterwards (R-GUARD-STALE-COUNT)",
    "R-DRAIN-PROTOCOL": "a drain hands its table back only after resetting it, also when an element destructor panics (R-DRAIN-PROTOCOL)",
}
for _p, _rs in _ROUND7.items():
    for _r in _rs:
        if _r not in PROPS[_p]["rules"]:
            PROPS[_p]["rules"].append(_r)
    _extra = "; ".join(_ROUND7_CLAUSE[_r] for _r in _rs if _r in _ROUND7_CLAUSE)
    if _extra and _extra not in PROPS[_p]["decided"]:
        PROPS[_p]["decided"] += "; round 7: " + _extra

# The collection-semantics properties all rest on the raw table doing its job: a lookup that stops at the right place, control
# bytes that mean what the scans think they mean, counts that match the control bytes, the zero-sized encoding, the cursor
# walk. The independent mutation rounds showed agents breaking C06/C07/C14 (HashTable / HashSet / entries) through exactly these
# shared mechanisms, so the core-table rules are attached to every property whose statement quantifies over table behaviour.
CORE_TABLE = ["R-PROBE-STOP", "R-PROBE-STEP", "R-SAME-GROUP", "R-CTRL-WRITE", "R-ACCT", "R-SLOT-PROVENANCE", "R-SLOT-FRESH", "R-BUCKET-FRESH",
              "R-RESERVE-GUARD", "R-REHASH-DECISION", "R-REHASH-LOOP", "R-SWEEP-RANGE", "R-RESIZE-TARGET", "R-ZST-PTR", "R-GROUP-DEFS",
              "R-TAG-CONSTS", "R-BITMASK-DEFS", "R-CURSOR-STATE", "R-ITEMS-GUARD", "R-ERASE-BEFORE", "R-HASH-TAINT", "R-INDEX-BOUNDED", "R-ARG-ORDER", "R-DROPGLUE", "R-ERASE-WINDOW", "R-PROBE-INDEX", "R-CTRL-GEOMETRY", "R-GROUP-CONSTS", "R-SHRINK-DECISION", "R-REHASH-LOOP",
              # round 8: what a caught panic in user code leaves behind is part of every behavioural property (the next operation of the
              # history runs on that state): guarded windows, guarded bulk destruction, the resize hand-over
              "R-WINDOW", "R-BULKDROP-GUARD", "R-DROP-ORDER"]
for _p in ("C01", "C02", "C03", "C04", "C05", "C06", "C07", "C08", "C09", "C10", "C11", "C12", "C13", "C14", "C15", "C19", "C20"):
    _added = []
    for _r in CORE_TABLE:
        if _r not in PROPS[_p]["rules"]:
            PROPS[_p]["rules"].append(_r)
            _added.append(_r)
    if _added and "core-table rules" not in PROPS[_p]["decided"]:
        PROPS[_p]["decided"] += "; the shared core-table rules (probe termination and stride, control-byte writers and encoding constants, count accounting, slot/bucket freshness, growth and rehash decisions, zero-sized bucket encoding, group/bitmask definitions, cursor walk, erase-before-move, hash-taint/index bounds, argument order) are part of this check because every behaviour in the statement is implemented on them"
