"""Property -> rules mapping and the per-property statements of what is and is
not decided (DESIGN.md section 5)."""

# rule name -> (module, function)
RULES = {
    "R-DROPGLUE": ("rules.accounting", "r_dropglue"),
    "R-LINK": ("rules.accounting", "r_link"),
    "R-WINDOW": ("rules.accounting", "r_window"),
    "R-BULKDROP-GUARD": ("rules.accounting", "r_bulkdrop_guard"),
}

# rules that only exist when a feature is compiled in: rule -> configs where it is evaluated
RULE_CONFIGS = {}

PROPS = {
    "C04": {
        "rules": ["R-WINDOW", "R-DROPGLUE", "R-LINK", "R-BULKDROP-GUARD"],
        "level": "other",
        "decided": "no user callback can run inside a broken-invariant window of any table operation without a live scope guard (R-WINDOW, all callback sites of all operations); "
                   "accounting repairs do not depend on drop glue (R-DROPGLUE); table and hasher of a map are never left mismatched by an unwinding Clone (R-LINK); "
                   "bulk destructor runs are guarded by a table reset (R-BULKDROP-GUARD)",
        "not_decided": "that a guard closure restores exactly the right counts (only necessary conditions); leak-vs-drop accounting of individual elements",
    },
}

NOT_APPLICABLE = {
    "C18": "Both sentences are about numeric results of bit-tricks and equality of two builds' observable values; deciding them needs bit-precise symbolic evaluation or execution, outside the static-analysis family. A structural proxy would fire on behaviour-preserving rewrites. The portable back-end is still covered by every other rule (config all-generic) and its width/stride/mask constants by R-GROUP-CONSTS under C02 (DESIGN.md section 7).",
}
