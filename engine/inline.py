"""Virtual inlining of helper functions the rule tables do not know.

The rules are anchored at functions of the pinned tree (tables/known_fns.json: every non-closure function body that
existed when the rules were written). A maintainer who extracts part of such a function into a NEW private helper has
not changed behaviour, but the statements the rules look for are then one call away. Before any rule runs, every
crate function that is not in the known set, is not recursive and is called directly is therefore inlined (on the
extracted MIR, as data) into its callers - repeatedly, so helpers of helpers are handled - and dropped from the set of
bodies. The analysis then sees the anchor function with the helper's statements in place, exactly as before the
extraction. Nothing is executed; this is the usual summary-free treatment of small callees with a stated bound."""
import copy
import json
import os

VERIF = os.path.dirname(os.path.dirname(os.path.abspath(__file__)))
MAX_ROUNDS = 4
MAX_BLOCKS = 400


def known_fns():
    p = os.path.join(VERIF, "tables", "known_fns.json")
    if not os.path.exists(p):
        return None
    with open(p) as f:
        return set(json.load(f)["fns"])


def _shift(x, loff, boff, unwind_to):
    """deep-copy JSON x, adding loff to every local index and boff to every block index"""
    if isinstance(x, list):
        return [_shift(y, loff, boff, unwind_to) for y in x]
    if not isinstance(x, dict):
        return x
    out = {}
    for k, v in x.items():
        if k == "l" and isinstance(v, int) and ("proj" in x or set(x.keys()) <= {"l", "proj", "t"}):
            out[k] = v + loff
        elif k == "local" and isinstance(v, int) and x.get("k") == "index":
            out[k] = v + loff
        else:
            out[k] = _shift(v, loff, boff, unwind_to)
    return out


def _shift_term(t, loff, boff, unwind_to):
    t = _shift(t, loff, boff, unwind_to)
    k = t["k"]
    if "target" in t and isinstance(t["target"], int):
        t["target"] += boff
    if k == "switch":
        t["targets"] = [[v, b + boff] for v, b in t["targets"]]
        t["otherwise"] = t["otherwise"] + boff
    if "unwind" in t:
        u = t["unwind"]
        if isinstance(u, int):
            t["unwind"] = u + boff
        elif u == "continue":
            t["unwind"] = unwind_to
    return t


def inline_call(caller, bi, callee):
    """inline `callee` (body JSON) at the call terminating block bi of `caller` (body JSON, modified in place)"""
    blk = caller["blocks"][bi]
    call = blk["term"]
    loff = len(caller["locals"])
    boff = len(caller["blocks"])
    unwind_to = call.get("unwind", "continue")
    sp = call.get("sp")
    # locals of the callee (its _0 becomes an ordinary temporary of the caller)
    for lc in callee["locals"]:
        lc2 = copy.deepcopy(lc)
        lc2.pop("name", None) if False else None
        caller["locals"].append(lc2)
    # argument passing
    for q, a in enumerate(call["args"]):
        if q + 1 <= callee["arg_count"]:
            blk["stmts"].append({"k": "assign", "p": {"l": loff + q + 1}, "rv": {"k": "use", "op": copy.deepcopy(a)}, "sp": sp, "inlined_arg": True})
    blk["term"] = {"k": "goto", "target": boff}
    cleanup_parent = blk.get("cleanup", False)
    for cb in callee["blocks"]:
        nb = {"cleanup": bool(cb["cleanup"]) or cleanup_parent, "stmts": [_shift(s, loff, boff, unwind_to) for s in cb["stmts"]]}
        t = cb["term"]
        if t["k"] == "return":
            nb["stmts"].append({"k": "assign", "p": copy.deepcopy(call["dest"]), "rv": {"k": "use", "op": {"k": "move", "p": {"l": loff}}}, "sp": sp, "inlined_ret": True})
            if call.get("target") is not None:
                nb["term"] = {"k": "goto", "target": call["target"]}
            else:
                nb["term"] = {"k": "unreachable", "sp": sp}
        elif t["k"] == "resume":
            nb["term"] = {"k": "goto", "target": unwind_to} if isinstance(unwind_to, int) else {"k": "resume"}
        else:
            nb["term"] = _shift_term(t, loff, boff, unwind_to)
        caller["blocks"].append(nb)


def _callee_path(t):
    f = t["f"]
    if f.get("k") != "fn":
        return None
    return f.get("resolved", f.get("path"))


def _fingerprint(b):
    cal = set()
    for bb in b["blocks"]:
        t = bb["term"]
        if t["k"] == "call":
            cp = _callee_path(t)
            if cp:
                cal.add("::".join(cp.split("::")[-2:]))
    return {"args": [b["locals"][q]["ty"]["s"] for q in range(1, b["arg_count"] + 1)], "ret": b["locals"][0]["ty"]["s"],
            "names": [b["locals"][q].get("name") for q in range(1, b["arg_count"] + 1)],
            "callees": sorted(cal), "unsafe": bool(b.get("unsafe"))}


def fingerprints():
    p = os.path.join(VERIF, "tables", "fingerprints.json")
    if not os.path.exists(p):
        return {}
    with open(p) as f:
        return json.load(f)["fns"]


def _rename(j, old, new):
    """rewrite every occurrence of the function path `old` (and of its closures) to `new` in the facts"""
    def fix(x):
        if isinstance(x, str):
            if x == old:
                return new
            if x.startswith(old + "::{closure"):
                return new + x[len(old):]
            return x
        if isinstance(x, list):
            return [fix(y) for y in x]
        if isinstance(x, dict):
            return {k: fix(v) for k, v in x.items()}
        return x
    for key in ("bodies", "fns"):
        j[key] = fix(j.get(key, []))


def detect_renames(j, known):
    """a known function that is missing while exactly one unknown function has its signature and (nearly) its set of callees has
    been renamed or moved: it is analysed under its known name. Returns [(new_path, known_path)]."""
    fps = fingerprints()
    if not fps:
        return []
    present = {b["path"]: b for b in j["bodies"] if "{closure" not in b["path"]}
    cfg = j["header"]["cfg"]
    missing = [m for m in fps if m not in present and cfg in fps[m].get("cfgs", [cfg])]
    unknown = [u for u in present if u not in known]
    out = []
    used = set()
    for m in sorted(missing):
        fm = fps[m]
        best = []
        for u in unknown:
            if u in used:
                continue
            fu = _fingerprint(present[u])
            # the receiver type may be spelled through another path after a move; compare the other parameters and the result
            if len(fu["args"]) != len(fm["args"]) or fu["ret"] != fm["ret"] or fu["unsafe"] != fm["unsafe"]:
                continue
            if fu["args"][1:] != fm["args"][1:]:
                continue
            a, b_ = set(fu["callees"]), set(fm["callees"])
            sim = 1.0 if not a and not b_ else len(a & b_) / float(len(a | b_))
            # same simple name scores as strong evidence (moved between impl blocks / modules)
            same_name = u.rsplit("::", 1)[-1] == m.rsplit("::", 1)[-1]
            if sim >= 0.75 or (same_name and sim >= 0.5):
                best.append((sim + (0.5 if same_name else 0.0), u))
        best.sort(reverse=True)
        if best and (len(best) == 1 or best[0][0] - best[1][0] >= 0.2):
            u = best[0][1]
            used.add(u)
            _rename(j, u, m)
            out.append((u, m))
    return out


def _map_locals(x, m):
    """rewrite (in place) every local index of JSON x through the dict m"""
    if isinstance(x, list):
        for y in x:
            _map_locals(y, m)
    elif isinstance(x, dict):
        for k, v in x.items():
            if k == "l" and isinstance(v, int) and ("proj" in x or set(x.keys()) <= {"l", "proj", "t"}):
                x[k] = m.get(v, v)
            elif k == "local" and isinstance(v, int) and x.get("k") == "index":
                x[k] = m.get(v, v)
            else:
                _map_locals(v, m)


def restore_param_order(j):
    """a known function whose parameters are a permutation of the ones the rule tables were written against (identified by
    type, and by name where two parameters share a type) is analysed with the known order: its parameter locals and the
    arguments of every direct call are permuted back. Returns [(path, [current position of known parameter i ...])]."""
    fps = fingerprints()
    out = []
    if not fps:
        return out
    cfg = j["header"]["cfg"]
    for b in j["bodies"]:
        fm = fps.get(b["path"])
        if not fm or "names" not in fm or b.get("kind") not in ("Fn", "AssocFn") or cfg not in fm.get("cfgs", [cfg]):
            continue
        fu = _fingerprint(b)
        if fu["args"] == fm["args"] or len(fu["args"]) != len(fm["args"]) or sorted(fu["args"]) != sorted(fm["args"]):
            continue
        perm, used = [], set()
        for i, (ty, nm) in enumerate(zip(fm["args"], fm["names"])):
            cands = [q for q, t2 in enumerate(fu["args"]) if t2 == ty and q not in used]
            if len(cands) > 1:
                byname = [q for q in cands if nm and fu["names"][q] == nm]
                cands = byname if len(byname) == 1 else ([i] if i in cands else [])
            if len(cands) != 1:
                perm = None
                break
            perm.append(cands[0])
            used.add(cands[0])
        if not perm or perm == list(range(len(perm))):
            continue
        # locals: known parameter i (local i+1) is today's local perm[i]+1
        m = {perm[i] + 1: i + 1 for i in range(len(perm))}
        _map_locals(b["blocks"], m)
        olds = [b["locals"][q + 1] for q in range(len(perm))]
        for i in range(len(perm)):
            b["locals"][i + 1] = olds[perm[i]]
        for c in j["bodies"]:
            for bb in c["blocks"]:
                t = bb["term"]
                if t["k"] == "call" and _callee_path(t) == b["path"] and len(t["args"]) == len(perm):
                    t["args"] = [t["args"][perm[i]] for i in range(len(perm))]
        out.append((b["path"], perm))
    return out


def _references_fn(x, p):
    """is function `p` used as a value (fn item operand / callee) anywhere in x?  A promoted constant of p that was copied
    along with its inlined body is not such a use."""
    if isinstance(x, dict):
        f = x.get("fn") if x.get("k") == "const" else None
        if isinstance(f, dict) and p in (f.get("path"), f.get("resolved")):
            return True
        if x.get("k") == "fn" and p in (x.get("path"), x.get("resolved")):
            return True
        return any(_references_fn(v, p) for v in x.values())
    if isinstance(x, list):
        return any(_references_fn(v, p) for v in x)
    return False


def normalise(j, known):
    """inline every non-closure function body that is not in `known` into its direct callers; returns the list of inlined paths"""
    if known is None:
        return []
    renamed = detect_renames(j, known)
    j.setdefault("header", {})["renamed"] = renamed
    j["header"]["reordered"] = restore_param_order(j)
    bodies = {b["path"]: b for b in j["bodies"]}
    done = []
    for _ in range(MAX_ROUNDS):
        # (a new method of a trait impl - e.g. an Iterator impl that starts overriding `fold` - is an entry point of its own,
        # not a helper extracted from one function: it is analysed as a body, calls to it stay calls)
        unknown = [p for p, b in bodies.items() if p not in known and "{closure" not in p and b.get("kind") in ("Fn", "AssocFn")
                   and not ((b.get("impl") or {}).get("trait"))]
        # not recursive (directly), not too large
        unknown = [p for p in unknown if not any(bb["term"]["k"] == "call" and _callee_path(bb["term"]) == p for bb in bodies[p]["blocks"]) and len(bodies[p]["blocks"]) <= 120]
        if not unknown:
            break
        changed = False
        uset = set(unknown)
        inlined_somewhere = set()
        for p, b in bodies.items():
            if p in uset:
                continue   # inline leaves first: helpers are inlined into non-helpers; helper->helper chains resolve in later rounds
            progress = True
            guard = 0
            while progress and guard < 50 and len(b["blocks"]) < MAX_BLOCKS:
                progress = False
                guard += 1
                for bi, bb in enumerate(b["blocks"]):
                    t = bb["term"]
                    if t["k"] == "call" and _callee_path(t) in uset:
                        inlined_somewhere.add(_callee_path(t))
                        inline_call(b, bi, bodies[_callee_path(t)])
                        progress = changed = True
                        break
        # helper -> helper: inline unknown helpers into other unknown helpers that are still referenced
        still = set()
        for p, b in bodies.items():
            for bb in b["blocks"]:
                t = bb["term"]
                if t["k"] == "call" and _callee_path(t) in uset:
                    still.add(_callee_path(t))
        for p in unknown:
            # a helper is dropped from the set of bodies only if it was actually analysed in the context of a caller and
            # cannot be entered from outside the crate; a new function nobody calls (or a new public one) stays a body
            if p not in still and p in inlined_somewhere and not bodies[p].get("reachable"):
                # no direct call left (it may still be referenced as a function value; then it stays)
                referenced = False
                for q, b in bodies.items():
                    if q != p and _references_fn(b.get("blocks"), p):
                        referenced = True
                        break
                if not referenced:
                    bodies.pop(p)
                    done.append(p)
        if not changed:
            break
    # a known function that has grown a flag parameter (`drop_inner_table(.., keep_allocation: bool)`): at a call site that passes a
    # literal for it the callee is analysed in that context (inlined there; the constant branch is then pruned), the body itself stays
    fps = fingerprints()
    cfg = j.get("header", {}).get("cfg")
    for p, b in list(bodies.items()):
        fm = fps.get(p)
        if not fm or "names" not in fm or b.get("kind") not in ("Fn", "AssocFn") or len(b["blocks"]) > 120:
            continue
        names = [b["locals"][q].get("name") for q in range(1, b["arg_count"] + 1)]
        new_flags = [q for q in range(b["arg_count"]) if names[q] not in fm["names"] and b["locals"][q + 1]["ty"]["s"] == "bool"]
        if not new_flags or b["arg_count"] <= len(fm["args"]):
            continue
        if any(bb["term"]["k"] == "call" and _callee_path(bb["term"]) == p for bb in b["blocks"]):
            continue
        for q2, c in bodies.items():
            if q2 == p:
                continue
            guard_ = 0
            progress = True
            while progress and guard_ < 20 and len(c["blocks"]) < MAX_BLOCKS:
                progress = False
                guard_ += 1
                for bi, bb in enumerate(c["blocks"]):
                    t = bb["term"]
                    if t["k"] == "call" and _callee_path(t) == p and all(q < len(t["args"]) and t["args"][q]["k"] == "const" for q in new_flags):
                        inline_call(c, bi, b)
                        if p not in done:
                            done.append(p + " (at call sites passing a literal flag)")
                        progress = True
                        break
    j["bodies"] = [b for b in j["bodies"] if b["path"] in bodies]
    return done
