"""Virtual inlining of helper functions the rule tables do not know.

The rules are anchored at functions of the pinned tree (tables/known_fns.json: every non-closure function body that
existed when the rules were written). A maintainer who extracts part of such a function into a NEW private helper has
not changed behaviour, but the statements the rules look for are then one call away. Before any rule runs, every
crate function that is not in the known set, is not recursive and is called directly is therefore inlined (on the
extracted MIR, as data) into its callers - repeatedly, so helpers of helpers are handled - and dropped from the set of
bodies. The analysis then sees the anchor function with the helper's statements in place, exactly as before the
extraction. Nothing is executed; this is the usual summary-free treatment of small callees with a stated bound."""
import copy
import json
import os

VERIF = os.path.dirname(os.path.dirname(os.path.abspath(__file__)))
MAX_ROUNDS = 4
MAX_BLOCKS = 400


def known_fns():
    p = os.path.join(VERIF, "tables", "known_fns.json")
    if not os.path.exists(p):
        return None
    with open(p) as f:
        return set(json.load(f)["fns"])


def _shift(x, loff, boff, unwind_to):
    """deep-copy JSON x, adding loff to every local index and boff to every block index"""
    if isinstance(x, list):
        return [_shift(y, loff, boff, unwind_to) for y in x]
    if not isinstance(x, dict):
        return x
    out = {}
    for k, v in x.items():
        if k == "l" and isinstance(v, int) and ("proj" in x or set(x.keys()) <= {"l", "proj", "t"}):
            out[k] = v + loff
        elif k == "local" and isinstance(v, int) and x.get("k") == "index":
            out[k] = v + loff
        else:
            out[k] = _shift(v, loff, boff, unwind_to)
    return out


def _shift_term(t, loff, boff, unwind_to):
    t = _shift(t, loff, boff, unwind_to)
    k = t["k"]
    if "target" in t and isinstance(t["target"], int):
        t["target"] += boff
    if k == "switch":
        t["targets"] = [[v, b + boff] for v, b in t["targets"]]
        t["otherwise"] = t["otherwise"] + boff
    if "unwind" in t:
        u = t["unwind"]
        if isinstance(u, int):
            t["unwind"] = u + boff
        elif u == "continue":
            t["unwind"] = unwind_to
    return t


def inline_call(caller, bi, callee):
    """inline `callee` (body JSON) at the call terminating block bi of `caller` (body JSON, modified in place)"""
    blk = caller["blocks"][bi]
    call = blk["term"]
    loff = len(caller["locals"])
    boff = len(caller["blocks"])
    unwind_to = call.get("unwind", "continue")
    sp = call.get("sp")
    # locals of the callee (its _0 becomes an ordinary temporary of the caller)
    for lc in callee["locals"]:
        lc2 = copy.deepcopy(lc)
        lc2.pop("name", None) if False else None
        caller["locals"].append(lc2)
    # argument passing
    for q, a in enumerate(call["args"]):
        if q + 1 <= callee["arg_count"]:
            blk["stmts"].append({"k": "assign", "p": {"l": loff + q + 1}, "rv": {"k": "use", "op": copy.deepcopy(a)}, "sp": sp, "inlined_arg": True})
    blk["term"] = {"k": "goto", "target": boff}
    cleanup_parent = blk.get("cleanup", False)
    for cb in callee["blocks"]:
        nb = {"cleanup": bool(cb["cleanup"]) or cleanup_parent, "stmts": [_shift(s, loff, boff, unwind_to) for s in cb["stmts"]]}
        t = cb["term"]
        if t["k"] == "return":
            nb["stmts"].append({"k": "assign", "p": copy.deepcopy(call["dest"]), "rv": {"k": "use", "op": {"k": "move", "p": {"l": loff}}}, "sp": sp, "inlined_ret": True})
            if call.get("target") is not None:
                nb["term"] = {"k": "goto", "target": call["target"]}
            else:
                nb["term"] = {"k": "unreachable", "sp": sp}
        elif t["k"] == "resume":
            nb["term"] = {"k": "goto", "target": unwind_to} if isinstance(unwind_to, int) else {"k": "resume"}
        else:
            nb["term"] = _shift_term(t, loff, boff, unwind_to)
        caller["blocks"].append(nb)


def _callee_path(t):
    f = t["f"]
    if f.get("k") != "fn":
        return None
    return f.get("resolved", f.get("path"))


def normalise(j, known):
    """inline every non-closure function body that is not in `known` into its direct callers; returns the list of inlined paths"""
    if known is None:
        return []
    bodies = {b["path"]: b for b in j["bodies"]}
    done = []
    for _ in range(MAX_ROUNDS):
        unknown = [p for p, b in bodies.items() if p not in known and "{closure" not in p and b.get("kind") in ("Fn", "AssocFn")]
        # not recursive (directly), not too large
        unknown = [p for p in unknown if not any(bb["term"]["k"] == "call" and _callee_path(bb["term"]) == p for bb in bodies[p]["blocks"]) and len(bodies[p]["blocks"]) <= 120]
        if not unknown:
            break
        changed = False
        uset = set(unknown)
        inlined_somewhere = set()
        for p, b in bodies.items():
            if p in uset:
                continue   # inline leaves first: helpers are inlined into non-helpers; helper->helper chains resolve in later rounds
            progress = True
            guard = 0
            while progress and guard < 50 and len(b["blocks"]) < MAX_BLOCKS:
                progress = False
                guard += 1
                for bi, bb in enumerate(b["blocks"]):
                    t = bb["term"]
                    if t["k"] == "call" and _callee_path(t) in uset:
                        inlined_somewhere.add(_callee_path(t))
                        inline_call(b, bi, bodies[_callee_path(t)])
                        progress = changed = True
                        break
        # helper -> helper: inline unknown helpers into other unknown helpers that are still referenced
        still = set()
        for p, b in bodies.items():
            for bb in b["blocks"]:
                t = bb["term"]
                if t["k"] == "call" and _callee_path(t) in uset:
                    still.add(_callee_path(t))
        for p in unknown:
            # a helper is dropped from the set of bodies only if it was actually analysed in the context of a caller and
            # cannot be entered from outside the crate; a new function nobody calls (or a new public one) stays a body
            if p not in still and p in inlined_somewhere and not bodies[p].get("reachable"):
                # no direct call left (it may still be referenced as a function value; then it stays)
                referenced = False
                sj = json.dumps(p)
                for q, b in bodies.items():
                    if q != p and sj in json.dumps(b.get("blocks")):
                        referenced = True
                        break
                if not referenced:
                    bodies.pop(p)
                    done.append(p)
        if not changed:
            break
    j["bodies"] = [b for b in j["bodies"] if b["path"] in bodies]
    return done
