"""Core of the rule engine: facts loading, CFG, dominators, post-dominators,
control dependence, def-use and provenance over the extracted MIR.

Everything here is static: it reads the JSON facts produced by hbv-extract
(rustc's own MIR of the current /repo tree) and never executes hashbrown code.
"""
import json
from collections import defaultdict

# ----------------------------------------------------------------- graph algos


def _rpo(succ, entry):
    seen = set()
    order = []
    stack = [(entry, iter(succ.get(entry, ())))]
    seen.add(entry)
    while stack:
        n, it = stack[-1]
        adv = False
        for m in it:
            if m not in seen:
                seen.add(m)
                stack.append((m, iter(succ.get(m, ()))))
                adv = True
                break
        if not adv:
            order.append(n)
            stack.pop()
    order.reverse()
    return order


def dominators(succ, entry):
    """Cooper-Harvey-Kennedy. Returns idom dict (entry maps to itself); nodes
    unreachable from entry are absent."""
    order = _rpo(succ, entry)
    idx = {n: i for i, n in enumerate(order)}
    preds = defaultdict(list)
    for n in order:
        for m in succ.get(n, ()):
            if m in idx:
                preds[m].append(n)
    idom = {entry: entry}
    changed = True
    while changed:
        changed = False
        for n in order[1:]:
            new = None
            for p in preds[n]:
                if p in idom:
                    if new is None:
                        new = p
                    else:
                        a, b = p, new
                        while a != b:
                            while idx[a] > idx[b]:
                                a = idom[a]
                            while idx[b] > idx[a]:
                                b = idom[b]
                        new = a
            if new is not None and idom.get(n) != new:
                idom[n] = new
                changed = True
    return idom


def dom_closure(idom, n):
    """All dominators of n (including n)."""
    out = []
    if n not in idom:
        return out
    while True:
        out.append(n)
        p = idom[n]
        if p == n:
            break
        n = p
    return out


EXIT = -1

# functions that return their argument unchanged (branch hints)
PASS_THROUGH = (
    "core::convert::identity",
    "core::intrinsics::likely",
    "core::intrinsics::unlikely",
    "core::hint::likely",
    "core::hint::unlikely",
    "core::hint::black_box",
    "util::likely",
    "util::unlikely",
)


class Body:
    def __init__(self, facts, j):
        self.facts = facts
        self.j = j
        self.path = j["path"]
        self.kind = j["kind"]
        self.unsafe = j["unsafe"]
        self.locals = j["locals"]
        self.arg_count = j["arg_count"]
        self.blocks = j["blocks"]
        self.n = len(self.blocks)
        self._build_cfg()
        self._idom = None
        self._ipdom = {}
        self._cd = {}
        self._defs = None
        self._reach_cache = {}

    # ------------------------------------------------------------- CFG

    def _build_cfg(self):
        self.nsucc = defaultdict(list)  # normal successors (non-unwind edges)
        self.usucc = defaultdict(list)  # unwind successors
        for i, bb in enumerate(self.blocks):
            t = bb["term"]
            k = t["k"]
            ns = []
            if k == "goto":
                ns = [t["target"]]
            elif k == "switch":
                ns = [b for _, b in t["targets"]] + [t["otherwise"]]
                # an edge into an empty `unreachable` block is infeasible by construction (rustc emits it for the impossible
                # arm of an exhaustive match): it is not a path, so nothing becomes control dependent through it
                feas = [b for b in ns if not (self.blocks[b]["term"]["k"] == "unreachable" and not self.blocks[b]["stmts"])]
                if feas:
                    ns = feas
            elif k in ("call", "drop", "assert"):
                if t.get("target") is not None:
                    ns = [t["target"]]
                u = t.get("unwind")
                if isinstance(u, int):
                    self.usucc[i].append(u)
            # dedupe, keep order
            seen = []
            for b in ns:
                if b not in seen:
                    seen.append(b)
            self.nsucc[i] = seen
        self.npred = defaultdict(list)
        for a, bs in self.nsucc.items():
            for b in bs:
                self.npred[b].append(a)
        self.normal = [i for i, bb in enumerate(self.blocks) if not bb["cleanup"]]
        self.returns = [i for i in self.normal if self.blocks[i]["term"]["k"] == "return"]
        # terminal normal blocks that are not returns: diverging calls, unreachable, resume
        self.deadends = [i for i in self.normal if not self.nsucc[i] and self.blocks[i]["term"]["k"] != "return"]

    def term(self, i):
        return self.blocks[i]["term"]

    def is_cleanup(self, i):
        return self.blocks[i]["cleanup"]

    @property
    def idom(self):
        if self._idom is None:
            self._idom = dominators(self.nsucc, 0)
        return self._idom

    def dominates(self, a, b):
        """block a dominates block b (normal graph)."""
        return a in dom_closure(self.idom, b)

    def reachable_from(self, a, avoid=()):
        """normal-flow blocks reachable from block a (inclusive) not passing through `avoid`."""
        key = (a, tuple(sorted(avoid)))
        if key in self._reach_cache:
            return self._reach_cache[key]
        seen = set()
        if a in avoid:
            self._reach_cache[key] = seen
            return seen
        st = [a]
        seen.add(a)
        while st:
            n = st.pop()
            for m in self.nsucc[n]:
                if m not in seen and m not in avoid:
                    seen.add(m)
                    st.append(m)
        self._reach_cache[key] = seen
        return seen

    def can_reach_return(self, a, avoid=()):
        r = self.reachable_from(a, avoid)
        return any(x in r for x in self.returns)

    def ipdom(self, exits="all"):
        """immediate post-dominators on the normal graph. exits='ret': only
        Return blocks are exits; exits='all': dead ends (panics) count too."""
        if exits in self._ipdom:
            return self._ipdom[exits]
        rsucc = defaultdict(list)
        for a in self.normal:
            for b in self.nsucc[a]:
                rsucc[b].append(a)
        ex = list(self.returns)
        if exits == "all":
            ex += self.deadends
        rsucc[EXIT] = ex
        ip = dominators(rsucc, EXIT)
        self._ipdom[exits] = ip
        return ip

    def postdominates(self, a, b, exits="ret"):
        """a post-dominates b."""
        ip = self.ipdom(exits)
        return a in dom_closure(ip, b)

    def control_deps(self, exits="all"):
        """dict block -> set of (branch_block, successor_taken) it is directly
        control dependent on (Ferrante-Ottenstein-Warren)."""
        if exits in self._cd:
            return self._cd[exits]
        ip = self.ipdom(exits)
        cd = defaultdict(set)
        for a in self.normal:
            ss = self.nsucc[a]
            if len(ss) < 2:
                continue
            if a not in ip:
                continue
            stop = ip[a]
            for s in ss:
                n = s
                guard = 0
                while n != stop and n in ip and guard < 10000:
                    cd[n].add((a, s))
                    if ip[n] == n:
                        break
                    n = ip[n]
                    guard += 1
        self._cd[exits] = cd
        return cd

    def control_deps_trans(self, block, exits="all"):
        """transitive closure: set of (branch_block, succ) on which `block` depends."""
        cd = self.control_deps(exits)
        out = set()
        st = [block]
        seenb = set([block])
        while st:
            n = st.pop()
            for (a, s) in cd.get(n, ()):
                if (a, s) not in out:
                    out.add((a, s))
                    if a not in seenb:
                        seenb.add(a)
                        st.append(a)
        return out

    # ------------------------------------------------------------- loops

    def natural_loops(self):
        """list of (header, set(body blocks)) on the normal graph."""
        loops = {}
        for a in self.normal:
            for h in self.nsucc[a]:
                if self.dominates(h, a):
                    body = loops.setdefault(h, set([h]))
                    st = [a]
                    while st:
                        n = st.pop()
                        if n not in body:
                            body.add(n)
                            st.extend(self.npred[n])
        return list(loops.items())

    # ------------------------------------------------------------- def/use

    @property
    def defs(self):
        """local -> list of ('stmt', bb, idx, stmt) | ('call', bb, term) definitions.
        Only whole-local or projected assignments are recorded with their place."""
        if self._defs is None:
            d = defaultdict(list)
            for i, bb in enumerate(self.blocks):
                for k, s in enumerate(bb["stmts"]):
                    if s["k"] in ("assign", "setdiscr"):
                        # a store through a pointer/reference (`(*_x).f = ..`) does not define `_x`
                        if any(e["k"] == "deref" for e in s["p"].get("proj", [])):
                            continue
                        d[s["p"]["l"]].append(("stmt", i, k, s))
                t = bb["term"]
                if t["k"] == "call":
                    d[t["dest"]["l"]].append(("call", i, -1, t))
            self._defs = d
        return self._defs

    def whole_defs(self, l):
        """definitions that assign the whole local (no projection)."""
        out = []
        for d in self.defs.get(l, ()):
            p = d[3]["p"] if d[0] == "stmt" else d[3]["dest"]
            if not p.get("proj"):
                out.append(d)
        return out

    def single_def(self, l):
        w = self.whole_defs(l)
        if len(w) == 1 and len(self.defs.get(l, ())) == 1:
            return w[0]
        return None

    def local_ty(self, l):
        return self.locals[l]["ty"]

    def is_arg(self, l):
        return 1 <= l <= self.arg_count

    # ---- provenance: follow copies / borrows / casts back to a root

    def root_of_place(self, p, depth=0):
        """Follow a place back through single-definition temporaries.
        Returns (root_local, path) where path is the list of projection elems
        (field names / 'deref') from the root to the place, outermost first."""
        l = p["l"]
        proj = [self._pe(e) for e in p.get("proj", [])]
        if depth > 40:
            return (l, proj)
        if self.is_arg(l):
            return (l, proj)
        d = self.single_def(l)
        if d is None:
            return (l, proj)
        if d[0] == "stmt" and d[3]["k"] == "assign":
            rv = d[3]["rv"]
            k = rv["k"]
            src = None
            pre = []
            if k == "use" and rv["op"]["k"] in ("copy", "move"):
                src = rv["op"]["p"]
            elif k in ("ref", "rawptr"):
                src = rv["p"]
                pre = ["&"]
            elif k == "cast" and rv["op"]["k"] in ("copy", "move"):
                src = rv["op"]["p"]
            if src is not None:
                r, path = self.root_of_place(src, depth + 1)
                return (r, path + pre + proj)
        return (l, proj)

    @staticmethod
    def _pe(e):
        k = e["k"]
        if k == "field":
            return e["name"]
        if k == "deref":
            return "*"
        if k == "downcast":
            return "as " + e["variant"]
        return k

    def operand_root(self, o):
        if o["k"] in ("copy", "move"):
            return self.root_of_place(o["p"])
        return None

    # ---- backward slice of values

    def origins(self, o, maxdepth=60):
        """Backward data-flow slice of an operand (flow-insensitive over
        locals). Returns a list of origin descriptors:
          ('const', operand) ('arg', local, path) ('call', bb, term)
          ('load', place)  -- read of a projected place whose base is an arg / multi-def local
          ('agg', stmt) ...
        Traverses use/cast/binop/unop/ref/aggregate/discriminant and call results are leaves."""
        out = []
        seen = set()

        def go_local(l, depth):
            if (l,) in seen or depth > maxdepth:
                return
            seen.add((l,))
            if self.is_arg(l):
                out.append(("arg", l, []))
                return
            ds = self.defs.get(l, ())
            if not ds:
                out.append(("undef", l))
                return
            for d in ds:
                if d[0] == "call":
                    cp = callee_path(d[3])
                    if cp in PASS_THROUGH or (cp or "").startswith("core::convert::num::"):
                        for a in d[3]["args"]:
                            go_op(a, depth + 1)
                        continue
                    out.append(("call", d[1], d[3]))
                elif d[3]["k"] == "assign":
                    go_rv(d[3]["rv"], depth + 1, d)
                else:
                    out.append(("setdiscr", d[3]))

        def go_place(p, depth):
            proj = p.get("proj", [])
            if proj:
                out.append(("load", p))
            go_local(p["l"], depth)
            for e in proj:
                if e["k"] == "index":
                    go_local(e["local"], depth)

        def go_op(o, depth):
            if o["k"] in ("copy", "move"):
                go_place(o["p"], depth)
            elif o["k"] == "const":
                out.append(("const", o))

        def go_rv(rv, depth, d):
            k = rv["k"]
            if k in ("use", "cast", "repeat"):
                go_op(rv["op"], depth)
            elif k in ("ref", "rawptr", "discriminant"):
                if k == "discriminant":
                    out.append(("discr", rv["p"]))
                go_place(rv["p"], depth)
            elif k == "binop":
                out.append(("binop", rv["op"], d))
                go_op(rv["a"], depth)
                go_op(rv["b"], depth)
            elif k == "unop":
                go_op(rv["a"], depth)
            elif k == "aggregate":
                out.append(("agg", rv, d))
                for x in rv["ops"]:
                    go_op(x, depth)
            else:
                out.append(("other", rv))

        go_op(o, 0)
        return out

    # ------------------------------------------------------------- iteration helpers

    def calls(self, include_cleanup=False):
        for i, bb in enumerate(self.blocks):
            if bb["cleanup"] and not include_cleanup:
                continue
            t = bb["term"]
            if t["k"] == "call":
                yield i, t

    def stmts(self, include_cleanup=False):
        for i, bb in enumerate(self.blocks):
            if bb["cleanup"] and not include_cleanup:
                continue
            for k, s in enumerate(bb["stmts"]):
                yield i, k, s

    def line(self):
        return self.j["sp"]["l"]

    def file(self):
        return self.j["sp"]["f"]


def callee_path(t):
    """Best static name of a call terminator's callee."""
    f = t["f"]
    if f["k"] != "fn":
        return None
    return f.get("resolved", f["path"])


def callee_decl(t):
    f = t["f"]
    if f["k"] != "fn":
        return None
    return f["path"]


def place_has_field(p, name, adt_suffix=None):
    for e in p.get("proj", []):
        if e["k"] == "field" and e["name"] == name:
            if adt_suffix is None or (e.get("adt") or "").endswith(adt_suffix):
                return True
    return False


def last_field(p):
    pr = p.get("proj", [])
    if pr and pr[-1]["k"] == "field":
        return pr[-1]
    return None


def _normalise_consts(j):
    """the extractor writes integers beyond i64 as decimal strings: turn every such `val` back into an int"""
    st = [j]
    while st:
        x = st.pop()
        if isinstance(x, dict):
            v = x.get("val")
            if isinstance(v, str) and v.lstrip("-").isdigit():
                x["val"] = int(v)
            st.extend(x.values())
        elif isinstance(x, list):
            st.extend(x)


class Facts:
    def __init__(self, path):
        self.path = path
        with open(path) as f:
            self.j = json.load(f)
        _normalise_consts(self.j)
        import inline
        self.inlined = inline.normalise(self.j, inline.known_fns())
        self.header = self.j["header"]
        self.cfg = self.header["cfg"]
        self.bodies = {}
        for b in self.j["bodies"]:
            self.bodies[b["path"]] = Body(self, b)
        self.adts = {a["path"]: a for a in self.j["adts"]}
        self.impls = self.j["impls"]
        self.fns = {f["path"]: f for f in self.j["fns"]}
        self.consts = {c["path"]: c for c in self.j["consts"]}
        self._callgraph = None

    def body(self, path):
        return self.bodies.get(path)

    def find_bodies(self, suffix):
        return [b for p, b in self.bodies.items() if p == suffix or p.endswith("::" + suffix)]

    # call graph over local bodies: caller path -> set of callee paths (local, resolved),
    # closures are linked from the body that constructs them
    @property
    def callgraph(self):
        if self._callgraph is None:
            g = defaultdict(set)
            for p, b in self.bodies.items():
                for i, t in b.calls(include_cleanup=True):
                    f = t["f"]
                    if f["k"] == "fn":
                        cp = f.get("resolved", f["path"])
                        if cp in self.bodies:
                            g[p].add(cp)
                        # closure passed as callee self type
                        st = f.get("self_ty")
                        if st and st.get("k") == "closure" and st["path"] in self.bodies:
                            g[p].add(st["path"])
                for i, k, s in b.stmts(include_cleanup=True):
                    if s["k"] == "assign" and s["rv"]["k"] == "aggregate" and s["rv"]["kind"] == "closure":
                        if s["rv"]["closure"] in self.bodies:
                            g[p].add(s["rv"]["closure"])
                # fn items passed as values (e.g. `mem::drop::<T>` as fn pointer)
                for i, bb in enumerate(b.blocks):
                    for s in bb["stmts"]:
                        if s["k"] == "assign":
                            for o in _rv_operands(s["rv"]):
                                if o["k"] == "const" and "fn" in o:
                                    cp = o["fn"].get("resolved", o["fn"]["path"])
                                    if cp in self.bodies:
                                        g[p].add(cp)
                    t = bb["term"]
                    if t["k"] == "call":
                        for o in t["args"]:
                            if o["k"] == "const" and "fn" in o:
                                cp = o["fn"].get("resolved", o["fn"]["path"])
                                if cp in self.bodies:
                                    g[p].add(cp)
            self._callgraph = g
        return self._callgraph

    def reachable_fns(self, root, stop=()):
        seen = set([root])
        st = [root]
        while st:
            n = st.pop()
            for m in self.callgraph.get(n, ()):
                if m not in seen and m not in stop:
                    seen.add(m)
                    st.append(m)
        return seen


def _rv_operands(rv):
    k = rv["k"]
    if k in ("use", "cast", "repeat"):
        return [rv["op"]]
    if k == "binop":
        return [rv["a"], rv["b"]]
    if k == "unop":
        return [rv["a"]]
    if k == "aggregate":
        return rv["ops"]
    return []


rv_operands = _rv_operands
