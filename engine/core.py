"""Core of the rule engine: facts loading, CFG, dominators, post-dominators,
control dependence, def-use and provenance over the extracted MIR.

Everything here is static: it reads the JSON facts produced by hbv-extract
(rustc's own MIR of the current /repo tree) and never executes hashbrown code.
"""
import json
from collections import defaultdict

# ----------------------------------------------------------------- graph algos


def _rpo(succ, entry):
    seen = set()
    order = []
    stack = [(entry, iter(succ.get(entry, ())))]
    seen.add(entry)
    while stack:
        n, it = stack[-1]
        adv = False
        for m in it:
            if m not in seen:
                seen.add(m)
                stack.append((m, iter(succ.get(m, ()))))
                adv = True
                break
        if not adv:
            order.append(n)
            stack.pop()
    order.reverse()
    return order


def dominators(succ, entry):
    """Cooper-Harvey-Kennedy. Returns idom dict (entry maps to itself); nodes
    unreachable from entry are absent."""
    order = _rpo(succ, entry)
    idx = {n: i for i, n in enumerate(order)}
    preds = defaultdict(list)
    for n in order:
        for m in succ.get(n, ()):
            if m in idx:
                preds[m].append(n)
    idom = {entry: entry}
    changed = True
    while changed:
        changed = False
        for n in order[1:]:
            new = None
            for p in preds[n]:
                if p in idom:
                    if new is None:
                        new = p
                    else:
                        a, b = p, new
                        while a != b:
                            while idx[a] > idx[b]:
                                a = idom[a]
                            while idx[b] > idx[a]:
                                b = idom[b]
                        new = a
            if new is not None and idom.get(n) != new:
                idom[n] = new
                changed = True
    return idom


def dom_closure(idom, n):
    """All dominators of n (including n)."""
    out = []
    if n not in idom:
        return out
    while True:
        out.append(n)
        p = idom[n]
        if p == n:
            break
        n = p
    return out


EXIT = -1

# functions that return their argument unchanged (branch hints)
PASS_THROUGH = (
    "core::convert::identity",
    "core::intrinsics::likely",
    "core::intrinsics::unlikely",
    "core::hint::likely",
    "core::hint::unlikely",
    "core::hint::black_box",
    "util::likely",
    "util::unlikely",
)


class Body:
    def __init__(self, facts, j):
        self.facts = facts
        self.j = j
        self.path = j["path"]
        self.kind = j["kind"]
        self.unsafe = j["unsafe"]
        self.locals = j["locals"]
        self.arg_count = j["arg_count"]
        self.blocks = j["blocks"]
        self.n = len(self.blocks)
        self._build_cfg()
        self._idom = None
        self._ipdom = {}
        self._cd = {}
        self._defs = None
        self._reach_cache = {}
        self._prune_tag_tests()

    # ---- two-point abstraction of control tags: a value produced by Tag::full(..) is FULL, the constants Tag::EMPTY / Tag::DELETED
    # are SPECIAL. A branch on Tag::is_full / Tag::is_special of a value whose every definition has the same abstract value can
    # only go one way (this arises when an accounting helper with a `match new.is_full()` is analysed in the context of a caller
    # that always passes one kind of tag): the other edge is infeasible and removed, like the `unreachable` edges above.
    def _tag_kind(self, o, depth=0):
        if depth > 8:
            return None
        if o["k"] == "const":
            d = o.get("def") or ""
            if d.endswith("Tag::EMPTY") or d.endswith("Tag::DELETED"):
                return "special"
            return None
        if o["k"] not in ("copy", "move"):
            return None
        pl = o["p"]
        pj = pl.get("proj") or []
        if pj and not (len(pj) == 1 and pj[0]["k"] == "deref"):
            return None
        if self.is_arg(pl["l"]):
            return None
        ds = self.whole_defs(pl["l"])
        if not ds or len(ds) != len(self.defs.get(pl["l"], ())):
            return None
        kinds = set()
        for d in ds:
            if d[0] == "call":
                cp = callee_path(d[3]) or ""
                if cp.endswith("control::tag::Tag::full"):
                    kinds.add("full")
                else:
                    return None
            else:
                rv = d[3]["rv"]
                if rv["k"] == "use":
                    kinds.add(self._tag_kind(rv["op"], depth + 1))
                elif rv["k"] == "ref" and pj:
                    kinds.add(self._tag_kind({"k": "copy", "p": rv["p"]}, depth + 1))
                else:
                    return None
        return list(kinds)[0] if len(kinds) == 1 else None

    def _prune_tag_tests(self):
        changed = False
        for i in list(self.normal):
            t = self.blocks[i]["term"]
            if t["k"] != "switch" or t["discr"]["k"] not in ("copy", "move") or len(self.nsucc[i]) < 2:
                continue
            o = t["discr"]
            neg = False
            truth = None
            for _ in range(8):
                if o["k"] == "const" and o.get("val") in (0, 1, True, False) and o.get("t") == "bool":
                    truth = bool(o["val"])      # a flag parameter of an inlined helper, bound to a literal at this call site
                    break
                if o["k"] not in ("copy", "move") or o["p"].get("proj"):
                    break
                if self.is_arg(o["p"]["l"]):
                    break
                ds_ = self.whole_defs(o["p"]["l"])
                if ds_ and len(ds_) == len(self.defs.get(o["p"]["l"], ())) and all(
                        d_[0] == "stmt" and d_[3]["k"] == "assign" and d_[3]["rv"]["k"] == "use" and d_[3]["rv"]["op"]["k"] == "const"
                        and d_[3]["rv"]["op"].get("t") == "bool" for d_ in ds_) and len(set(bool(d_[3]["rv"]["op"].get("val")) for d_ in ds_)) == 1 \
                        and self.locals[o["p"]["l"]]["ty"].get("s") == "bool" and self.locals[o["p"]["l"]].get("name"):
                    truth = bool(ds_[0][3]["rv"]["op"].get("val"))
                    break
                d = self.single_def(o["p"]["l"])
                if not d:
                    break
                if d[0] == "call":
                    cp = callee_path(d[3]) or ""
                    if cp in PASS_THROUGH:
                        o = d[3]["args"][0]
                        continue
                    if cp in ("control::tag::Tag::is_full", "control::tag::Tag::is_special") and d[3]["args"]:
                        a = d[3]["args"][0]
                        # the receiver is passed by value (Tag is Copy) or by reference to a local
                        kd = self._tag_kind(a)
                        if kd is None and a["k"] in ("copy", "move") and not a["p"].get("proj"):
                            dr = self.single_def(a["p"]["l"])
                            if dr and dr[0] == "stmt" and dr[3]["rv"]["k"] == "ref":
                                kd = self._tag_kind({"k": "copy", "p": dr[3]["rv"]["p"]})
                        if kd is not None:
                            truth = (kd == "full") if cp.endswith("is_full") else (kd == "special")
                    break
                rv = d[3]["rv"]
                if rv["k"] == "use":
                    o = rv["op"]
                elif rv["k"] == "unop" and rv["op"] == "Not":
                    neg = not neg
                    o = rv["a"]
                else:
                    break
            if truth is None:
                continue
            if neg:
                truth = not truth
            want = 1 if truth else 0
            tg = [b for v, b in t["targets"] if v == want]
            keep = tg if tg else [t["otherwise"]]
            new = [b for b in self.nsucc[i] if b in keep]
            if new and new != self.nsucc[i]:
                self.nsucc[i] = new
                changed = True
        if changed:
            self.npred = defaultdict(list)
            for a, bs in self.nsucc.items():
                for b in bs:
                    self.npred[b].append(a)
            # blocks that are no longer reachable on the normal graph are not part of it
            seen = {0}
            st = [0]
            while st:
                x = st.pop()
                for y in self.nsucc[x]:
                    if y not in seen:
                        seen.add(y)
                        st.append(y)
            dead = [b for b in self.normal if b not in seen]
            if dead:
                self.normal = [b for b in self.normal if b in seen]
                self.returns = [b for b in self.returns if b in seen]
                self.deadends = [b for b in self.deadends if b in seen]
                self.dead_blocks = set(dead)

    # ------------------------------------------------------------- CFG

    def _build_cfg(self):
        self.nsucc = defaultdict(list)  # normal successors (non-unwind edges)
        self.usucc = defaultdict(list)  # unwind successors
        for i, bb in enumerate(self.blocks):
            t = bb["term"]
            k = t["k"]
            ns = []
            if k == "goto":
                ns = [t["target"]]
            elif k == "switch":
                ns = [b for _, b in t["targets"]] + [t["otherwise"]]
                # an edge into an empty `unreachable` block is infeasible by construction (rustc emits it for the impossible
                # arm of an exhaustive match): it is not a path, so nothing becomes control dependent through it
                feas = [b for b in ns if not (self.blocks[b]["term"]["k"] == "unreachable" and not self.blocks[b]["stmts"])]
                if feas:
                    ns = feas
            elif k in ("call", "drop", "assert"):
                if t.get("target") is not None:
                    ns = [t["target"]]
                u = t.get("unwind")
                if isinstance(u, int):
                    self.usucc[i].append(u)
            # dedupe, keep order
            seen = []
            for b in ns:
                if b not in seen:
                    seen.append(b)
            self.nsucc[i] = seen
        self.npred = defaultdict(list)
        for a, bs in self.nsucc.items():
            for b in bs:
                self.npred[b].append(a)
        self.normal = [i for i, bb in enumerate(self.blocks) if not bb["cleanup"]]
        self.returns = [i for i in self.normal if self.blocks[i]["term"]["k"] == "return"]
        # terminal normal blocks that are not returns: diverging calls, unreachable, resume
        self.deadends = [i for i in self.normal if not self.nsucc[i] and self.blocks[i]["term"]["k"] != "return"]

    def term(self, i):
        return self.blocks[i]["term"]

    def is_cleanup(self, i):
        return self.blocks[i]["cleanup"]

    @property
    def idom(self):
        if self._idom is None:
            self._idom = dominators(self.nsucc, 0)
        return self._idom

    def dominates(self, a, b):
        """block a dominates block b (normal graph)."""
        return a in dom_closure(self.idom, b)

    def reachable_from(self, a, avoid=()):
        """normal-flow blocks reachable from block a (inclusive) not passing through `avoid`."""
        key = (a, tuple(sorted(avoid)))
        if key in self._reach_cache:
            return self._reach_cache[key]
        seen = set()
        if a in avoid:
            self._reach_cache[key] = seen
            return seen
        st = [a]
        seen.add(a)
        while st:
            n = st.pop()
            for m in self.nsucc[n]:
                if m not in seen and m not in avoid:
                    seen.add(m)
                    st.append(m)
        self._reach_cache[key] = seen
        return seen

    # ---- flag-sensitive reachability: loops controlled by a boolean the body sets itself (`while !settled { .. }`)
    def _flag_locals(self):
        """bool locals whose every definition is the assignment of a constant and that decide a switch of the normal graph"""
        if getattr(self, "_flags", None) is not None:
            return self._flags
        cand = {}
        for l, ds in self.defs.items():
            if self.locals[l]["ty"].get("s") != "bool" or self.is_arg(l):
                continue
            ok = True
            for d in ds:
                if not (d[0] == "stmt" and d[3]["k"] == "assign" and not d[3]["p"].get("proj") and d[3]["rv"]["k"] == "use"
                        and d[3]["rv"]["op"]["k"] == "const" and d[3]["rv"]["op"].get("val") in (0, 1, True, False)):
                    ok = False
            if ok and len(ds) >= 2:
                cand[l] = True
        used = set()
        self._switch_flag = {}
        for i in self.normal:
            t = self.blocks[i]["term"]
            if t["k"] != "switch":
                continue
            r = self._flag_of(t["discr"], cand)
            if r:
                used.add(r[0])
                self._switch_flag[i] = r
        self._flags = used
        # switches on the variant of an enum-typed local (directly, or through Option::is_some / is_none / Result::is_ok / is_err of a
        # reference to it): taking an edge fixes the variant for every later switch on the same (unmodified) value
        self._discr_switch = {}
        for i in self.normal:
            t = self.blocks[i]["term"]
            if t["k"] != "switch" or i in self._switch_flag:
                continue
            r = self._discr_of(t["discr"])
            if r:
                self._discr_switch[i] = r
        return used

    def _canon_local(self, l, depth=0):
        """the local a whole-local copy chain starts from"""
        for _ in range(10):
            if self.is_arg(l):
                return l
            d = self.single_def(l)
            if d and d[0] == "stmt" and d[3]["k"] == "assign" and d[3]["rv"]["k"] == "use" and d[3]["rv"]["op"]["k"] in ("copy", "move") \
                    and not d[3]["rv"]["op"]["p"].get("proj"):
                l = d[3]["rv"]["op"]["p"]["l"]
            else:
                return l
        return l

    def _discr_of(self, o):
        """(canonical local, mode) if the switch operand o is the discriminant of a whole local (mode 'v': target values are
        variant indices) or the boolean result of is_some / is_ok (mode 's': true = variant 1... see _flag_step) etc."""
        neg = False
        for _ in range(8):
            if o["k"] not in ("copy", "move") or o["p"].get("proj"):
                return None
            d = self.single_def(o["p"]["l"])
            if not d:
                return None
            if d[0] == "call":
                cp = callee_path(d[3]) or ""
                if cp in PASS_THROUGH:
                    o = d[3]["args"][0]
                    continue
                kind = {"core::option::Option::is_some": ("opt", True), "core::option::Option::is_none": ("opt", False),
                        "core::result::Result::is_ok": ("res", True), "core::result::Result::is_err": ("res", False)}.get(cp)
                if not kind or not d[3]["args"] or d[3]["args"][0]["k"] not in ("copy", "move"):
                    return None
                a = d[3]["args"][0]["p"]
                if a.get("proj"):
                    return None
                dr = self.single_def(a["l"])
                if not (dr and dr[0] == "stmt" and dr[3]["rv"]["k"] == "ref" and not dr[3]["rv"]["p"].get("proj")):
                    return None
                # Option: None = 0, Some = 1;  Result: Ok = 0, Err = 1
                true_variant = (1 if kind[1] else 0) if kind[0] == "opt" else (0 if kind[1] else 1)
                return (self._canon_local(dr[3]["rv"]["p"]["l"]), "b", true_variant, neg)
            rv = d[3]["rv"]
            if rv["k"] == "use":
                o = rv["op"]
            elif rv["k"] == "unop" and rv["op"] == "Not":
                neg = not neg
                o = rv["a"]
            elif rv["k"] == "discriminant" and not rv["p"].get("proj"):
                return (self._canon_local(rv["p"]["l"]), "v", None, False)
            else:
                return None
        return None

    def _flag_of(self, o, cand, depth=0):
        """(flag local, negated) if operand o is a copy / negation chain of a flag local"""
        neg = False
        for _ in range(8):
            if o["k"] not in ("copy", "move") or o["p"].get("proj"):
                return None
            l = o["p"]["l"]
            if l in cand:
                return (l, neg)
            d = self.single_def(l)
            if d and d[0] == "call" and (callee_path(d[3]) or "") in PASS_THROUGH and d[3]["args"]:
                o = d[3]["args"][0]      # likely(..) / unlikely(..)
                continue
            if not d or d[0] != "stmt":
                return None
            rv = d[3]["rv"]
            if rv["k"] == "use":
                o = rv["op"]
            elif rv["k"] == "unop" and rv["op"] == "Not":
                neg = not neg
                o = rv["a"]
            else:
                return None
        return None

    def _flag_step(self, b, env):
        """successor states of (block b, env) - env: frozenset of (flag, value)"""
        flags = self._flag_locals()
        e = dict(env)
        for s in self.blocks[b]["stmts"]:
            if s["k"] == "assign" and not s["p"].get("proj") and s["p"]["l"] in flags and s["rv"]["k"] == "use" and s["rv"]["op"]["k"] == "const":
                e[s["p"]["l"]] = 1 if s["rv"]["op"].get("val") in (1, True) else 0
        succ = list(self.nsucc[b])
        sf = self._switch_flag.get(b)
        if sf and sf[0] in e:
            v = e[sf[0]] ^ (1 if sf[1] else 0)
            t = self.blocks[b]["term"]
            tg = [x for val, x in t["targets"] if val == v]
            succ = tg if tg else [t["otherwise"]]
            succ = [x for x in succ if x in self.nsucc[b]]
        ds = self._discr_switch.get(b)
        if ds and succ == list(self.nsucc[b]):
            t = self.blocks[b]["term"]
            c, mode, tv, neg = ds
            known = e.get(("d", c))
            out = []
            for x in succ:
                vals = [val for val, y in t["targets"] if y == x]
                is_other = (t["otherwise"] == x)
                if mode == "v":
                    if known is not None:
                        if known in vals or (is_other and known not in [v for v, _ in t["targets"]]):
                            out.append((x, frozenset(e.items())))
                        continue
                    e2 = dict(e)
                    if len(vals) == 1 and not is_other:
                        e2[("d", c)] = vals[0]
                    elif is_other and len(t["targets"]) == 1 and t["targets"][0][0] in (0, 1):
                        e2[("d", c)] = 1 - t["targets"][0][0]     # two-variant enums (Option / Result)
                    out.append((x, frozenset(e2.items())))
                else:
                    # boolean test: the edge for value 0 is `false`
                    truth = not (0 in vals)
                    if neg:
                        truth = not truth
                    variant = tv if truth else 1 - tv
                    if known is not None and known != variant:
                        continue
                    e2 = dict(e)
                    e2[("d", c)] = variant
                    out.append((x, frozenset(e2.items())))
            return out
        fe = frozenset(e.items())
        return [(x, fe) for x in succ]

    def reachable_from_flags(self, a, avoid=()):
        """like reachable_from for the successors of block a, but infeasible edges of switches on self-set boolean flags are
        not followed: the states (a, flags) are those reachable from the entry block. Returns the set of blocks reachable
        after a (a itself only if it is reached again)."""
        flags = self._flag_locals()
        if not flags and len(self._discr_switch) < 2:
            out = set()
            for x in self.nsucc[a]:
                out |= self.reachable_from(x, avoid)
            return out
        # states reachable from the entry
        seen = set()
        st = [(0, frozenset())]
        seen.add(st[0])
        at_a = set()
        while st and len(seen) < 50000:
            b, env = st.pop()
            if b == a:
                at_a.add(env)
            for nx in self._flag_step(b, env):
                if nx not in seen:
                    seen.add(nx)
                    st.append(nx)
        if len(seen) >= 50000 or not at_a:
            out = set()
            for x in self.nsucc[a]:
                out |= self.reachable_from(x, avoid)
            return out
        out = set()
        seen2 = set()
        st = []
        for env in at_a:
            for nx in self._flag_step(a, env):
                if nx[0] not in avoid and nx not in seen2:
                    seen2.add(nx)
                    st.append(nx)
        while st:
            b, env = st.pop()
            out.add(b)
            for nx in self._flag_step(b, env):
                if nx[0] not in avoid and nx not in seen2:
                    seen2.add(nx)
                    st.append(nx)
        return out

    def reachable_from_entry_flags(self, avoid=()):
        """blocks reachable from the entry block without passing through `avoid`, not following infeasible edges of flag /
        same-value discriminant switches"""
        self._flag_locals()
        if 0 in avoid:
            return set()
        seen = {(0, frozenset())}
        st = [(0, frozenset())]
        out = {0}
        while st and len(seen) < 50000:
            b, env = st.pop()
            for nx in self._flag_step(b, env):
                if nx[0] not in avoid and nx not in seen:
                    seen.add(nx)
                    out.add(nx[0])
                    st.append(nx)
        if len(seen) >= 50000:
            return self.reachable_from(0, avoid)
        return out

    def can_reach_return(self, a, avoid=()):
        r = self.reachable_from(a, avoid)
        return any(x in r for x in self.returns)

    def ipdom(self, exits="all"):
        """immediate post-dominators on the normal graph. exits='ret': only
        Return blocks are exits; exits='all': dead ends (panics) count too."""
        if exits in self._ipdom:
            return self._ipdom[exits]
        rsucc = defaultdict(list)
        for a in self.normal:
            for b in self.nsucc[a]:
                rsucc[b].append(a)
        ex = list(self.returns)
        if exits == "all":
            ex += self.deadends
        rsucc[EXIT] = ex
        ip = dominators(rsucc, EXIT)
        self._ipdom[exits] = ip
        return ip

    def postdominates(self, a, b, exits="ret"):
        """a post-dominates b."""
        ip = self.ipdom(exits)
        return a in dom_closure(ip, b)

    def control_deps(self, exits="all"):
        """dict block -> set of (branch_block, successor_taken) it is directly
        control dependent on (Ferrante-Ottenstein-Warren)."""
        if exits in self._cd:
            return self._cd[exits]
        ip = self.ipdom(exits)
        cd = defaultdict(set)
        for a in self.normal:
            ss = self.nsucc[a]
            if len(ss) < 2:
                continue
            if a not in ip:
                continue
            stop = ip[a]
            for s in ss:
                n = s
                guard = 0
                while n != stop and n in ip and guard < 10000:
                    cd[n].add((a, s))
                    if ip[n] == n:
                        break
                    n = ip[n]
                    guard += 1
        self._cd[exits] = cd
        return cd

    def control_deps_trans(self, block, exits="all"):
        """transitive closure: set of (branch_block, succ) on which `block` depends."""
        cd = self.control_deps(exits)
        out = set()
        st = [block]
        seenb = set([block])
        while st:
            n = st.pop()
            for (a, s) in cd.get(n, ()):
                if (a, s) not in out:
                    out.add((a, s))
                    if a not in seenb:
                        seenb.add(a)
                        st.append(a)
        return out

    # ------------------------------------------------------------- loops

    def natural_loops(self):
        """list of (header, set(body blocks)) on the normal graph."""
        loops = {}
        for a in self.normal:
            for h in self.nsucc[a]:
                if self.dominates(h, a):
                    body = loops.setdefault(h, set([h]))
                    st = [a]
                    while st:
                        n = st.pop()
                        if n not in body:
                            body.add(n)
                            st.extend(self.npred[n])
        return list(loops.items())

    # ------------------------------------------------------------- def/use

    @property
    def defs(self):
        """local -> list of ('stmt', bb, idx, stmt) | ('call', bb, term) definitions.
        Only whole-local or projected assignments are recorded with their place."""
        if self._defs is None:
            d = defaultdict(list)
            for i, bb in enumerate(self.blocks):
                for k, s in enumerate(bb["stmts"]):
                    if s["k"] in ("assign", "setdiscr"):
                        # a store through a pointer/reference (`(*_x).f = ..`) does not define `_x`
                        if any(e["k"] == "deref" for e in s["p"].get("proj", [])):
                            continue
                        d[s["p"]["l"]].append(("stmt", i, k, s))
                t = bb["term"]
                if t["k"] == "call":
                    d[t["dest"]["l"]].append(("call", i, -1, t))
            self._defs = d
        return self._defs

    def whole_defs(self, l):
        """definitions that assign the whole local (no projection)."""
        out = []
        for d in self.defs.get(l, ()):
            p = d[3]["p"] if d[0] == "stmt" else d[3]["dest"]
            if not p.get("proj"):
                out.append(d)
        return out

    def single_def(self, l):
        w = self.whole_defs(l)
        if len(w) == 1 and len(self.defs.get(l, ())) == 1:
            return w[0]
        return None

    def local_ty(self, l):
        return self.locals[l]["ty"]

    def is_arg(self, l):
        return 1 <= l <= self.arg_count

    # ---- provenance: follow copies / borrows / casts back to a root

    def root_of_place(self, p, depth=0):
        """Follow a place back through single-definition temporaries.
        Returns (root_local, path) where path is the list of projection elems
        (field names / 'deref') from the root to the place, outermost first."""
        l = p["l"]
        proj = [self._pe(e) for e in p.get("proj", [])]
        if depth > 40:
            return (l, proj)
        if self.is_arg(l):
            return (l, proj)
        d = self.single_def(l)
        if d is None:
            return (l, proj)
        if d[0] == "stmt" and d[3]["k"] == "assign":
            rv = d[3]["rv"]
            k = rv["k"]
            src = None
            pre = []
            if k == "use" and rv["op"]["k"] in ("copy", "move"):
                src = rv["op"]["p"]
            elif k in ("ref", "rawptr"):
                src = rv["p"]
                pre = ["&"]
            elif k == "cast" and rv["op"]["k"] in ("copy", "move"):
                src = rv["op"]["p"]
            if src is not None:
                r, path = self.root_of_place(src, depth + 1)
                return (r, path + pre + proj)
        return (l, proj)

    @staticmethod
    def _pe(e):
        k = e["k"]
        if k == "field":
            return e["name"]
        if k == "deref":
            return "*"
        if k == "downcast":
            return "as " + e["variant"]
        return k

    def operand_root(self, o):
        if o["k"] in ("copy", "move"):
            return self.root_of_place(o["p"])
        return None

    # ---- backward slice of values

    def origins(self, o, maxdepth=60):
        """Backward data-flow slice of an operand (flow-insensitive over
        locals). Returns a list of origin descriptors:
          ('const', operand) ('arg', local, path) ('call', bb, term)
          ('load', place)  -- read of a projected place whose base is an arg / multi-def local
          ('agg', stmt) ...
        Traverses use/cast/binop/unop/ref/aggregate/discriminant and call results are leaves."""
        out = []
        seen = set()

        def go_local(l, depth):
            if (l,) in seen or depth > maxdepth:
                return
            seen.add((l,))
            if self.is_arg(l):
                out.append(("arg", l, []))
                return
            ds = self.defs.get(l, ())
            if not ds:
                out.append(("undef", l))
                return
            for d in ds:
                if d[0] == "call":
                    cp = callee_path(d[3])
                    if cp in PASS_THROUGH or (cp or "").startswith("core::convert::num::"):
                        for a in d[3]["args"]:
                            go_op(a, depth + 1)
                        continue
                    out.append(("call", d[1], d[3]))
                elif d[3]["k"] == "assign":
                    go_rv(d[3]["rv"], depth + 1, d)
                else:
                    out.append(("setdiscr", d[3]))

        def go_place(p, depth):
            proj = p.get("proj", [])
            if proj:
                out.append(("load", p))
            go_local(p["l"], depth)
            for e in proj:
                if e["k"] == "index":
                    go_local(e["local"], depth)

        def go_op(o, depth):
            if o["k"] in ("copy", "move"):
                go_place(o["p"], depth)
            elif o["k"] == "const":
                out.append(("const", o))

        def go_rv(rv, depth, d):
            k = rv["k"]
            if k in ("use", "cast", "repeat"):
                go_op(rv["op"], depth)
            elif k in ("ref", "rawptr", "discriminant"):
                if k == "discriminant":
                    out.append(("discr", rv["p"]))
                go_place(rv["p"], depth)
            elif k == "binop":
                out.append(("binop", rv["op"], d))
                go_op(rv["a"], depth)
                go_op(rv["b"], depth)
            elif k == "unop":
                go_op(rv["a"], depth)
            elif k == "aggregate":
                out.append(("agg", rv, d))
                for x in rv["ops"]:
                    go_op(x, depth)
            else:
                out.append(("other", rv))

        go_op(o, 0)
        return out

    # ------------------------------------------------------------- iteration helpers

    def calls(self, include_cleanup=False):
        dead = getattr(self, "dead_blocks", ())
        for i, bb in enumerate(self.blocks):
            if (bb["cleanup"] and not include_cleanup) or i in dead:
                continue
            t = bb["term"]
            if t["k"] == "call":
                yield i, t

    def stmts(self, include_cleanup=False):
        dead = getattr(self, "dead_blocks", ())
        for i, bb in enumerate(self.blocks):
            if (bb["cleanup"] and not include_cleanup) or i in dead:
                continue
            for k, s in enumerate(bb["stmts"]):
                yield i, k, s

    def line(self):
        return self.j["sp"]["l"]

    def file(self):
        return self.j["sp"]["f"]


def callee_path(t):
    """Best static name of a call terminator's callee."""
    f = t["f"]
    if f["k"] != "fn":
        return None
    return f.get("resolved", f["path"])


def callee_decl(t):
    f = t["f"]
    if f["k"] != "fn":
        return None
    return f["path"]


def place_has_field(p, name, adt_suffix=None):
    for e in p.get("proj", []):
        if e["k"] == "field" and e["name"] == name:
            if adt_suffix is None or (e.get("adt") or "").endswith(adt_suffix):
                return True
    return False


def last_field(p):
    pr = p.get("proj", [])
    if pr and pr[-1]["k"] == "field":
        return pr[-1]
    return None


def _normalise_consts(j):
    """the extractor writes integers beyond i64 as decimal strings: turn every such `val` back into an int"""
    st = [j]
    while st:
        x = st.pop()
        if isinstance(x, dict):
            v = x.get("val")
            if isinstance(v, str) and v.lstrip("-").isdigit():
                x["val"] = int(v)
            st.extend(x.values())
        elif isinstance(x, list):
            st.extend(x)


class Facts:
    def __init__(self, path):
        self.path = path
        with open(path) as f:
            self.j = json.load(f)
        _normalise_consts(self.j)
        import inline
        self.inlined = inline.normalise(self.j, inline.known_fns())
        self.header = self.j["header"]
        self.cfg = self.header["cfg"]
        self.bodies = {}
        for b in self.j["bodies"]:
            self.bodies[b["path"]] = Body(self, b)
        self.adts = {a["path"]: a for a in self.j["adts"]}
        self.impls = self.j["impls"]
        self.fns = {f["path"]: f for f in self.j["fns"]}
        self.consts = {c["path"]: c for c in self.j["consts"]}
        self._callgraph = None

    def body(self, path):
        return self.bodies.get(path)

    def find_bodies(self, suffix):
        return [b for p, b in self.bodies.items() if p == suffix or p.endswith("::" + suffix)]

    # call graph over local bodies: caller path -> set of callee paths (local, resolved),
    # closures are linked from the body that constructs them
    @property
    def callgraph(self):
        if self._callgraph is None:
            g = defaultdict(set)
            for p, b in self.bodies.items():
                for i, t in b.calls(include_cleanup=True):
                    f = t["f"]
                    if f["k"] == "fn":
                        cp = f.get("resolved", f["path"])
                        if cp in self.bodies:
                            g[p].add(cp)
                        # closure passed as callee self type
                        st = f.get("self_ty")
                        if st and st.get("k") == "closure" and st["path"] in self.bodies:
                            g[p].add(st["path"])
                for i, k, s in b.stmts(include_cleanup=True):
                    if s["k"] == "assign" and s["rv"]["k"] == "aggregate" and s["rv"]["kind"] == "closure":
                        if s["rv"]["closure"] in self.bodies:
                            g[p].add(s["rv"]["closure"])
                # fn items passed as values (e.g. `mem::drop::<T>` as fn pointer)
                for i, bb in enumerate(b.blocks):
                    for s in bb["stmts"]:
                        if s["k"] == "assign":
                            for o in _rv_operands(s["rv"]):
                                if o["k"] == "const" and "fn" in o:
                                    cp = o["fn"].get("resolved", o["fn"]["path"])
                                    if cp in self.bodies:
                                        g[p].add(cp)
                    t = bb["term"]
                    if t["k"] == "call":
                        for o in t["args"]:
                            if o["k"] == "const" and "fn" in o:
                                cp = o["fn"].get("resolved", o["fn"]["path"])
                                if cp in self.bodies:
                                    g[p].add(cp)
            self._callgraph = g
        return self._callgraph

    def reachable_fns(self, root, stop=()):
        seen = set([root])
        st = [root]
        while st:
            n = st.pop()
            for m in self.callgraph.get(n, ()):
                if m not in seen and m not in stop:
                    seen.add(m)
                    st.append(m)
        return seen


def _rv_operands(rv):
    k = rv["k"]
    if k in ("use", "cast", "repeat"):
        return [rv["op"]]
    if k == "binop":
        return [rv["a"], rv["b"]]
    if k == "unop":
        return [rv["a"]]
    if k == "aggregate":
        return rv["ops"]
    return []


rv_operands = _rv_operands
