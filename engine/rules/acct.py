"""R-ACCT (paired accounting) and R-CTRL-WRITE (control bytes are written only by
mirror-maintaining primitives). DESIGN.md 4.A."""
from core import callee_path, last_field, rv_operands
from vocab import INNER, TAG_T
from rules.base import Result, where, line_of
from cond import sources
from rules.accounting import partial_op_sites, deep_root, operand_deep_root, CTRL_BULK_EXT, _is_tag_subst


def _acct_stores(V, body, field):
    out = []
    for i, k, s in body.stmts():
        if V.acct_store(s) == field:
            out.append((i, k, s))
    return out


def _store_shape(body, s, field):
    """classify the value stored: ('inc',) ('dec', rhs operand) ('const', v) ('copy', origins) ('other', origins)"""
    rv = s["rv"]
    if rv["k"] == "use":
        orig = body.origins(rv["op"])
    elif rv["k"] == "binop":
        orig = [("binop", rv["op"], ("stmt", -1, -1, s))] + body.origins(rv["a"]) + body.origins(rv["b"])
    else:
        orig = []
        for o in rv_operands(rv):
            orig += body.origins(o)
    binops = [o for o in orig if o[0] == "binop"]
    loads_same = [o for o in orig if o[0] == "load" and (last_field(o[1]) or {}).get("name") == field and (last_field(o[1]) or {}).get("adt") == INNER]
    if rv["k"] == "use" and rv["op"]["k"] == "const":
        return ("const", rv["op"].get("val")), orig
    # the immediate definition of the stored temp
    top = None
    if rv["k"] == "binop":
        top = rv
    if rv["k"] == "use" and rv["op"]["k"] in ("copy", "move"):
        src = rv["op"]["p"]
        ds = body.defs.get(src["l"], [])
        for d in ds:
            if d[0] == "stmt" and d[3]["k"] == "assign" and d[3]["rv"]["k"] == "binop":
                top = d[3]["rv"]
    if top is not None:
        op = top["op"].replace("WithOverflow", "").replace("Unchecked", "")
        a, b = top["a"], top["b"]
        a_is_field = a["k"] in ("copy", "move") and (last_field(a["p"]) or {}).get("name") == field
        if not a_is_field and a["k"] in ("copy", "move"):
            # `x = x + 1` reads the field into a temporary first
            ao = body.origins(a)
            lds = [o for o in ao if o[0] == "load"]
            a_is_field = len(lds) == 1 and (last_field(lds[0][1]) or {}).get("name") == field and (last_field(lds[0][1]) or {}).get("adt") == INNER \
                and not [o for o in ao if o[0] not in ("load", "arg")]
        if a_is_field and op == "Add":
            return ("inc", b), orig
        if a_is_field and op == "Sub":
            return ("dec", b), orig
        return ("binop:" + op, a, b), orig
    if loads_same or any(o[0] == "load" for o in orig):
        return ("copy",), orig
    return ("other",), orig


def _is_const_one(o):
    return o["k"] == "const" and o.get("val") == 1


def _calls_in_origins(orig):
    return [callee_path(o[2]) or "" for o in orig if o[0] == "call"]


def _inc_by_empty_of_stored_tag(body, amount):
    """`growth_left += special_is_empty(tag) as usize` where `tag` is one of the special constants this body stores into the slot:
    the same as `if tag == EMPTY { growth_left += 1 }`"""
    og = body.origins(amount)
    calls = [callee_path(o[2]) or "" for o in og if o[0] == "call"]
    if not any(c.endswith("Tag::special_is_empty") for c in calls):
        return False
    if any(not (c.endswith("Tag::special_is_empty") or c.startswith("core::convert::") or c.startswith("core::num::")) for c in calls):
        return False
    for o in og:
        if o[0] == "call" and (callee_path(o[2]) or "").endswith("Tag::special_is_empty"):
            for a in o[2]["args"]:
                ao = body.origins(a)
                cs = [x[1] for x in ao if x[0] == "const"]
                if not cs or [x for x in ao if x[0] in ("call", "arg", "load")] or not all((c.get("val") or 0) >= 128 for c in cs):
                    return False
    return True


def r_acct(F, V):
    R = Result("R-ACCT", F.cfg)
    n_inc = n_dec = n_gl_inc = 0
    for p, body in F.bodies.items():
        items_st = _acct_stores(V, body, "items")
        gl_st = _acct_stores(V, body, "growth_left")
        if not items_st and not gl_st:
            continue
        gl_shapes = [(i, k, s) + _store_shape(body, s, "growth_left") for (i, k, s) in gl_st]
        # ---- (a) items + 1 is paired with the right growth_left update
        for (i, k, s) in items_st:
            shape, orig = _store_shape(body, s, "items")
            if shape[0] == "inc" and _is_const_one(shape[1]):
                n_inc += 1
                key = "%s|items+1" % p
                good = None
                for (gi, gk, gs, gshape, gorig) in gl_shapes:
                    calls = _calls_in_origins(gorig)
                    if gshape[0] == "dec" and any(c.endswith("Tag::special_is_empty") for c in _calls_in_origins(body.origins(gshape[1]))):
                        if body.dominates(gi, i) or body.postdominates(gi, i) or gi == i:
                            good = "growth_left -= special_is_empty(old_ctrl) (a reused tombstone costs no capacity)"
                    elif gshape[0] == "copy" and not [o for o in gorig if o[0] == "binop"]:
                        # pure restore of a value saved from growth_left earlier in the body
                        if any(o[0] == "load" and (last_field(o[1]) or {}).get("name") == "growth_left" for o in gorig):
                            if body.dominates(gi, i) or body.postdominates(gi, i) or gi == i:
                                # the value must have been saved BEFORE the temporary removal (remove / erase), not after it
                                removers = [j for j, t in body.calls() if (callee_path(t) or "").endswith("RawTable::remove") or (callee_path(t) or "").endswith("::erase_no_drop") or (callee_path(t) or "").endswith("RawTableInner::erase")]
                                save_blocks = []
                                for bi, bk, bs in body.stmts():
                                    if bs["k"] == "assign" and not bs["p"].get("proj") and bs["rv"]["k"] == "use" and bs["rv"]["op"]["k"] in ("copy", "move") and (last_field(bs["rv"]["op"]["p"]) or {}).get("name") == "growth_left":
                                        save_blocks.append(bi)
                                saved_before = all(any(body.dominates(sb, rm) for sb in save_blocks) for rm in removers) if removers and save_blocks else bool(save_blocks)
                                if saved_before:
                                    good = "growth_left restored to the value saved before the temporary removal"
                                else:
                                    good = None
                                    late_save = True
                if good:
                    R.inst(key, "items += 1 paired with: %s" % good, "ok", True, where(body, stmt=s))
                else:
                    R.violation(key, body,
                                "`items += 1` is not paired, on every path, with `growth_left -= special_is_empty(old control byte)` (or a restore of the saved growth_left): the free-slot count drifts "
                                "(too high: no EMPTY byte is left and probes never terminate; too low: capacity shrinks on every tombstone reuse)", line=line_of(body, stmt=s),
                                growth_left_stores=[str(g[3][0]) for g in gl_shapes])
                    R.inst(key, "unpaired items += 1", "violation", True, where(body, stmt=s))
            # ---- (i) `items` only ever moves by exactly one (a FULL byte written / cleared), is reset, or is copied
            if shape[0] in ("inc", "dec") and not _is_const_one(shape[1]):
                R.violation("%s|items-step" % p, body,
                            "`items` is changed by an amount that is not the constant 1 (%s a computed value): every element stored makes one control byte FULL and must be counted, "
                            "whether the slot was EMPTY or a reused tombstone - otherwise len()/iteration (which stop after `items` elements) miss stored elements" % ("adds" if shape[0] == "inc" else "subtracts"),
                            line=line_of(body, stmt=s))
                R.inst("%s|items-step" % p, "items moved by a non-unit amount", "violation", True, where(body, stmt=s))
            elif shape[0].startswith("binop:") or shape[0] == "other":
                R.violation("%s|items-step" % p, body, "`items` is assigned a computed value (%s) instead of +1 / -1 / 0 / a copy of another table's count" % shape[0], line=line_of(body, stmt=s))
                R.inst("%s|items-step" % p, "items assigned a computed value", "violation", True, where(body, stmt=s))
            # ---- (b) items - 1 preceded by a special-tag store
            if shape[0] == "dec" and _is_const_one(shape[1]):
                n_dec += 1
                key = "%s|items-1" % p
                ok = False
                for j, t in body.calls():
                    if (callee_path(t) or "").endswith("RawTableInner::set_ctrl") and len(t["args"]) >= 3:
                        tg = t["args"][2]
                        cs = [o[1] for o in body.origins(tg) if o[0] == "const"]
                        if cs and all(c.get("t") == TAG_T and (c.get("val") or 0) >= 128 for c in cs) and not [o for o in body.origins(tg) if o[0] in ("call", "arg", "load")]:
                            if t.get("target") is not None and (body.dominates(t["target"], i) or t["target"] == i):
                                ok = True
                if not ok:
                    # the count first, the control byte right after: sound as long as every path from here to a return passes
                    # the special-tag store and no user code can run in between
                    specials = []
                    for j, t in body.calls():
                        if (callee_path(t) or "").endswith("RawTableInner::set_ctrl") and len(t["args"]) >= 3:
                            tg = t["args"][2]
                            cs = [o[1] for o in body.origins(tg) if o[0] == "const"]
                            if cs and all(c.get("t") == TAG_T and (c.get("val") or 0) >= 128 for c in cs) and not [o for o in body.origins(tg) if o[0] in ("call", "arg", "load")]:
                                specials.append(j)
                    if specials:
                        open_ = set()
                        for x in body.nsucc[i]:
                            open_ |= body.reachable_from(x, tuple(specials))
                        cbs = [j for (j, d_) in V.callback_sites(body) if j in open_]
                        if i not in specials and not any(r in open_ for r in body.returns) and not cbs:
                            ok = True
                if ok:
                    R.inst(key, "items -= 1 is paired with set_ctrl(i, EMPTY|DELETED) on every path (no user code in between)", "ok", True, where(body, stmt=s))
                else:
                    R.violation(key, body, "`items -= 1` is not preceded on every path by a store of a special tag (EMPTY/DELETED) to the slot: the element stays marked FULL while no longer counted", line=line_of(body, stmt=s))
                    R.inst(key, "items -= 1 without clearing the control byte", "violation", True, where(body, stmt=s))
        # ---- (c) growth_left + 1 only together with the EMPTY tag
        for (gi, gk, gs, gshape, gorig) in gl_shapes:
            if gshape[0] == "inc" and _is_const_one(gshape[1]):
                n_gl_inc += 1
                key = "%s|growth_left+1" % p
                setc = [(j, t) for j, t in body.calls() if (callee_path(t) or "").endswith("RawTableInner::set_ctrl") and len(t["args"]) >= 3 and gi != j and j in _reach_after(body, gi)]
                if not setc:
                    R.violation(key, body, "`growth_left += 1` without a following set_ctrl: capacity is given back for a slot whose control byte is not reset to EMPTY", line=line_of(body, stmt=gs))
                    continue
                j, t = setc[0]
                tg = t["args"][2]
                tl = tg["p"]["l"] if tg["k"] in ("copy", "move") else None
                r = body.root_of_place(tg["p"])[0] if tl is not None else None
                assigns = []
                for bi, bk, bs in body.stmts():
                    if bs["k"] == "assign" and bs["p"]["l"] == r and not bs["p"].get("proj") and bs["rv"]["k"] == "use" and bs["rv"]["op"]["k"] == "const":
                        assigns.append((bi, bs["rv"]["op"].get("val")))
                region = body.reachable_from(gi, (j,))
                deleted_in_region = [bi for bi, v in assigns if v != 255 and (bi in region or gi in body.reachable_from(bi, (j,)))]
                empty_ok = [bi for bi, v in assigns if v == 255 and (bi in region or body.dominates(bi, gi))]
                if deleted_in_region or not empty_ok:
                    R.violation(key, body, "`growth_left += 1` can happen on a path where the slot becomes a DELETED tombstone (or not provably EMPTY): a tombstone still blocks probing and must not give capacity back", line=line_of(body, stmt=gs))
                    R.inst(key, "growth_left += 1 not tied to the EMPTY arm", "violation", True, where(body, stmt=gs))
                else:
                    R.inst(key, "growth_left += 1 only on the arm that selects Tag::EMPTY", "ok", True, where(body, stmt=gs))
        # ---- (d) counts copied from another table only after the copy loop
        loops = body.natural_loops()
        for (i, k, s) in items_st + gl_st:
            fld = V.acct_store(s)
            shape, orig = _store_shape(body, s, fld)
            foreign = [o for o in orig if o[0] == "load" and (last_field(o[1]) or {}).get("name") in ("items", "growth_left") and deep_root(body, o[1])[0] != deep_root(body, s["p"])[0]]
            if shape[0] == "copy" and foreign:
                # a count copied from another table is the SAME count of that table
                names_ = set((last_field(o[1]) or {}).get("name") for o in foreign)
                if names_ and fld not in names_:
                    R.violation("%s|%s<-other.%s" % (p, fld, sorted(names_)[0]), body, "`%s` of this table is set from the other table's `%s`: the free-room count and the element count are different quantities "
                                "(e.g. growth_left = items over-states the free room of a clone more than half full: it fills up completely and probes never terminate)" % (fld, sorted(names_)[0]), line=line_of(body, stmt=s))
                    R.inst("%s|%s<-other.%s" % (p, fld, sorted(names_)[0]), "count copied from the wrong field", "violation", True, where(body, stmt=s))
            if shape[0] in ("copy", "binop:Sub", "dec") and foreign:
                key = "%s|%s<-other" % (p, fld)
                in_loop = [h for h, blocks in loops if i in blocks]
                later_loops = [h for h, blocks in loops if h in _reach_after(body, i)]
                if in_loop or later_loops:
                    R.violation(key, body, "the %s of a table being filled element by element is set from another table's count before the copy loop has finished: a panic in the loop leaves a count larger than the number of initialised elements" % fld, line=line_of(body, stmt=s))
                    R.inst(key, "count copied before the copy loop ends", "violation", True, where(body, stmt=s))
                else:
                    R.inst(key, "%s copied from the other table only after the last loop" % fld, "ok", True, where(body, stmt=s))
        # ---- (e) whole-table clear shape
        fills = [j for j, t in body.calls() if (callee_path(t) or "").endswith("TagSliceExt::fill_empty") or (t["f"].get("trait") == "control::tag::TagSliceExt" and t["f"].get("method") == "fill_empty")]
        # (a body that refills control bytes after the fill - a clone that rebuilds the control array slot by slot - is not a clear:
        # its counts are copied from the source, which is clause (d))
        refill = [j for j, t in body.calls() if (callee_path(t) or "").endswith("RawTableInner::set_ctrl") or (callee_path(t) or "").endswith("RawTableInner::set_ctrl_hash")]
        refill = [j for j in refill if any(j in _reach_after(body, f_) for f_ in fills)]
        if fills and items_st and gl_st and body.arg_count >= 1 and not refill:
            key = "%s|clear-shape" % p
            bad = None
            for (i, k, s) in items_st:
                shape, orig = _store_shape(body, s, "items")
                if not (shape[0] == "const" and shape[1] == 0):
                    bad = "items is not reset to 0"
            for (gi, gk, gs, gshape, gorig) in gl_shapes:
                calls = _calls_in_origins(gorig)
                loads = [(last_field(o[1]) or {}).get("name") for o in gorig if o[0] == "load"]
                if not any(c.endswith("bucket_mask_to_capacity") for c in calls) or any(l in ("growth_left", "items") for l in loads):
                    bad = "growth_left is not recomputed as bucket_mask_to_capacity(bucket_mask) (it depends on %s)" % sorted(set(l for l in loads if l))
            if bad:
                R.violation(key, body, "after resetting every control byte to EMPTY, %s: tombstones that were just erased would stay subtracted from the capacity" % bad)
                R.inst(key, bad, "violation", True, where(body))
            else:
                R.inst(key, "fill_empty + items = 0 + growth_left = bucket_mask_to_capacity(bucket_mask)", "ok", True, where(body))
        # ---- (l) every store to growth_left has one of the known shapes: -= special_is_empty (a), += 1 (c), a copy / restore,
        # the whole capacity (j), capacity - items (f/k); anything else is a made-up count of free room
        for (gi, gk, gs, gshape, gorig) in gl_shapes:
            calls = _calls_in_origins(gorig)
            known = gshape[0] in ("dec", "inc", "copy", "const") or (gshape[0] == "binop:Sub") or \
                (gshape[0] == "other" and any(c.endswith("bucket_mask_to_capacity") for c in calls) and not [o for o in gorig if o[0] == "binop"])
            if gshape[0] == "inc" and not _is_const_one(gshape[1]):
                known = _inc_by_empty_of_stored_tag(body, gshape[1])
                if known:
                    n_gl_inc += 1
            if not known:
                R.violation("%s|growth_left-shape" % p, body, "growth_left is assigned a value of an unknown shape (%s; e.g. capacity + items): the free-room count no longer equals the number of EMPTY bytes "
                            "that may still be consumed, so the table can fill completely (probes never terminate) or refuse room it has" % gshape[0], line=line_of(body, stmt=gs))
                R.inst("%s|growth_left-shape" % p, "growth_left of unknown shape", "violation", True, where(body, stmt=gs))
        # ---- (j) growth_left is reset to the WHOLE capacity only together with a reset of every control byte
        for (gi, gk, gs, gshape, gorig) in gl_shapes:
            calls = _calls_in_origins(gorig)
            if not any(c.endswith("bucket_mask_to_capacity") for c in calls):
                continue
            if gshape[0] in ("binop:Sub", "dec") or [o for o in gorig if o[0] == "binop" and str(o[1]).startswith("Sub")]:
                continue
            key = "%s|growth_left=whole-capacity" % p
            # every path from entry to the store passes a fill_empty, except through the `is_empty_singleton()` arm
            # (the shared static table is all EMPTY by construction)
            cut = set()
            for bb in body.normal:
                tt = body.term(bb)
                if tt["k"] == "switch" and tt["discr"]["k"] in ("copy", "move"):
                    if any((callee_path(o[2]) or "").endswith("is_empty_singleton") for o in body.origins(tt["discr"]) if o[0] == "call"):
                        zero = [x for v, x in tt["targets"] if v == 0]
                        for x in body.nsucc[bb]:
                            if x not in zero:
                                cut.add((bb, x))
            seen_, work_ = {0}, [0]
            while work_:
                x = work_.pop()
                if x in fills:
                    continue
                for y in body.nsucc[x]:
                    if (x, y) in cut or y in seen_:
                        continue
                    seen_.add(y)
                    work_.append(y)
            paired = bool(fills) and (gi not in seen_ or gi in fills)
            if not paired and fills and any(body.dominates(gi, j) for j in fills):
                paired = True
            if paired:
                R.inst(key, "growth_left = bucket_mask_to_capacity(bucket_mask) together with fill_empty of all control bytes", "ok", True, where(body, stmt=gs))
            else:
                R.violation(key, body, "growth_left is reset to the whole capacity on a path that does not reset every control byte to EMPTY (no fill_empty on that path): DELETED markers left in the table "
                            "are then counted as free room, inserts consume the last EMPTY bytes, and a probe for an absent key never terminates", line=line_of(body, stmt=gs))
                R.inst(key, "whole-capacity reset without clearing tombstones", "violation", True, where(body, stmt=gs))
        # ---- (f) growth_left = <capacity> - items uses the 7/8 capacity, never the bucket count
        for (gi, gk, gs, gshape, gorig) in gl_shapes:
            if gshape[0] in ("binop:Sub", "dec"):
                minuend = gshape[1] if gshape[0] == "binop:Sub" else None
                sub = gshape[2] if gshape[0] == "binop:Sub" else gshape[1]
                sub_loads = [(last_field(o[1]) or {}).get("name") for o in body.origins(sub) if o[0] == "load"]
                if "items" not in sub_loads:
                    continue
                key = "%s|growth_left=cap-items" % p
                # (k) `capacity - items` counts every non-FULL slot as free room, which is only true if none of them is a
                # tombstone: a body that recomputes growth_left this way must not leave DELETED bytes behind
                dels = [j for j, t in body.calls() if (callee_path(t) or "").endswith("RawTableInner::set_ctrl") and len(t["args"]) >= 3
                        and t["args"][2]["k"] == "const" and t["args"][2].get("val") == 128]
                if dels:
                    R.violation("%s|growth_left=cap-items|tombstone" % p, body, "growth_left is recomputed as capacity - items in a body that also writes DELETED control bytes: the tombstones are counted as free room, "
                                "so inserts use up the last EMPTY bytes and a probe for an absent key never terminates", line=line_of(body, bb=dels[0]))
                    R.inst("%s|growth_left=cap-items|tombstone" % p, "DELETED written where growth_left = capacity - items", "violation", True, where(body, bb=dels[0]))
                if minuend is None:
                    R.inst(key, "growth_left -= items on a freshly sized table", "ok", True, where(body, stmt=gs))
                    continue
                mo = body.origins(minuend)
                calls = _calls_in_origins(mo)
                if any(c.endswith("bucket_mask_to_capacity") for c in calls) and not any(c.endswith("::buckets") for c in calls):
                    R.inst(key, "growth_left = bucket_mask_to_capacity(bucket_mask) - items", "ok", True, where(body, stmt=gs))
                else:
                    R.violation(key, body, "growth_left is recomputed as <something> - items where <something> is not bucket_mask_to_capacity(bucket_mask) (sources: %s): the reserve of EMPTY slots that ends every probe is lost" % sorted(set(calls)), line=line_of(body, stmt=gs))
                    R.inst(key, "capacity not from bucket_mask_to_capacity", "violation", True, where(body, stmt=gs))
    # ---- (h) erase looks at the group *before* the slot modulo the table size
    eb = F.bodies.get("raw::RawTableInner::erase")
    if eb is not None:
        from rules.arith import cls
        idxs = []
        for i, t in eb.calls():
            if "Group::load" in (callee_path(t) or "") and t["args"] and t["args"][0]["k"] in ("copy", "move"):
                # pointer comes from ctrl(x)
                r = eb.root_of_place(t["args"][0]["p"])[0]
                d = eb.single_def(r)
                seen = 0
                while d and d[0] == "stmt" and seen < 6:
                    seen += 1
                    ops = rv_operands(d[3]["rv"])
                    if not ops or ops[0]["k"] not in ("copy", "move"):
                        break
                    r = eb.root_of_place(ops[0]["p"])[0]
                    d = eb.single_def(r)
                if d and d[0] == "call" and (callee_path(d[3]) or "").endswith("RawTableInner::ctrl"):
                    idxs.append(cls(eb, d[3]["args"][1]))
        key = "raw::RawTableInner::erase|window"
        if len(idxs) >= 2 and any(c.startswith("PARAM:") for c in idxs) and any(c == "MASKED" for c in idxs):
            R.inst(key, "erase inspects the group at the slot and the group before it modulo the table size (%s)" % idxs, "ok", True, where(eb))
        else:
            R.violation(key, eb, "erase must look at the group starting at the slot and at the group WIDTH positions before it *modulo the table size* (index classes found: %s): near the start of the table the wrong bytes decide between EMPTY and DELETED, cutting probe chains" % idxs)
            R.inst(key, "erase window not modular", "violation", True, where(eb))
    # ---- (g) balance: special-tag stores vs FULL stores vs items +-1 along every path
    nbal = _balance(F, V, R)
    R.floor("items += 1 sites", n_inc, {"posctl": 0}.get(F.cfg, 3))
    R.floor("items -= 1 sites", n_dec, {"posctl": 1}.get(F.cfg, 2))
    R.floor("growth_left += 1 sites", n_gl_inc, {"posctl": 0}.get(F.cfg, 1))
    R.floor("bodies judged for count balance", nbal, {"posctl": 0}.get(F.cfg, 3))
    return R


def _reach_after(body, b):
    out = set()
    for s in body.nsucc[b]:
        out |= body.reachable_from(s)
    return out


BALANCE_EXEMPT = {
    "raw::RawTableInner::rehash_in_place": "moves elements between slots; DELETED denotes 'occupied, not yet rehashed' inside this function, the count is unchanged by construction",
    "raw::RawTableInner::prepare_rehash_in_place": "bulk FULL->DELETED conversion, count unchanged",
}


# primitives whose own effect (one FULL store) is accounted for at their call sites
FULL_STORE_PRIMS = ("raw::RawTableInner::set_ctrl_hash", "raw::RawTableInner::replace_ctrl_hash", "raw::RawTableInner::prepare_insert_slot")


def _balance(F, V, R):
    """delta = (#stores of a constant special tag) - (#FULL stores via set_ctrl_hash/replace_ctrl_hash)
               + (#items += 1) - (#items -= 1) must be 0 on every acyclic path from entry to return,
    and on every loop iteration."""
    n = 0
    for p, body in F.bodies.items():
        if p in BALANCE_EXEMPT or p in FULL_STORE_PRIMS:
            continue
        ev = {}
        unknown = False
        for i in body.normal:
            d = 0
            for s in body.blocks[i]["stmts"]:
                if V.acct_store(s) == "items":
                    shape, _ = _store_shape(body, s, "items")
                    if shape[0] == "inc" and _is_const_one(shape[1]):
                        d += 1
                    elif shape[0] == "dec" and _is_const_one(shape[1]):
                        d -= 1
                    else:
                        unknown = True
            t = body.term(i)
            if t["k"] == "call":
                cp = callee_path(t) or ""
                if cp.endswith("RawTableInner::set_ctrl") and len(t["args"]) >= 3:
                    og = body.origins(t["args"][2])
                    cs = [o[1] for o in og if o[0] == "const"]
                    if cs and all((c.get("val") or 0) >= 128 for c in cs) and not [o for o in og if o[0] in ("call", "arg", "load")]:
                        d += 1
                    else:
                        unknown = True
                elif cp.endswith("RawTableInner::set_ctrl_hash") or cp.endswith("RawTableInner::replace_ctrl_hash") or cp.endswith("RawTableInner::prepare_insert_slot"):
                    d -= 1
            if d:
                ev[i] = d
        if not ev:
            continue
        key = "%s|balance" % p
        if unknown:
            R.inst(key, "count balance not judged: a control byte is set from a variable tag or items is assigned wholesale (covered by R-ACCT(a)/(d))", "exempt", False, where(body))
            continue
        n += 1
        # path-sensitive enumeration over the acyclic structure: dataflow of possible delta sets
        loops = body.natural_loops()
        backedges = set()
        for h, blocks in loops:
            for b in blocks:
                if h in body.nsucc[b]:
                    backedges.add((b, h))
        vals = {0: {0}}
        order = [b for b in _topo(body, backedges)]
        bad = None
        for b in order:
            if b not in vals:
                continue
            out = set(v + ev.get(b, 0) for v in vals[b])
            if len(out) > 16:
                out = set(list(out)[:16])
            for s in body.nsucc[b]:
                if (b, s) in backedges:
                    # one iteration must be neutral relative to the value at the loop head
                    if not out <= vals.get(s, set()):
                        bad = (b, "a loop iteration changes the balance between cleared slots and the items count")
                    continue
                vals.setdefault(s, set()).update(out)
            if body.term(b)["k"] == "return" and out != {0}:
                bad = (b, "at return the number of slots cleared/filled and the change of `items` disagree (balance %s)" % sorted(out))
        if bad:
            R.violation(key, body, "count balance broken: %s. Every slot whose control byte is set to EMPTY/DELETED must decrement `items`, every FULL store must increment it" % bad[1], line=line_of(body, bb=bad[0]))
            R.inst(key, bad[1], "violation", True, where(body, bb=bad[0]))
        else:
            R.inst(key, "special-tag stores, FULL stores and items +-1 balance on every path and loop iteration", "ok", True, where(body))
    return n


def _topo(body, backedges):
    indeg = {b: 0 for b in body.normal}
    for b in body.normal:
        for s in body.nsucc[b]:
            if (b, s) not in backedges and s in indeg:
                indeg[s] += 1
    q = [b for b in body.normal if indeg[b] == 0]
    out = []
    while q:
        b = q.pop()
        out.append(b)
        for s in body.nsucc[b]:
            if (b, s) not in backedges and s in indeg:
                indeg[s] -= 1
                if indeg[s] == 0:
                    q.append(s)
    return out


# --------------------------------------------------------------------- R-CTRL-WRITE

def _ctrl_index_of(body, ptr_op):
    """the index operand of the ctrl(index) call a pointer operand comes from (through copies / casts), or None"""
    o = ptr_op
    for _ in range(6):
        if o["k"] not in ("copy", "move") or o["p"].get("proj"):
            return None
        d = body.single_def(o["p"]["l"])
        if not d:
            return None
        if d[0] == "call":
            if (callee_path(d[3]) or "").endswith("RawTableInner::ctrl") and len(d[3]["args"]) > 1:
                return d[3]["args"][1]
            if (callee_path(d[3]) or "").endswith("::cast") and d[3]["args"]:
                o = d[3]["args"][0]
                continue
            return None
        rv = d[3]["rv"]
        if rv["k"] in ("use", "cast"):
            o = rv["op"]
        else:
            return None
    return None


def r_ctrl_write(F, V):
    from rules.arith import cls
    R = Result("R-CTRL-WRITE", F.cfg)
    width = None
    for cpath, c in F.consts.items():
        if cpath.endswith("Group::WIDTH"):
            width = c["val"]
    n = 0
    for p, body in F.bodies.items():
        if p.startswith("control::"):
            continue  # the Group / Tag primitives themselves
        sites = [s for s in partial_op_sites(V, body) if "ctrl" in s["kinds"] and not s["desc"].startswith("call raw::RawTableInner::")]
        if not sites:
            continue
        n += 1
        direct = [s for s in sites if s["desc"].startswith("store through") and "stmt" in s]
        prim = [s for s in sites if s["desc"].startswith("store through") and "stmt" not in s]
        bulk = [s for s in sites if not s["desc"].startswith("store through")]
        key = "%s|ctrl-writes" % p
        problems = []
        def _mirror_store_present():
            for s2 in direct:
                d2 = body.single_def(s2["stmt"]["p"]["l"])
                if d2 and d2[0] == "call" and (callee_path(d2[3]) or "").endswith("RawTableInner::ctrl"):
                    og = body.origins(d2[3]["args"][1])
                    calls = _calls_in_origins(og)
                    if any(o[0] == "load" and (last_field(o[1]) or {}).get("name") == "bucket_mask" for o in og) and any(o[0] == "binop" and o[1] == "BitAnd" for o in og) \
                            and any(o[0] == "binop" and o[1].startswith("Add") for o in og) and any(c.endswith("wrapping_sub") for c in calls):
                        return True
            return False
        if prim and _mirror_store_present():
            # set_ctrl written with a library primitive for the byte itself (to get the previous tag back) plus the assignment to the mirror
            prim_ok = prim
            prim = []
            direct_for_shape = direct
            direct = []     # the two-store shape check below does not apply to this spelling
        for s in prim:
            problems.append("a single control byte is written with %s outside set_ctrl: the mirrored copy behind the table (for indices below the group width) is not updated, so a probe that starts in the last buckets and wraps around reads a stale tag" % s["desc"].rsplit(" ", 1)[-1])
        if direct:
            # set_ctrl shape: exactly two stores of the same operand; the second pointer is ctrl(((i - WIDTH) & mask) + WIDTH)
            vals = set()
            idx_roots = []
            for s in direct:
                st = s["stmt"]
                op = st["rv"]["op"] if st["rv"]["k"] == "use" else None
                vals.add(body.root_of_place(op["p"])[0] if op and op["k"] in ("copy", "move") else None)
                # the pointer comes from ctrl(index)
                ptr_local = st["p"]["l"]
                d = body.single_def(ptr_local)
                if d and d[0] == "call" and (callee_path(d[3]) or "").endswith("RawTableInner::ctrl"):
                    idx_roots.append(d[3]["args"][1])
                else:
                    problems.append("a control byte is stored through a pointer that is not the result of ctrl(index)")
            if len(direct) != 2 or len(vals) != 1 or None in vals:
                problems.append("expected exactly two stores of one tag value (the byte and its mirror), found %d stores of %d values" % (len(direct), len(vals)))
            elif len(idx_roots) == 2:
                mirrors = 0
                for ix in idx_roots:
                    og = body.origins(ix)
                    calls = _calls_in_origins(og)
                    has_mask = any(o[0] == "load" and (last_field(o[1]) or {}).get("name") == "bucket_mask" for o in og)
                    has_and = any(o[0] == "binop" and o[1] == "BitAnd" for o in og)
                    has_add = any(o[0] == "binop" and o[1].startswith("Add") for o in og)
                    has_wsub = any(c.endswith("wrapping_sub") for c in calls)
                    if has_mask and has_and and has_add and has_wsub:
                        mirrors += 1
                if mirrors != 1:
                    problems.append("the second store is not at ((index - WIDTH) & bucket_mask) + WIDTH: the mirrored trailing control bytes go stale")
        for s in bulk:
            desc = s["desc"]
            t = body.term(s["bb"])
            cp = callee_path(t) or ""
            if "fill_" in cp or t["f"].get("trait") == "control::tag::TagSliceExt":
                # receiver must be the whole ctrl_slice()
                a = t["args"][0]
                og = body.origins(a) if a["k"] in ("copy", "move") else []
                calls = _calls_in_origins(og)
                if p.startswith("control::tag::"):
                    continue
                if not any(c.endswith("RawTableInner::ctrl_slice") for c in calls) or any("index" in c.lower() or "get_unchecked" in c or "split_at" in c for c in calls):
                    problems.append("fill_* is applied to something other than the whole ctrl_slice(): the mirrored tail keeps stale tags")
            elif "store_aligned" in cp:
                # must be followed on every path by a copy from ctrl(0) onto the tail
                copies = [j for j, tt in body.calls() if (callee_path(tt) or "") in CTRL_BULK_EXT and _is_tag_subst(tt["f"])]
                after = _reach_after(body, s["bb"])
                reach_ret_without = body.reachable_from(s["bb"], tuple(copies))
                # ... or by a group store onto the tail itself (ctrl(buckets())) of a value that went through the same conversion as
                # the stores it mirrors
                tail_stores = []
                for j, tt in body.calls():
                    if "store_aligned" in (callee_path(tt) or "") or (callee_path(tt) or "").endswith("Group::store"):
                        if len(tt["args"]) > 1 and cls(body, _ctrl_index_of(body, tt["args"][1])) == "BUCKETS" if _ctrl_index_of(body, tt["args"][1]) is not None else False:
                            Sv = sources(body, tt["args"][0])
                            conv_here = any("convert_special" in c for c in sources(body, t["args"][0]).calls)
                            if (not conv_here) or any("convert_special" in c for c in Sv.calls):
                                tail_stores.append(j)
                if s["bb"] in tail_stores:
                    continue
                closers = tuple(copies) + tuple(tail_stores)
                reach_ret_without = body.reachable_from(s["bb"], closers)
                if not closers or any(r in reach_ret_without for r in body.returns):
                    problems.append("group-wise stores are not followed on every path by a copy of the leading control bytes onto the mirrored tail")
            elif cp in CTRL_BULK_EXT:
                if p.endswith("prepare_rehash_in_place"):
                    # source must be ctrl(0)
                    src = t["args"][0]
                    d = body.single_def(body.root_of_place(src["p"])[0]) if src["k"] in ("copy", "move") else None
                    if not (d and d[0] == "call" and (callee_path(d[3]) or "").endswith("RawTableInner::ctrl") and d[3]["args"][1].get("val") == 0):
                        problems.append("the tail fix-up does not copy from ctrl(0)")
                else:
                    # whole-range copy: count is num_ctrl_bytes(), destination ctrl(0)
                    cnt = t["args"][-1]
                    calls = _calls_in_origins(body.origins(cnt))
                    dsti = 1 if "copy_to" in cp or cp in ("core::ptr::copy", "core::ptr::copy_nonoverlapping") else 0
                    dst = t["args"][dsti]
                    d = body.single_def(body.root_of_place(dst["p"])[0]) if dst["k"] in ("copy", "move") else None
                    dst_ok = d and d[0] == "call" and (callee_path(d[3]) or "").endswith("RawTableInner::ctrl") and d[3]["args"][1].get("val") == 0
                    if not any(c.endswith("num_ctrl_bytes") for c in calls) or not dst_ok:
                        problems.append("a bulk copy onto control bytes does not cover the whole range ctrl(0)..num_ctrl_bytes()")
        if problems:
            R.violation(key, body, "control bytes are written without maintaining the mirrored trailing group: %s (a key whose probe starts in the last group is then not found / found after removal)" % "; ".join(problems))
            R.inst(key, "; ".join(problems), "violation", True, where(body))
        else:
            R.inst(key, "%d direct + %d bulk control-byte writes, all in mirror-maintaining shapes" % (len(direct), len(bulk)), "ok", True, where(body))
    R.floor("bodies writing control bytes directly", n, {"posctl": 1}.get(F.cfg, 4))
    return R
