"""Rules of DESIGN.md 4.D: the lookup / insert skeleton.
R-PROBE-STOP, R-SLOT-PROVENANCE, R-SLOT-FRESH, R-BUCKET-FRESH, R-RESERVE-FIRST,
R-RESERVE-GUARD, R-REHASH-DECISION, R-KEEP-KEY, R-EQ-NOEFFECT, R-ENTRY-NOEFFECT."""
from core import callee_path, last_field, rv_operands
from vocab import INNER
from cond import sources, branch_sources, controlling_sources
from rules.base import Result, where, line_of
from rules.accounting import deep_root, operand_deep_root, mutation_kinds, partial_op_sites


def _reach_after(body, b):
    """blocks that can execute after block b (infeasible edges of flag / same-value variant tests are not followed)"""
    return body.reachable_from_flags(b)


# --------------------------------------------------------------------- R-PROBE-STOP

def r_probe_stop(F, V):
    R = Result("R-PROBE-STOP", F.cfg)
    n = 0
    for p, body in F.bodies.items():
        mv = [i for i, t in body.calls() if (callee_path(t) or "").endswith("ProbeSeq::move_next")]
        if not mv and not p.endswith("ProbeSeq::move_next"):
            # the step written out in place (move_next inlined): a store that advances ProbeSeq.stride
            for i, k, st in body.stmts():
                if st["k"] == "assign" and st["rv"]["k"] != "aggregate":
                    lf = last_field(st["p"])
                    if lf and lf["name"] == "stride" and (lf.get("adt") or "").endswith("ProbeSeq") and i not in mv:
                        mv.append(i)
        if not mv:
            continue
        loops = [(h, blocks) for h, blocks in body.natural_loops() if any(m in blocks for m in mv)]
        if not loops:
            # resumable form (RawIterHashInner::next): the loop is the body's outer loop or absent; treat whole body
            loops = [(0, set(body.normal))]
        h, blocks = max(loops, key=lambda x: len(x[1]))
        n += 1
        key = "%s|probe-loop" % p
        is_search = any((callee_path(t) or "").endswith("Group::match_tag") for i, t in body.calls() if i in blocks)
        exits = []
        for b in blocks:
            t = body.term(b)
            if t["k"] != "switch":
                continue
            for s in body.nsucc[b]:
                leaves = s not in blocks or (blocks == set(body.normal) and body.term(s)["k"] == "return")
                if s not in blocks and body.can_reach_return(s):
                    exits.append((b, s))
        # whole-body form: exits are the branches leading to a return without passing move_next
        if blocks == set(body.normal):
            exits = []
            for b in body.normal:
                t = body.term(b)
                if t["k"] == "switch":
                    for s in body.nsucc[b]:
                        r = body.reachable_from(s, tuple(mv))
                        if any(x in r for x in body.returns) and not all(any(x in body.reachable_from(s2, tuple(mv)) for x in body.returns) for s2 in body.nsucc[b]):
                            exits.append((b, s))
        kinds = []
        for (b, s) in exits:
            S = branch_sources(body, b)
            names = S.call_names()
            k = set()
            if any(c.endswith("Group::match_empty") for c in names):
                k.add("empty")
            if any(c.endswith("Group::match_empty_or_deleted") for c in names):
                k.add("empty_or_deleted")
            if any(c.endswith("find_insert_slot_in_group") for c in names):
                k.add("insert_slot")
            if S.indirect:
                k.add("eq")
            if any(c.endswith("Group::match_tag") for c in names) and not k:
                k.add("tag-iter")
            # field-carried state of the resumable iterator
            if not k and S.has_load("bitmask"):
                k.add("tag-iter")
            if not k and S.has_load("group"):
                k.add("group-field")
            kinds.append((b, s, k, names))
        allk = set().union(*[k for _, _, k, _ in kinds]) if kinds else set()
        problems = []
        if is_search:
            if "empty" not in allk and "group-field" not in allk:
                problems.append("no exit of the search loop is conditioned on match_empty of the current group: termination would depend on the user's eq/hash")
            for (b, s, k, names) in kinds:
                if k & {"empty_or_deleted", "insert_slot"}:
                    problems.append("a search loop exit is conditioned on match_empty_or_deleted / a found insert slot: stopping at a tombstone cuts probe chains, so present keys are reported absent (or inserted twice)")
                    break
        else:
            if not (allk & {"empty_or_deleted", "insert_slot", "empty"}):
                problems.append("the insert-slot loop has no exit conditioned on an EMPTY/DELETED match of the current group")
        if problems:
            b0 = exits[0][0] if exits else h
            R.violation(key, body, "; ".join(problems), line=line_of(body, bb=b0), exits=[(where(body, bb=b), sorted(k)) for b, s, k, _ in kinds])
            R.inst(key, "; ".join(problems), "violation", True, where(body, bb=b0))
        else:
            R.inst(key, "%s loop: exits conditioned on %s" % ("search" if is_search else "insert-slot", sorted(allk)), "ok", True, where(body, bb=h))
    R.floor("probe loops", n, {"posctl": 1}.get(F.cfg, 4))
    return R


# --------------------------------------------------------------------- R-SLOT-PROVENANCE

SLOT = "raw::InsertSlot"


def _slot_of_erased_bucket(body, bi, st):
    """InsertSlot { index, .. } built at (block bi, stmt st). True: an erase of the same bucket dominates the construction and every
    control byte the slot carries is loaded after it; False: the body erases the bucket but a carried control byte is loaded
    before the erase; None: the body does not erase at all (not this pattern)."""
    from cond import expr_key
    erases = [(j, t) for j, t in body.calls() if (callee_path(t) or "") in ("raw::RawTableInner::erase", "raw::RawTable::erase_no_drop", "raw::RawTable::erase")]
    if not erases:
        return None
    rv = st["rv"]
    dom = [j for j, t in erases if t.get("target") is not None and (body.dominates(t["target"], bi) or t["target"] == bi)]
    carried = []
    for fname, op in zip(rv.get("fields") or [], rv["ops"]):
        if fname == "index":
            continue
        S = sources(body, op)
        for c, lst in S.calls.items():
            if c.endswith("RawTableInner::ctrl"):
                carried.extend(bb for bb, _ in lst)
    if not dom:
        return False if carried else None
    for cblk in carried:
        if not any(body.dominates(body.term(j)["target"], cblk) or body.term(j)["target"] == cblk for j in dom):
            return False
    return True


def r_slot_provenance(F, V):
    R = Result("R-SLOT-PROVENANCE", F.cfg)
    allowed = ("raw::RawTableInner::fix_insert_slot", "raw::RawTable::remove")
    n = 0
    for p, body in F.bodies.items():
        for i, k, s in body.stmts():
            if s["k"] == "assign" and s["rv"]["k"] == "aggregate" and s["rv"].get("adt") == SLOT:
                n += 1
                key = "%s|InsertSlot{}" % p
                erased_here = _slot_of_erased_bucket(body, i, s)
                if p in allowed and erased_here is not False:
                    R.inst(key, "InsertSlot constructed in its designated constructor", "ok", False, where(body, stmt=s))
                elif erased_here is True:
                    R.inst(key, "InsertSlot names a bucket that was erased just before in the same body (control bytes it carries are read after the erase)", "ok", True, where(body, stmt=s))
                elif erased_here is False:
                    R.violation(key, body, "an InsertSlot is built for a bucket that this body erases, but a control byte it carries is read before the erase: it still holds the removed element's own tag, so re-inserting through the slot accounts growth_left against a FULL byte (the free-slot count drifts)", line=line_of(body, stmt=s))
                    R.inst(key, "stale control byte in InsertSlot", "violation", True, where(body, stmt=s))
                else:
                    R.violation(key, body, "an InsertSlot is constructed outside fix_insert_slot / remove: a slot that bypasses the small-table fix-up can name an occupied bucket (an element would be overwritten)", line=line_of(body, stmt=s))
                    R.inst(key, "foreign InsertSlot construction", "violation", True, where(body, stmt=s))
    m = 0
    for p, body in F.bodies.items():
        for i, t in body.calls():
            if not (callee_path(t) or "").endswith("find_insert_slot_in_group"):
                continue
            m += 1
            key = "%s|find_insert_slot_in_group" % p
            # the index found must reach fix_insert_slot: some fix_insert_slot call has it among its sources
            ok = False
            for j, t2 in body.calls():
                if (callee_path(t2) or "").endswith("fix_insert_slot") and len(t2["args"]) >= 2:
                    S = sources(body, t2["args"][1])
                    if any(bb == i for c, lst in list(S.calls.items()) + list(S.via.items()) for bb, _ in lst):
                        ok = True
            if not ok and "::{closure" in p:
                # the search step sits in a closure handed to an iterator adaptor (`.find_map(|probe_seq| ..)`): its result is the
                # closure's return value, and the adaptor's result must reach fix_insert_slot in the enclosing function
                Sr = sources(body, {"k": "copy", "p": {"l": 0}})
                if any(bb == i for c, lst in list(Sr.calls.items()) + list(Sr.via.items()) for bb, _ in lst):
                    pb = F.bodies.get(p.rsplit("::{closure", 1)[0])
                    if pb is not None:
                        for j, t2 in pb.calls():
                            if (callee_path(t2) or "").endswith("fix_insert_slot") and len(t2["args"]) >= 2:
                                S2 = sources(pb, t2["args"][1])
                                for c, lst in S2.calls.items():
                                    for bb2, t3 in lst:
                                        for a in t3["args"]:
                                            if a["k"] in ("copy", "move") and pb.locals[a["p"]["l"]]["ty"].get("k") == "closure" and pb.locals[a["p"]["l"]]["ty"].get("path") == p:
                                                ok = True
            if ok:
                R.inst(key, "the index from find_insert_slot_in_group flows into fix_insert_slot", "ok", True, where(body, bb=i))
            else:
                R.violation(key, body, "the index found by find_insert_slot_in_group does not pass through fix_insert_slot: on tables smaller than a group it may point at a FULL bucket", line=line_of(body, bb=i))
                R.inst(key, "fix-up bypassed", "violation", True, where(body, bb=i))
    R.floor("InsertSlot construction sites", n, {"posctl": 0}.get(F.cfg, 2))
    R.floor("find_insert_slot_in_group call sites", m, {"posctl": 0}.get(F.cfg, 2))
    return R


# --------------------------------------------------------------------- R-SLOT-FRESH / R-BUCKET-FRESH

SLOT_SOURCES = ("find_or_find_insert_slot", "find_insert_slot", "RawTable::remove", "find_or_find_insert_slot_inner")


def _table_mutator_calls(F, V, body, root):
    """calls that take a &mut borrow of (a part of) `root` and may change the table's layout or accounting."""
    mk = mutation_kinds(V, F)
    out = []
    for i, t in body.calls():
        cp = callee_path(t)
        if cp is None or cp not in F.bodies:
            continue
        cb = F.bodies[cp]
        for q, a in enumerate(t["args"]):
            if a["k"] not in ("copy", "move") or q >= cb.arg_count:
                continue
            pty = cb.locals[q + 1]["ty"]
            if not (pty.get("k") == "ref" and pty.get("mut")):
                continue
            r, path = deep_root(body, a["p"])
            if r != root:
                continue
            inner = pty["inner"]
            if inner.get("k") == "adt" and inner["path"] in ("raw::RawTable", "raw::RawTableInner", "map::HashMap", "set::HashSet", "table::HashTable"):
                if mk.get(cp) or _may_realloc(F, cp):
                    out.append((i, cp))
    return out


_REALLOC = {}


def _may_realloc(F, cp):
    if cp not in _REALLOC or _REALLOC.get("_F") is not F:
        if _REALLOC.get("_F") is not F:
            _REALLOC.clear()
            _REALLOC["_F"] = F
        reach = F.reachable_fns(cp)
        _REALLOC[cp] = any(x.endswith("RawTableInner::resize_inner") or x.endswith("RawTableInner::rehash_in_place") or x.endswith("RawTableInner::free_buckets") or x.endswith("RawTableInner::drop_inner_table") for x in reach)
    return _REALLOC[cp]


def r_slot_fresh(F, V):
    R = Result("R-SLOT-FRESH", F.cfg)
    n = 0
    for p, body in F.bodies.items():
        for c, t in body.calls():
            if not (callee_path(t) or "").endswith("RawTable::insert_in_slot") or len(t["args"]) < 3:
                continue
            n += 1
            key = "%s|insert_in_slot" % p
            root, _ = operand_deep_root(body, t["args"][0])
            S = sources(body, t["args"][2], follow_phi=False)
            src_blocks = set()
            for cp, lst in S.calls.items():
                if any(cp.endswith(x) for x in SLOT_SOURCES):
                    src_blocks.update(bb for bb, _ in lst)
            if not src_blocks and not S.args:
                R.violation(key, body, "the InsertSlot passed to insert_in_slot does not come from a slot search in this body", line=line_of(body, bb=c))
                continue
            bad = None
            for (m, mcp) in _table_mutator_calls(F, V, body, root):
                if m == c or m in src_blocks:
                    continue
                if any(mcp.endswith(x) for x in SLOT_SOURCES):
                    continue
                if c not in _reach_after(body, m):
                    continue
                # is there a path m -> c that does not pass a slot search again?
                if not src_blocks:
                    reach = _reach_after(body, m)
                else:
                    # (not following edges that contradict a flag the body sets itself, e.g. the `true` an inlined helper returns
                    # exactly when it has grown the table)
                    reach = body.reachable_from_flags(m, tuple(src_blocks))
                if c in reach and any(m in _reach_after(body, sb) or not src_blocks for sb in src_blocks or [None]):
                    bad = (m, mcp)
            if bad:
                R.violation(key, body, "between the search that produced the InsertSlot and insert_in_slot the table can be mutated by %s without the slot being searched again: the slot may now hold an element (overwritten without drop) or lie outside the table" % bad[1],
                            line=line_of(body, bb=bad[0]))
                R.inst(key, "stale InsertSlot", "violation", True, where(body, bb=bad[0]))
            else:
                R.inst(key, "InsertSlot is consumed before any other mutation of the table (or searched again after it)", "ok", True, where(body, bb=c))
    # old_ctrl is read at insert time
    b = F.bodies.get("raw::RawTable::insert_in_slot")
    if b is None:
        R.undec("raw::RawTable::insert_in_slot not found")
    else:
        ok = False
        for i, t in b.calls():
            if (callee_path(t) or "").endswith("record_item_insert_at"):
                # the old control byte is whichever argument (or struct operand) is loaded through ctrl(index) here
                for a in t["args"][1:]:
                    Sa = sources(b, a)
                    if Sa.has_call("RawTableInner::ctrl"):
                        ok = True
                    # ... or it travels inside the InsertSlot: then every constructor of an InsertSlot must have loaded it
                    carried = [n_ for n_, adt_ in Sa.loads if adt_ == SLOT and n_ != "index"]
                    if carried:
                        bad_sites = []
                        for p2, b2 in F.bodies.items():
                            for i2, k2, s2 in b2.stmts():
                                if s2["k"] == "assign" and s2["rv"]["k"] == "aggregate" and s2["rv"].get("adt") == SLOT and carried[0] in (s2["rv"].get("fields") or []):
                                    op2 = s2["rv"]["ops"][s2["rv"]["fields"].index(carried[0])]
                                    if not sources(b2, op2).has_call("RawTableInner::ctrl"):
                                        bad_sites.append((p2, b2, s2))
                        if bad_sites:
                            p2, b2, s2 = bad_sites[0]
                            R.violation("%s|InsertSlot.%s" % (p2, carried[0]), b2, "the control byte an InsertSlot carries to insert_in_slot (field `%s`) is not loaded from ctrl(index) where the slot is built in %s: the insertion is accounted against a made-up tag, so growth_left drifts" % (carried[0], p2), line=line_of(b2, stmt=s2))
                        ok = True
        if not ok:
            # record_item_insert_at written out in place: growth_left -= special_is_empty(<byte loaded from ctrl(slot.index)>)
            for i2, k2, s2 in b.stmts():
                if s2["k"] == "assign" and (last_field(s2["p"]) or {}).get("name") == "growth_left":
                    S2 = sources(b, rv_operands(s2["rv"])[0]) if s2["rv"]["k"] == "use" else None
                    allS = [sources(b, o) for o in rv_operands(s2["rv"])] + [sources(b, {"k": "copy", "p": {"l": o["p"]["l"]}}) for o in rv_operands(s2["rv"]) if o["k"] in ("copy", "move") and not o["p"].get("proj")]
                    for Sx in allS:
                        for c_, lst_ in Sx.calls.items():
                            if c_.endswith("Tag::special_is_empty"):
                                for bb_, t_ in lst_:
                                    if any(sources(b, a_).has_call("RawTableInner::ctrl") for a_ in t_["args"]):
                                        ok = True
        if ok:
            R.inst("raw::RawTable::insert_in_slot|old_ctrl", "old control byte is loaded from ctrl(slot.index) at insert time (remove-then-reinsert re-accounts growth_left)", "ok", True, where(b))
        else:
            R.violation("raw::RawTable::insert_in_slot|old_ctrl", b, "insert_in_slot does not read the slot's current control byte when accounting for the insertion")
    R.floor("insert_in_slot call sites", n, {"posctl": 0}.get(F.cfg, 5))
    return R


BUCKET_SOURCES = ("RawTable::find", "RawTable::find_or_find_insert_slot", "RawTable::get_mut", "RawTable::get", "RawTableInner::find_inner", "RawTable::insert", "RawTable::insert_no_grow", "RawTable::bucket")


def r_bucket_fresh(F, V):
    """a Bucket obtained from a lookup must not be used after a call that can move or free the table's storage."""
    R = Result("R-BUCKET-FRESH", F.cfg)
    n = 0
    for p, body in F.bodies.items():
        if p.startswith("raw::RawTableInner::") or p.startswith("raw::RawIter") or p.startswith("raw::Bucket"):
            continue
        # locals of type Bucket<T> / Option<Bucket<T>> / Result<Bucket, InsertSlot> defined by a lookup call
        srcs = []
        for i, t in body.calls():
            cp = callee_path(t) or ""
            if any(cp.endswith(x) for x in BUCKET_SOURCES) and "raw::Bucket<" in body.locals[t["dest"]["l"]]["ty"]["s"] and t["args"]:
                root, _ = operand_deep_root(body, t["args"][0])
                srcs.append((i, t, root))
        if not srcs:
            continue
        for (i, t, root) in srcs:
            if root is None:
                continue
            movers = [(m, mcp) for (m, mcp) in _table_mutator_calls(F, V, body, root) if _may_realloc(F, mcp) and m != i and m in _reach_after(body, i)]
            if not movers:
                n += 1
                R.inst("%s|bucket@bb%d" % (p, i), "no storage-moving call follows the lookup", "ok", False, where(body, bb=i))
                continue
            n += 1
            dest = t["dest"]["l"]
            # uses of the bucket value after a mover
            derived = {dest}
            changed = True
            while changed:
                changed = False
                for bi, bk, s in body.stmts():
                    if s["k"] == "assign" and not s["p"].get("proj"):
                        for o in rv_operands(s["rv"]) + ([{"k": "copy", "p": s["rv"]["p"]}] if s["rv"]["k"] in ("ref", "discriminant") else []):
                            if o["k"] in ("copy", "move") and o["p"]["l"] in derived and s["p"]["l"] not in derived:
                                if "Bucket<" in body.locals[s["p"]["l"]]["ty"]["s"]:
                                    derived.add(s["p"]["l"])
                                    changed = True
            bad = None
            for (m, mcp) in movers:
                # blocks that can run after the mover WITHOUT the lookup itself running again in between (in a loop the next
                # iteration's lookup yields a fresh bucket)
                after = body.reachable_from_flags(m, (i,))
                for bi in after:
                    blk = body.blocks[bi]
                    uses = []
                    for s in blk["stmts"]:
                        if s["k"] == "assign":
                            for o in rv_operands(s["rv"]):
                                if o["k"] in ("copy", "move") and o["p"]["l"] in derived and s["rv"]["k"] == "aggregate":
                                    uses.append("stored into %s" % (s["rv"].get("adt") or s["rv"]["kind"]))
                    tt = blk["term"]
                    if tt["k"] == "call":
                        for a in tt["args"]:
                            if a["k"] in ("copy", "move") and body.root_of_place(a["p"])[0] in derived and (callee_path(tt) or "").startswith("raw::"):
                                uses.append("passed to %s" % callee_path(tt))
                    if uses:
                        # the lookup must not have been repeated in between
                        redo = [j for (j, _, _) in srcs if j != i and j in after]
                        if not any(bi in _reach_after(body, j) for j in redo):
                            bad = (m, mcp, bi, uses[0])
            key = "%s|bucket@%s" % (p, (callee_path(t) or "").split("::")[-1])
            if bad:
                R.violation(key, body, "a Bucket obtained from %s is %s after %s, which can rehash, grow or free the table: the bucket dangles (writes are lost / out-of-bounds)" % (callee_path(t), bad[3], bad[1]),
                            line=line_of(body, bb=bad[2]), lookup_at=where(body, bb=i), mover_at=where(body, bb=bad[0]))
                R.inst(key, "bucket used after a storage-moving call", "violation", True, where(body, bb=bad[2]))
            else:
                R.inst(key, "bucket from %s is not used after a storage-moving call" % (callee_path(t) or "").split("::")[-1], "ok", True, where(body, bb=i))
    R.floor("lookups yielding a Bucket", n, {"posctl": 0}.get(F.cfg, 20))
    return R


# --------------------------------------------------------------------- R-RESERVE-FIRST

def r_reserve_first(F, V):
    R = Result("R-RESERVE-FIRST", F.cfg)
    b = F.bodies.get("raw::RawTable::find_or_find_insert_slot")
    if not b:
        R.undec("raw::RawTable::find_or_find_insert_slot not found")
    else:
        res = [i for i, t in b.calls() if (callee_path(t) or "").endswith("RawTable::reserve")]
        inner = [i for i, t in b.calls() if (callee_path(t) or "").endswith("find_or_find_insert_slot_inner")]
        key = "raw::RawTable::find_or_find_insert_slot|reserve-first"
        if inner and res and all(any(b.dominates(r, i) for r in res) for i in inner):
            R.inst(key, "reserve(1) dominates the slot search: the slot handed out is backed by reserved room", "ok", True, where(b, bb=res[0]))
        else:
            R.violation(key, b, "find_or_find_insert_slot searches for an insert slot without first reserving room: the returned slot is later filled without growing (at full load: growth_left underflow / no EMPTY byte left)")
            R.inst(key, "slot search not dominated by reserve", "violation", True, where(b))
    # rustc_entry (feature rustc-internal-api)
    nv = 0
    for p, body in F.bodies.items():
        for i, k, s in body.stmts():
            if s["k"] == "assign" and s["rv"]["k"] == "aggregate" and s["rv"].get("adt") == "rustc_entry::RustcVacantEntry":
                nv += 1
                key = "%s|RustcVacantEntry" % p
                res = [j for j, t in body.calls() if (callee_path(t) or "").split("::")[-1] == "reserve" and t.get("target") is not None]
                if any(body.dominates(body.term(j)["target"], i) or body.term(j)["target"] == i for j in res) or \
                        (res and i not in body.reachable_from_entry_flags(tuple(res))):
                    R.inst(key, "construction of RustcVacantEntry is dominated by reserve(1)", "ok", True, where(body, stmt=s))
                else:
                    R.violation(key, body, "a RustcVacantEntry is created without reserve(1) having run: its insert uses insert_no_grow, which trusts that room exists", line=line_of(body, stmt=s))
                    R.inst(key, "vacant entry without reserved room", "violation", True, where(body, stmt=s))
    callers = set()
    for p, body in F.bodies.items():
        for i, t in body.calls():
            if (callee_path(t) or "").endswith("RawTable::insert_no_grow"):
                callers.add(p)
    allowed = ("rustc_entry::RustcVacantEntry::insert", "rustc_entry::RustcVacantEntry::insert_entry")
    for c in sorted(callers):
        if c in allowed:
            R.inst("%s|insert_no_grow" % c, "insert_no_grow called from a RustcVacantEntry method", "ok", False)
        else:
            R.violation("%s|insert_no_grow" % c, F.bodies[c], "insert_no_grow (no growth check) is called from %s; only RustcVacantEntry::{insert, insert_entry}, whose creation reserved room, may" % c)
    if F.cfg in ("all", "all-generic", "rustc-internal-api", "all-release-shape"):
        R.floor("RustcVacantEntry construction sites", nv, 1)
        R.floor("insert_no_grow callers", len(callers), 2)
    return R


# --------------------------------------------------------------------- R-RESERVE-GUARD

def r_reserve_guard(F, V):
    R = Result("R-RESERVE-GUARD", F.cfg)
    n = 0
    for p, body in F.bodies.items():
        for i, t in body.calls():
            if not (callee_path(t) or "").endswith("RawTable::reserve_rehash"):
                continue
            n += 1
            key = "%s|reserve_rehash" % p
            if p not in ("raw::RawTable::reserve", "raw::RawTable::try_reserve"):
                R.violation(key, body, "reserve_rehash is called from %s: growth must go through reserve/try_reserve, which test the remaining room first" % p, line=line_of(body, bb=i))
                continue
            ok = False
            add_l = [l for l in range(1, body.arg_count + 1) if body.locals[l].get("name") == "additional"] or [2]
            for (b, s, S) in controlling_sources(body, i):
                rel = _relation(body, b, s, lambda Sx: bool(set(add_l) & Sx.args), lambda Sx: Sx.has_load("growth_left"))
                if rel == ">":
                    ok = True
                elif rel is not None and ok is not True:
                    ok = rel
            if ok is True:
                R.inst(key, "reserve_rehash is executed exactly when additional > growth_left", "ok", True, where(body, bb=i))
            else:
                R.violation(key, body, "reserve_rehash is not guarded by `additional > growth_left`%s: the table is rehashed/grown although the requested room is available (allocation while capacity() - len() > 0), or not grown when it must" % ((" (it runs when additional %s growth_left)" % ok) if ok else ""), line=line_of(body, bb=i))
                R.inst(key, "growth not guarded by the remaining room", "violation", True, where(body, bb=i))
    b = F.bodies.get("raw::RawTable::insert")
    if not b:
        R.undec("raw::RawTable::insert not found")
    else:
        for i, t in b.calls():
            if (callee_path(t) or "").endswith("RawTable::reserve"):
                key = "raw::RawTable::insert|reserve"
                gl = emp = False
                for (bb, s, S) in controlling_sources(b, i):
                    if S.has_load("growth_left") and ({"Eq", "Ne"} & S.binops) and any(c.get("val") == 0 for c in S.consts):
                        # the edge taken towards reserve is the one on which growth_left == 0 (however the test is spelled:
                        # `growth_left == 0 && ..`, `!(.. || growth_left != 0)`)
                        rel = _relation(b, bb, s, lambda Sx: Sx.has_load("growth_left"), lambda Sx: any(c.get("val") == 0 for c in Sx.consts) and not Sx.loads)
                        if rel in (None, "=="):
                            gl = True
                    if S.has_call("Tag::special_is_empty"):
                        emp = True
                if gl and emp:
                    R.inst(key, "reserve(1) in insert is control-dependent on growth_left == 0 && special_is_empty(old_ctrl)", "ok", True, where(b, bb=i))
                else:
                    R.violation(key, b, "in RawTable::insert the growth is not conditioned on `growth_left == 0 && old_ctrl is EMPTY` (growth_left test: %s, EMPTY test: %s): inserting into a tombstone must not grow, inserting into an EMPTY slot with no room left must" % (gl, emp), line=line_of(b, bb=i))
                    R.inst(key, "wrong growth condition in insert", "violation", True, where(b, bb=i))
    for cap in ("raw::RawTable::capacity",):
        b = F.bodies.get(cap)
        if not b:
            R.undec("%s not found" % cap)
            continue
        S = None
        for r in b.returns:
            pass
        ops = []
        for i, k, s in b.stmts():
            if s["k"] == "assign" and s["p"]["l"] == 0:
                ops += rv_operands(s["rv"])
        loads = set()
        for o in ops:
            S = sources(b, o)
            loads |= set(n for n, _ in S.loads)
        if {"items", "growth_left"} <= loads:
            R.inst(cap, "capacity() = items + growth_left", "ok", True, where(b))
        else:
            R.violation(cap + "|shape", b, "capacity() is not computed from items and growth_left (depends on %s)" % sorted(loads))
    R.floor("reserve_rehash call sites", n, {"posctl": 0}.get(F.cfg, 2))
    return R


def _relation(body, b, succ, is_lhs, is_rhs):
    """the switch of block b compares X (is_lhs) with Y (is_rhs); return the relation `X rel Y` that holds on the
    edge b->succ, normalised to one of > >= < <= == != ; None if the branch is not such a comparison."""
    t = body.term(b)
    if t["k"] != "switch" or t["discr"]["k"] not in ("copy", "move"):
        return None
    o = t["discr"]
    neg = False
    rv = None
    for _ in range(12):
        d = body.single_def(o["p"]["l"]) if o["k"] in ("copy", "move") and not o["p"].get("proj") else None
        if not d:
            return None
        if d[0] == "call":
            cp = callee_path(d[3]) or ""
            from core import PASS_THROUGH
            if cp in PASS_THROUGH:
                o = d[3]["args"][0]
                continue
            return None
        r = d[3]["rv"]
        if r["k"] == "use":
            o = r["op"]
        elif r["k"] == "unop" and r["op"] == "Not":
            neg = not neg
            o = r["a"]
        elif r["k"] == "binop" and r["op"] in ("Gt", "Ge", "Lt", "Le", "Eq", "Ne"):
            rv = r
            break
        else:
            return None
    if rv is None:
        return None
    Sa, Sb = sources(body, rv["a"]), sources(body, rv["b"])
    op = rv["op"]
    if is_lhs(Sa) and is_rhs(Sb):
        pass
    elif is_lhs(Sb) and is_rhs(Sa):
        op = {"Gt": "Lt", "Ge": "Le", "Lt": "Gt", "Le": "Ge", "Eq": "Eq", "Ne": "Ne"}[op]
    else:
        return None
    zero = [bb for v, bb in t["targets"] if v == 0]
    truth = succ not in zero
    if neg:
        truth = not truth
    if not truth:
        op = {"Gt": "Le", "Ge": "Lt", "Lt": "Ge", "Le": "Gt", "Eq": "Ne", "Ne": "Eq"}[op]
    return {"Gt": ">", "Ge": ">=", "Lt": "<", "Le": "<=", "Eq": "==", "Ne": "!="}[op]


# --------------------------------------------------------------------- R-REHASH-DECISION

def r_rehash_decision(F, V):
    R = Result("R-REHASH-DECISION", F.cfg)
    b = F.bodies.get("raw::RawTableInner::reserve_rehash_inner")
    if not b:
        R.undec("raw::RawTableInner::reserve_rehash_inner not found")
        return R
    rip = [i for i, t in b.calls() if (callee_path(t) or "").endswith("rehash_in_place")]
    rsz = [i for i, t in b.calls() if (callee_path(t) or "").endswith("resize_inner")]
    key = "raw::RawTableInner::reserve_rehash_inner|decision"
    if not rip or not rsz:
        R.violation(key, b, "reserve_rehash_inner must be able to reach BOTH rehash_in_place (reclaim tombstones) and resize_inner (grow); found in-place=%s resize=%s: %s" % (bool(rip), bool(rsz),
                    "memory grows without bound under insert/remove churn" if not rip else "the table can never grow"))
        R.inst(key, "one of the two growth strategies is unreachable", "violation", True, where(b))
        return R
    # both on opposite arms of one comparison
    decided = None
    for i in b.normal:
        t = b.term(i)
        if t["k"] != "switch" or len(b.nsucc[i]) < 2:
            continue
        arms = [b.reachable_from(s) for s in b.nsucc[i]]
        a_rip = [any(x in arm for x in rip) for arm in arms]
        a_rsz = [any(x in arm for x in rsz) for arm in arms]
        if any(a_rip[k] and not a_rsz[k] for k in range(len(arms))) and any(a_rsz[k] and not a_rip[k] for k in range(len(arms))):
            decided = i
    if decided is None:
        R.violation(key, b, "rehash_in_place and resize_inner are not on opposite arms of one comparison")
        return R
    from cond import sources_x
    S = sources_x(F, b, b.term(decided)["discr"])
    problems = []
    if not S.has_load("items"):
        problems.append("the decision does not depend on the number of live items")
    if S.has_load("growth_left"):
        problems.append("the decision depends on growth_left, which tombstones consume: a table full of tombstones would always grow instead of being rehashed in place")
    if "additional" not in S.arg_names:
        problems.append("the decision does not depend on the requested additional room")
    if not S.has_call("bucket_mask_to_capacity"):
        problems.append("the decision is not made against bucket_mask_to_capacity(bucket_mask)")
    # the comparison itself: one side is derived from the table's capacity (half of it), the other side is the number of
    # elements to hold and must not itself depend on the capacity - `max(new_items, capacity + 1) <= capacity / 2` can never
    # hold, so tombstones would never be reclaimed in place
    ncmp = 0
    for i in b.normal:
        rv = _cmp_rvalue(b, i)
        if rv is None:
            continue
        Sa, Sb = sources_x(F, b, rv["a"]), sources_x(F, b, rv["b"])
        capdep = [x.has_call("bucket_mask_to_capacity") or x.has_load("bucket_mask") for x in (Sa, Sb)]
        if not any(capdep):
            continue
        ncmp += 1
        if all(capdep):
            problems.append("both sides of the in-place / resize comparison depend on the table's capacity: the number of elements to hold (items + additional) must be compared against half the capacity, nothing else")
        else:
            other = Sb if capdep[0] else Sa
            if not other.has_load("items") or "additional" not in other.arg_names:
                problems.append("the quantity compared against the capacity is not items + additional")
    if ncmp == 0:
        problems.append("no comparison against bucket_mask_to_capacity(bucket_mask) found")
    if problems:
        R.violation(key, b, "; ".join(problems), line=line_of(b, bb=decided))
        R.inst(key, "; ".join(problems), "violation", True, where(b, bb=decided))
    else:
        R.inst(key, "in-place rehash vs resize decided by comparing items + additional against bucket_mask_to_capacity(bucket_mask)", "ok", True, where(b, bb=decided))
    return R


def _cmp_rvalue(body, b):
    """the comparison rvalue that decides the switch of block b (through copies, `!` and likely/unlikely), or None"""
    t = body.term(b)
    if t["k"] != "switch" or t["discr"]["k"] not in ("copy", "move"):
        return None
    o = t["discr"]
    for _ in range(12):
        d = body.single_def(o["p"]["l"]) if o["k"] in ("copy", "move") and not o["p"].get("proj") else None
        if not d:
            return None
        if d[0] == "call":
            from core import PASS_THROUGH
            if (callee_path(d[3]) or "") in PASS_THROUGH:
                o = d[3]["args"][0]
                continue
            return None
        r = d[3]["rv"]
        if r["k"] == "use":
            o = r["op"]
        elif r["k"] == "unop" and r["op"] == "Not":
            o = r["a"]
        elif r["k"] == "binop" and r["op"] in ("Gt", "Ge", "Lt", "Le", "Eq", "Ne"):
            return r
        else:
            return None
    return None


# --------------------------------------------------------------------- R-ENTRY-NOEFFECT

ENTRY_ROOTS_PURE = ["map::HashMap::entry", "map::HashMap::entry_ref", "map::HashMap::raw_entry", "map::HashMap::raw_entry_mut",
                    "raw_entry::RawEntryBuilderMut::from_key", "raw_entry::RawEntryBuilderMut::from_key_hashed_nocheck", "raw_entry::RawEntryBuilderMut::from_hash",
                    "raw_entry::RawEntryBuilderMut::search", "table::HashTable::find_entry", "set::HashSet::entry"]
ENTRY_ROOTS_RESERVE = ["table::HashTable::entry", "rustc_entry::HashMap::rustc_entry"]


def r_entry_noeffect(F, V):
    R = Result("R-ENTRY-NOEFFECT", F.cfg)
    mk = mutation_kinds(V, F)
    n = 0
    for root in ENTRY_ROOTS_PURE + ENTRY_ROOTS_RESERVE:
        if root not in F.bodies:
            continue
        n += 1
        stop = ()
        if root in ENTRY_ROOTS_RESERVE:
            stop = ("raw::RawTable::reserve", "raw::RawTable::reserve_rehash")
        reach = F.reachable_fns(root, stop=stop)
        dirty = sorted(p for p in reach if any(True for s in partial_op_sites(V, F.bodies[p])))
        if dirty:
            R.violation("%s|mutates" % root, F.bodies[root], "creating an entry through %s can reach a primitive table mutation (%s)%s: a Vacant entry that is dropped unused must leave contents and len() unchanged" % (root, dirty[0], " other than through reserve" if stop else ""))
            R.inst(root, "entry creation reaches a mutation", "violation", True)
        else:
            R.inst(root, "no primitive table mutation reachable%s (%d bodies)" % (" except through reserve" if stop else "", len(reach)), "ok", True)
    R.floor("entry constructors", n, {"posctl": 0}.get(F.cfg, 5))
    return R


# --------------------------------------------------------------------- R-EQ-NOEFFECT

def r_eq_noeffect(F, V):
    """no store to accounting state is control dependent on an eq/is_match callback result, except
    through the Option/Result returned by the lookup functions."""
    R = Result("R-EQ-NOEFFECT", F.cfg)
    n = 0
    for p, body in F.bodies.items():
        if not p.startswith("raw::"):
            continue
        sites = [s for s in partial_op_sites(V, body) if s["kinds"] & {"items", "growth_left", "ctrl"}]
        if not sites:
            continue
        for s in sites:
            for (b, succ, S) in controlling_sources(body, s["bb"]):
                if S.indirect:
                    # which callback? hashers are u64-valued, eq are bool-valued: the switch discriminant type tells
                    t = body.term(b)
                    if t.get("discr_t") == "bool":
                        n += 1
                        R.violation("%s|%s" % (p, s["desc"]), body, "the accounting update `%s` is control-dependent on the boolean answer of a user callback (eq): an unlawful Eq could desynchronise items/growth_left/control bytes" % s["desc"], line=line_of(body, bb=s["bb"]))
    R.inst("raw::*", "no accounting store in the raw module is control-dependent on a user eq answer", "ok", True)
    return R


# --------------------------------------------------------------------- R-SHRINK-DECISION

def r_shrink_decision(F, V):
    """whether shrink_to re-allocates must depend on the live item count, the request and the bucket count only -
    never on growth_left / capacity(), which tombstones reduce."""
    R = Result("R-SHRINK-DECISION", F.cfg)
    b = F.bodies.get("raw::RawTable::shrink_to")
    if b is None:
        R.undec("raw::RawTable::shrink_to not found")
        return R
    acts = [i for i, t in b.calls() if (callee_path(t) or "").endswith("RawTable::resize") or (callee_path(t) or "").endswith("RawTableInner::with_capacity") or (callee_path(t) or "") == "core::mem::replace"]
    if not acts:
        R.undec("shrink_to: no resize / with_capacity / mem::replace call found")
        return R
    bad = None
    seen_buckets = False
    for a in acts:
        for (bb, s, S) in controlling_sources(b, a):
            if S.has_load("growth_left") or S.has_call("::capacity"):
                bad = (bb, "growth_left / capacity()")
            if S.has_call("::buckets") or S.has_load("bucket_mask"):
                seen_buckets = True
    # every act that ALLOCATES (resize / with_capacity) happens only where fewer buckets are needed than are held:
    # it is control dependent on the edge `capacity_to_buckets(min_size) < self.buckets()`, so shrink_to never enlarges
    # the allocation (and never asks for a capacity that overflows)
    key2 = "raw::RawTable::shrink_to|never-enlarges"
    allocs = [i for i, t in b.calls() if (callee_path(t) or "").endswith("RawTable::resize") or (callee_path(t) or "").endswith("RawTableInner::with_capacity")
              or (callee_path(t) or "").endswith("::fallible_with_capacity") or (callee_path(t) or "").endswith("::new_uninitialized")]
    is_need = lambda S: S.has_call("capacity_to_buckets")
    is_have = lambda S: (S.has_call("::buckets") or S.has_load("bucket_mask")) and not S.has_call("capacity_to_buckets")
    unguarded = []
    for a in allocs:
        rels = [_relation(b, bb, s, is_need, is_have) for (bb, s) in b.control_deps_trans(a, "all")]
        if "<" not in rels:
            unguarded.append((a, [r for r in rels if r]))
    if not allocs:
        R.undec("shrink_to: no allocating call (resize / with_capacity) found")
    elif unguarded:
        a, rels = unguarded[0]
        R.violation(key2, b, "shrink_to can allocate a replacement table (%s) on a path that is not guarded by `needed buckets < current buckets` (relations found on the controlling branches: %s): "
                    "for a request above the current capacity it would ENLARGE the allocation (or panic with a capacity overflow for a huge request) instead of doing nothing"
                    % ((callee_path(b.term(a)) or "").split("::")[-1], rels or "none"), line=line_of(b, bb=a))
        R.inst(key2, "allocation not guarded by needed < held", "violation", True, where(b, bb=a))
    else:
        R.inst(key2, "all %d allocating calls are control dependent on capacity_to_buckets(min_size) < buckets()" % len(allocs), "ok", True, where(b, bb=allocs[0]))
    key = "raw::RawTable::shrink_to|decision"
    if bad:
        R.violation(key, b, "the decision to shrink depends on %s, which every tombstone reduces: a table saturated with tombstones is never shrunk although few elements are live" % bad[1], line=line_of(b, bb=bad[0]))
        R.inst(key, "shrink decision depends on tombstones", "violation", True, where(b, bb=bad[0]))
    elif not seen_buckets:
        R.violation(key, b, "the decision to shrink does not compare bucket counts (capacity_to_buckets(min_size) against buckets())")
    else:
        R.inst(key, "shrinking is decided on items / requested size / bucket count only", "ok", True, where(b))
    return R
