"""Rules of DESIGN.md section 4.A: accounting and panic windows.
R-DROPGLUE, R-LINK, R-WINDOW, R-BULKDROP-GUARD, R-ACCT, R-FIELD-IMMUT, R-CTRL-WRITE."""
from core import callee_path, last_field, rv_operands
from vocab import INNER, TAG_T, SCOPEGUARD
from rules.base import Result, where, line_of

# primitive partial operations that are calls (DESIGN 3.3). suffix match on the resolved callee.
PRIM_CALLS = (
    "raw::RawTableInner::set_ctrl",
    "raw::RawTableInner::set_ctrl_hash",
    "raw::RawTableInner::replace_ctrl_hash",
    "raw::RawTableInner::prepare_insert_slot",
    "raw::RawTableInner::prepare_rehash_in_place",
    "raw::RawTableInner::record_item_insert_at",
    "raw::Bucket::write",
)
CTRL_BULK_EXT = (
    "core::ptr::mut_ptr::*mut T::copy_to",
    "core::ptr::mut_ptr::*mut T::copy_to_nonoverlapping",
    "core::ptr::mut_ptr::*mut T::copy_from",
    "core::ptr::mut_ptr::*mut T::copy_from_nonoverlapping",
    "core::ptr::const_ptr::*const T::copy_to",
    "core::ptr::const_ptr::*const T::copy_to_nonoverlapping",
    "core::ptr::mut_ptr::*mut T::write_bytes",
    "core::ptr::mut_ptr::*mut T::write",
    "core::ptr::copy",
    "core::ptr::copy_nonoverlapping",
    "core::ptr::write_bytes",
    "core::ptr::write",
    "core::intrinsics::copy",
    "core::intrinsics::copy_nonoverlapping",
    "core::intrinsics::write_bytes",
)

DEREF_FNS = ("core::ops::deref::Deref::deref", "core::ops::deref::DerefMut::deref_mut")
ACCESSOR_FNS = (
    "raw::RawTableInner::ctrl",
    "raw::RawTableInner::ctrl_slice",
    "raw::RawTableInner::bucket",
    "raw::RawTableInner::bucket_ptr",
    "raw::RawTable::bucket",
    "raw::Bucket::as_ptr",
    "raw::Bucket::as_mut",
    "raw::Bucket::as_ref",
    "core::ptr::mut_ptr::*mut T::add",
    "core::ptr::mut_ptr::*mut T::sub",
    "core::ptr::mut_ptr::*mut T::cast",
    "core::ptr::non_null::NonNull::as_ptr",
    "core::ptr::non_null::NonNull::as_mut",
    "core::ptr::non_null::NonNull::as_ref",
    "core::ptr::non_null::NonNull::cast",
    "core::ptr::mut_ptr::*mut T::cast_const",
    "core::ptr::const_ptr::*const T::cast_mut",
    "core::iter::traits::collect::<I as IntoIterator>::into_iter",
)


def deep_root(body, p, depth=0):
    """root_of_place extended through Deref on ScopeGuard and accessor calls
    (ctrl(i), bucket(i), pointer arithmetic): which object does this place belong to?"""
    r, path = body.root_of_place(p)
    if depth > 20 or body.is_arg(r):
        return r, path
    ds = body.whole_defs(r)
    if len(ds) == 1 and ds[0][0] == "call":
        t = ds[0][3]
        f = t["f"]
        if f["k"] == "fn":
            decl = f["path"]
            res = f.get("resolved", decl)
            if (decl in DEREF_FNS or res in ACCESSOR_FNS or decl in ACCESSOR_FNS) and t["args"]:
                a = t["args"][0]
                if a["k"] in ("copy", "move"):
                    r2, path2 = deep_root(body, a["p"], depth + 1)
                    return r2, path2 + ["." + res.split("::")[-1]] + path
    return r, path


def operand_deep_root(body, o):
    if o["k"] in ("copy", "move"):
        return deep_root(body, o["p"])
    return None, []


def _is_tag_subst(f):
    return any(s == TAG_T for s in f.get("substs", []))


def partial_op_sites(V, body):
    """primitive partial operations in normal flow: list of dicts
    {bb, pos ('s',idx)|('t',), root, desc, kinds}"""
    out = []
    for i, bb in enumerate(body.blocks):
        if bb["cleanup"]:
            continue
        for k, s in enumerate(bb["stmts"]):
            fld = V.acct_store(s)
            if fld in ("items", "growth_left"):
                r, _ = deep_root(body, s["p"])
                out.append({"bb": i, "pos": ("s", k), "root": r, "desc": "store to %s" % fld, "kinds": {fld}, "stmt": s})
            elif V.ctrl_byte_store(s):
                r, _ = deep_root(body, s["p"])
                out.append({"bb": i, "pos": ("s", k), "root": r, "desc": "store through control-byte pointer", "kinds": {"ctrl"}, "stmt": s})
        t = bb["term"]
        if t["k"] == "call" and t["f"]["k"] == "fn":
            cp = callee_path(t)
            f = t["f"]
            if cp in PRIM_CALLS:
                r, _ = operand_deep_root(body, t["args"][0]) if t["args"] else (None, [])
                kinds = {"ctrl"} if "ctrl" in cp or "prepare" in cp else set()
                if cp.endswith("record_item_insert_at"):
                    kinds = {"items", "growth_left"}
                if cp.endswith("prepare_insert_slot"):
                    kinds = {"ctrl"}
                if cp.endswith("Bucket::write"):
                    kinds = {"data"}
                out.append({"bb": i, "pos": ("t",), "root": r, "desc": "call %s" % cp, "kinds": kinds})
            elif cp.endswith("Group::store_aligned") or cp.endswith("Group::store"):
                r, _ = operand_deep_root(body, t["args"][1]) if len(t["args"]) > 1 else (None, [])
                out.append({"bb": i, "pos": ("t",), "root": r, "desc": "call %s" % cp, "kinds": {"ctrl"}})
            elif cp in CTRL_BULK_EXT and _is_tag_subst(f):
                # destination operand: copy_to*(self=src, dst, n): dst is arg1; write_bytes/copy_from*(self=dst,...)
                di = 1 if ("copy_to" in cp or cp in ("core::ptr::copy", "core::ptr::copy_nonoverlapping", "core::intrinsics::copy", "core::intrinsics::copy_nonoverlapping")) else 0
                r, _ = operand_deep_root(body, t["args"][di]) if len(t["args"]) > di else (None, [])
                out.append({"bb": i, "pos": ("t",), "root": r, "desc": "bulk write of control bytes via %s" % cp, "kinds": {"ctrl"}})
            elif f.get("trait") == "control::tag::TagSliceExt":
                r, _ = operand_deep_root(body, t["args"][0]) if t["args"] else (None, [])
                out.append({"bb": i, "pos": ("t",), "root": r, "desc": "call %s" % cp, "kinds": {"ctrl"}})
            elif cp in ("core::mem::replace", "core::mem::swap", "core::ptr::write", "core::ptr::replace", "core::ptr::mut_ptr::*mut T::write",
                        "core::ptr::mut_ptr::*mut T::replace", "core::mem::take") and _is_tag_subst(f) and t["args"]:
                # a single control byte written through a library primitive instead of an assignment
                r, _ = operand_deep_root(body, t["args"][0])
                out.append({"bb": i, "pos": ("t",), "root": r, "desc": "store through control-byte pointer via %s" % cp, "kinds": {"ctrl"}, "call": t})
    return out


def mutation_kinds(V, F):
    """per crate body: set of accounting kinds it may mutate, transitively over crate callees."""
    if hasattr(F, "_mutkinds"):
        return F._mutkinds
    direct = {}
    for p, b in F.bodies.items():
        ks = set()
        for s in partial_op_sites(V, b):
            ks |= s["kinds"]
        direct[p] = ks
    kinds = {p: set(k) for p, k in direct.items()}
    changed = True
    cg = F.callgraph
    while changed:
        changed = False
        for p in F.bodies:
            for q in cg.get(p, ()):
                add = kinds.get(q, set()) - kinds[p]
                if add:
                    kinds[p] |= add
                    changed = True
    F._mutkinds = kinds
    return kinds


def place_type(body, p):
    if p.get("proj"):
        return p.get("t", "")
    return body.locals[p["l"]]["ty"]["s"]


# --------------------------------------------------------------------- R-DROPGLUE

DROPFN_T = "core::option::Option<unsafe fn(*mut u8)>"


def _dropglue_branches(body):
    """blocks whose switch condition derives from the type-erased destructor
    option, NEEDS_DROP, or mem::needs_drop."""
    out = []
    for i in body.normal:
        t = body.term(i)
        if t["k"] != "switch":
            continue
        why = None
        for o in body.origins(t["discr"]):
            if o[0] == "discr" and place_type(body, o[1]) == DROPFN_T:
                why = "discriminant of the type-erased destructor Option<unsafe fn(*mut u8)>"
            elif o[0] == "const" and ("NEEDS_DROP" in (o[1].get("def") or "")):
                why = "const %s" % o[1]["def"]
            elif o[0] == "call" and (callee_path(o[2]) or "").endswith("mem::needs_drop"):
                why = "mem::needs_drop::<_>()"
            elif o[0] == "call":
                # Option::is_some / is_none on the destructor option
                cp = callee_path(o[2]) or ""
                if cp.startswith("core::option::Option::is_") and o[2]["args"]:
                    a = o[2]["args"][0]
                    if a["k"] in ("copy", "move"):
                        r, _ = body.root_of_place(a["p"])
                        if DROPFN_T in body.locals[r]["ty"]["s"]:
                            why = "Option::is_some/is_none of the type-erased destructor"
            if why:
                break
        if why:
            out.append((i, why))
    return out


def _region(body, start, stop):
    """blocks reachable from `start` without passing through `stop`."""
    avoid = () if stop is None or stop < 0 else (stop,)
    return body.reachable_from(start, avoid)


def _kinds_in_blocks(V, F, body, blocks, sites_by_bb, mk):
    ks = set()
    where_ = {}
    for b in blocks:
        for s in sites_by_bb.get(b, ()):
            for k in s["kinds"]:
                ks.add(k)
                where_.setdefault(k, (b, s["desc"]))
        t = body.term(b)
        if t["k"] == "call":
            for c in V.site_callees(body, t):
                for k in mk.get(c, ()):
                    if k not in ks:
                        where_.setdefault(k, (b, "call to %s" % c))
                    ks.add(k)
    return ks, where_


def r_dropglue(F, V):
    R = Result("R-DROPGLUE", F.cfg)
    mk = mutation_kinds(V, F)
    nbranches = 0
    for p, body in F.bodies.items():
        brs = _dropglue_branches(body)
        if not brs:
            continue
        sites = partial_op_sites(V, body)
        by_bb = {}
        for s in sites:
            by_bb.setdefault(s["bb"], []).append(s)
        ip = body.ipdom("all")
        for (b, why) in brs:
            nbranches += 1
            stop = ip.get(b)
            arms = []
            for s in body.nsucc[b]:
                reg = _region(body, s, stop)
                ks, wh = _kinds_in_blocks(V, F, body, reg, by_bb, mk)
                ks.discard("data")
                arms.append((s, ks, wh))
            allk = set().union(*[a[1] for a in arms]) if arms else set()
            bad = [(k, a) for k in allk for a in arms if k not in a[1]]
            if bad:
                ks = sorted(set(k for k, _ in bad))
                arm_with = [a for a in arms if ks[0] in a[1]][0]
                wb, wdesc = arm_with[2][ks[0]]
                R.violation(
                    "%s|%s" % (p, ",".join(ks)), body,
                    "accounting state (%s) is updated on one arm of a branch on %s but not on the other: the table is "
                    "repaired/updated only when the element type has drop glue" % (", ".join(ks), why),
                    line=line_of(body, bb=b), branch_block=b, branch_at=where(body, bb=b), update_at=where(body, bb=wb), update=wdesc)
                R.inst("%s|bb%d" % (p, b), "branch on %s" % why, "violation", True, where(body, bb=b))
            else:
                R.inst("%s|bb%d" % (p, b), "branch on %s: arms update the same accounting kinds %s" % (why, sorted(allk)), "ok", True, where(body, bb=b))
    R.floor("drop-glue branches", nbranches, {"default": 3, "nodefault": 3, "serde": 3, "rustc-internal-api": 3, "posctl": 1}.get(F.cfg, 4))
    return R


# --------------------------------------------------------------------- R-LINK

LINKS = [
    # (struct, field A, field B, writer of A from a foreign instance)
    ("map::HashMap", "table", "hash_builder", "raw::<RawTable as Clone>::clone_from"),
]


def _path_has(path, name):
    return name in path


def r_link(F, V):
    R = Result("R-LINK", F.cfg)
    n = 0
    for (adt, fa, fb, writer) in LINKS:
        if adt not in F.adts:
            R.undec("linked struct %s not found" % adt)
            continue
        fields = [f["name"] for v in F.adts[adt]["variants"] for f in v["fields"]]
        if fa not in fields or fb not in fields:
            R.undec("fields %s/%s of %s not found" % (fa, fb, adt))
            continue
        for p, body in F.bodies.items():
            for i, t in body.calls():
                if callee_path(t) != writer or len(t["args"]) < 2:
                    continue
                r0, path0 = operand_deep_root(body, t["args"][0])
                r1, path1 = operand_deep_root(body, t["args"][1])
                if fa not in path0 or r0 == r1:
                    continue
                # destination must be field A of the linked struct
                n += 1
                after = set()
                for s in body.nsucc[i]:
                    after |= body.reachable_from(s)
                # completion of B's write: assignment to .fb of root r0, or a call taking &mut self.fb
                bwrites = []
                for j in after:
                    for k, s in enumerate(body.blocks[j]["stmts"]):
                        if s["k"] == "assign":
                            lf = last_field(s["p"])
                            if lf and lf["name"] == fb and lf.get("adt") == adt and body.root_of_place(s["p"])[0] == r0:
                                bwrites.append((j, "assign"))
                    tt = body.term(j)
                    if tt["k"] == "call" and tt["args"]:
                        a0 = tt["args"][0]
                        if a0["k"] in ("copy", "move"):
                            rr, pp = body.root_of_place(a0["p"])
                            if rr == r0 and fb in pp and "&" in pp:
                                bwrites.append((j, "call"))
                cbs = [(j, d) for (j, d) in V.callback_sites(body) if j in after]
                bad = []
                for (j, d) in cbs:
                    # a callback is in the gap if some write of B is still reachable from it
                    # (or it is itself the write of B), i.e. B not yet complete
                    tt = body.term(j)
                    reach_after = set()
                    for s in body.nsucc[j]:
                        reach_after |= body.reachable_from(s)
                    pending = any(w in reach_after or w == j for (w, _) in bwrites)
                    if not bwrites:
                        pending = False  # B never written here: nothing to complete (A copied alone is R-LINK(ii) below)
                    if not pending:
                        continue
                    # drop-and-replace idiom: `self.b = new` drops the old value; the unwind edge performs the store too
                    if tt["k"] == "drop":
                        rr, pp = body.root_of_place(tt["p"])
                        if rr == r0 and fb in pp and isinstance(tt.get("unwind"), int):
                            ub = body.blocks[tt["unwind"]]
                            if any(s["k"] == "assign" and (last_field(s["p"]) or {}).get("name") == fb for s in ub["stmts"]):
                                continue
                    bad.append((j, d))
                key = "%s|%s<->%s" % (p, fa, fb)
                if not bwrites:
                    R.violation(key, body, "%s.%s is overwritten from another instance but %s.%s is never updated in this body" % (adt, fa, adt, fb),
                                line=line_of(body, bb=i))
                    R.inst(key, "foreign write of %s without write of %s" % (fa, fb), "violation", True, where(body, bb=i))
                elif bad:
                    j, d = bad[0]
                    R.violation(key, body,
                                "user code (%s) can unwind after %s.%s was overwritten from another instance and before %s.%s is updated to match: "
                                "a panic there leaves elements placed by the source's %s with the old %s" % (d, adt, fa, adt, fb, fb, fb),
                                line=line_of(body, bb=j), a_written_at=where(body, bb=i), callback_at=where(body, bb=j))
                    R.inst(key, "callback between write of %s and write of %s" % (fa, fb), "violation", True, where(body, bb=j))
                else:
                    R.inst(key, "no callback can unwind between the write of %s and the write of %s" % (fa, fb), "ok", True, where(body, bb=i))
    R.floor("foreign writers of a linked field", n, 1)
    return R


# --------------------------------------------------------------------- guards

def guard_defs(body):
    """scopeguard::guard(value, closure) calls: list of dicts {bb, local, value_roots, closure}"""
    out = []
    for i, t in body.calls():
        if callee_path(t) == "scopeguard::guard" and len(t["args"]) >= 2:
            roots = set()
            _collect_value_roots(body, t["args"][0], roots)
            clos = None
            a1 = t["args"][1]
            if a1["k"] in ("copy", "move"):
                ty = body.locals[a1["p"]["l"]]["ty"]
                if ty.get("k") == "closure":
                    clos = ty["path"]
                elif not a1["p"].get("proj"):
                    # a function item held in a local
                    d = body.single_def(a1["p"]["l"])
                    if d and d[0] == "stmt" and d[3]["k"] == "assign" and d[3]["rv"]["k"] == "use":
                        a1 = d[3]["rv"]["op"]
            if a1["k"] == "const" and isinstance(a1.get("fn"), dict) and a1["fn"].get("k") == "fn":
                # the drop function is a named function (`guard(value, helper)`): its body plays the closure's role
                fp = a1["fn"].get("resolved", a1["fn"].get("path"))
                if fp in body.facts.bodies:
                    clos = fp
            out.append({"bb": i, "local": t["dest"]["l"], "roots": roots, "closure": clos, "target": t.get("target")})
    # the same thing spelled as a struct with a destructor: a value of a crate type that is new to the rule tables, has a Drop
    # impl, and is built in this body around (a borrow of) other values - its `drop` plays the closure's role
    F = getattr(body, "facts", None)
    if F is not None:
        import inline as _inl
        known = _inl.known_fns() or set()
        for i, k, st in body.stmts():
            if st["k"] != "assign" or st["rv"]["k"] != "aggregate" or st["p"].get("proj"):
                continue
            X = st["rv"].get("adt")
            if not X or X not in F.adts or X == SCOPEGUARD:
                continue
            dp = None
            for im in F.impls:
                if im.get("trait") == "core::ops::drop::Drop" and im["self_ty"].get("k") == "adt" and im["self_ty"]["path"] == X:
                    for it in im["items"]:
                        if it["name"] == "drop":
                            dp = it["path"]
            if not dp or dp not in F.bodies or dp in known or body.path == dp:
                continue
            roots = set()
            for o in st["rv"]["ops"]:
                _collect_value_roots(body, o, roots)
            out.append({"bb": i, "local": st["p"]["l"], "roots": roots, "closure": dp, "target": i, "drop_struct": X})
    return out


def _collect_value_roots(body, o, roots, depth=0):
    if o["k"] not in ("copy", "move") or depth > 6:
        return
    r, path = deep_root(body, o["p"])
    roots.add(r)
    # aggregate (tuple) values: look at components
    ds = body.whole_defs(r)
    for d in ds:
        if d[0] == "stmt" and d[3]["k"] == "assign" and d[3]["rv"]["k"] == "aggregate":
            for x in d[3]["rv"]["ops"]:
                _collect_value_roots(body, x, roots, depth + 1)


def guard_disarms(body, glocal):
    """blocks where the guard local is moved into mem::forget / ScopeGuard::into_inner / returned."""
    out = []
    for i, t in body.calls():
        cp = callee_path(t)
        if cp in ("core::mem::forget", "scopeguard::ScopeGuard::into_inner", "core::mem::ManuallyDrop::new", "core::mem::manually_drop::ManuallyDrop::new"):
            for a in t["args"]:
                if a["k"] in ("copy", "move"):
                    r, _ = body.root_of_place(a["p"])
                    if r == glocal:
                        out.append(i)
    return out


def guard_live_at(body, g, block):
    """guard g (from guard_defs) is certainly armed when control is at `block`."""
    if g["target"] is None:
        return False
    if not body.dominates(g["target"], block) and g["target"] != block:
        return False
    for d in guard_disarms(body, g["local"]):
        after = set()
        for s in body.nsucc[d]:
            after |= body.reachable_from(s)
        if block in after:
            return False
    return True


def guard_local_of_root(body, root):
    """is `root` itself a ScopeGuard local?"""
    return body.locals[root]["ty"].get("k") == "adt" and body.locals[root]["ty"].get("path") == SCOPEGUARD


def unwinding_only_closures(F):
    """guard closures whose guard is disarmed on every normal path of the creator
    (so the closure runs only while unwinding): set of closure paths."""
    out = {}
    for p, body in F.bodies.items():
        for g in guard_defs(body):
            if not g["closure"] or g["target"] is None:
                continue
            dis = guard_disarms(body, g["local"])
            if not dis:
                continue
            # return must not be reachable from the guard definition while avoiding all disarm blocks
            reach = body.reachable_from(g["target"], tuple(dis))
            if not any(r in reach for r in body.returns):
                out[g["closure"]] = p
    return out


def fresh_local_root(body, root):
    """root is a local owned object not derived from any argument (a table built in this body)."""
    if body.is_arg(root):
        return False
    ty = body.locals[root]["ty"]
    if ty.get("k") in ("ref", "ptr"):
        return False
    return True


# --------------------------------------------------------------------- R-WINDOW

def _after(body, site_bb, pos, cb_bb):
    """callback terminator of cb_bb can execute after the partial op at (site_bb,pos)."""
    if cb_bb == site_bb and pos[0] == "s":
        return True
    for s in body.nsucc[site_bb]:
        if cb_bb in body.reachable_from(s):
            return True
    return False


def r_window(F, V):
    R = Result("R-WINDOW", F.cfg)
    uw = unwinding_only_closures(F)
    mixed = 0
    for p, body in F.bodies.items():
        sites = partial_op_sites(V, body)
        if not sites:
            continue
        cbs = V.callback_sites(body)
        if not cbs:
            continue
        mixed += 1
        if p in uw:
            R.inst("%s" % p, "guard closure that runs only during unwinding (guard disarmed on every normal path of %s): a panic inside aborts, no state is observable" % uw[p],
                   "exempt", True, where(body))
            continue
        gds = guard_defs(body)
        bad = None
        npairs = 0
        writes_ = tuple(j for j, t in body.calls() if (callee_path(t) or "") == "raw::Bucket::write")
        records_ = [x["bb"] for x in sites if x["desc"].endswith("record_item_insert_at")]
        for s in sites:
            if s["desc"].endswith("raw::Bucket::write") and any(body.dominates(r_, s["bb"]) for r_ in records_):
                continue    # the write that completes the insertion (the slot was marked FULL just before): it closes the window
            open_after = None
            if s["desc"].endswith("record_item_insert_at") and writes_:
                # insert_in_slot written out: marking the slot FULL opens a window that the write of the element closes
                open_after = set()
                for x in body.nsucc[s["bb"]]:
                    open_after |= body.reachable_from(x, writes_)
            for (cb, cdesc) in cbs:
                if not _after(body, s["bb"], s["pos"], cb):
                    continue
                if open_after is not None and cb not in open_after:
                    continue
                npairs += 1
                r = s["root"]
                ok = None
                if r is not None and guard_local_of_root(body, r):
                    g = [g for g in gds if g["local"] == r]
                    if g and guard_live_at(body, g[0], cb):
                        ok = "operation performed through live guard _%d" % r
                    elif not g:
                        # guard obtained from a callee (prepare_resize returns an armed guard)
                        dis = guard_disarms(body, r)
                        after_dis = set()
                        for d in dis:
                            for x in body.nsucc[d]:
                                after_dis |= body.reachable_from(x)
                        if cb not in after_dis:
                            ok = "operation performed through guard _%d returned armed by a callee" % r
                if ok is None and r is not None:
                    for g in gds:
                        if r in g["roots"] and guard_live_at(body, g, cb):
                            ok = "live guard _%d covers the object" % g["local"]
                            break
                if ok is None and r is not None and fresh_local_root(body, r):
                    ok = "object is a fresh local (_%d: %s) not reachable from any argument" % (r, body.locals[r]["ty"]["s"])
                if ok is None:
                    bad = (s, cb, cdesc)
                    break
            if bad:
                break
        if bad:
            s, cb, cdesc = bad
            R.violation("%s|%s" % (p, s["desc"]), body,
                        "user code (%s) can run after a primitive partial table operation (%s) with no live scope guard covering the table: "
                        "a panic there leaves the accounting inconsistent" % (cdesc, s["desc"]),
                        line=line_of(body, bb=cb), partial_op_at=where(body, bb=s["bb"]), callback_at=where(body, bb=cb))
            R.inst(p, "partial op followed by unguarded callback", "violation", True, where(body, bb=cb))
        else:
            R.inst(p, "%d (partial op, later callback) pairs, each guarded/fresh" % npairs if npairs else "partial ops and callbacks present, no callback after a partial op",
                   "ok", True, where(body), pairs=npairs)
    # whole-table installs: replacing the table of an argument (mem::swap / mem::replace / ptr::write / `*self = ..`) must
    # not be followed by user *logic* callbacks (hasher, eq, clone, closures) unless a live guard covers the table:
    # "a hasher panic while the table is being grown into a new allocation leaves the contents unchanged"
    ninst = 0
    for p, body in F.bodies.items():
        if not p.startswith("raw::"):
            continue
        installs = []
        for i, t in body.calls():
            cp = callee_path(t) or ""
            if cp in ("core::mem::swap", "core::mem::replace", "core::ptr::write") and any(x == INNER or x.startswith("raw::RawTable<") for x in t["f"].get("substs", [])):
                r, path = operand_deep_root(body, t["args"][0])
                if r is not None and body.is_arg(r):
                    installs.append((i, r, cp))
        if not installs:
            continue
        cbs = [(j, d) for (j, d) in V.callback_sites(body) if not V.is_destructor_site(body, j)]
        gds = guard_defs(body)
        for (i, r, cp) in installs:
            ninst += 1
            after = set()
            for x in body.nsucc[i]:
                after |= body.reachable_from(x)
            bad = None
            for (j, d) in cbs:
                if j in after:
                    covered = any(r in g["roots"] and guard_live_at(body, g, j) for g in gds)
                    if not covered:
                        bad = (j, d)
            key = "%s|install@%s" % (p, cp.split("::")[-1])
            if bad:
                R.violation(key, body, "the table of an argument is replaced wholesale (%s) and user code (%s) can still run afterwards with no guard covering it: a hasher/clone panic no longer leaves the original contents in place" % (cp, bad[1]),
                            line=line_of(body, bb=bad[0]), installed_at=where(body, bb=i))
                R.inst(key, "callback after whole-table install", "violation", True, where(body, bb=i))
            else:
                R.inst(key, "no unguarded user-logic callback can run after the table is installed", "ok", True, where(body, bb=i))
    R.info["whole-table installs into an argument"] = ninst
    R.info["callback sites in all bodies"] = sum(len(V.callback_sites(b)) for b in F.bodies.values())
    R.info["bodies with a callback site"] = sum(1 for b in F.bodies.values() if V.callback_sites(b))
    R.info["primitive partial-operation sites"] = sum(len(partial_op_sites(V, b)) for b in F.bodies.values())
    R.floor("bodies mixing primitive partial operations and callbacks", mixed, {"posctl": 1}.get(F.cfg, 4))
    return R


# --------------------------------------------------------------------- R-BULKDROP-GUARD

BULK_DROPPERS = ("raw::RawTableInner::drop_elements", "raw::RawIter::drop_elements")
RESETTERS = ("raw::RawTableInner::clear_no_drop", "raw::RawTable::clear_no_drop")


def _closure_resets(F, clos):
    """guard closure restores an empty table: calls clear_no_drop or stores RawTableInner::NEW into a `table` field."""
    b = F.bodies.get(clos)
    if not b:
        return False
    for i, t in b.calls():
        if callee_path(t) in RESETTERS:
            return True
    for i, k, s in b.stmts():
        if s["k"] == "assign":
            lf = last_field(s["p"])
            if lf and lf["name"] == "table":
                for o in rv_operands(s["rv"]):
                    if o["k"] == "const" and (o.get("def") or "").endswith("RawTableInner::NEW"):
                        return True
    return False


def r_bulkdrop_guard(F, V):
    """Every bulk destructor call (drop_elements) on a table that stays reachable
    after a panic must run under a live guard whose closure resets the table,
    or in a Drop::drop body / on a moved-out local table."""
    R = Result("R-BULKDROP-GUARD", F.cfg)
    n = 0
    # functions that require a dying/moved-out table: obligations move to callers
    DYING = ("raw::RawTableInner::drop_inner_table",)
    targets = BULK_DROPPERS + DYING
    # a dying-table function that detaches the table itself (`let old = mem::replace(self, NEW)`) before it runs any destructor
    # leaves its callers nothing to guard: whatever a destructor panic leaves behind is the detached local, self is the singleton
    self_detaching = set()
    for dn in DYING:
        db_ = F.bodies.get(dn)
        if db_ is None:
            continue
        reps = [(i, t) for i, t in db_.calls() if callee_path(t) == "core::mem::replace" and t["args"] and operand_deep_root(db_, t["args"][0])[0] == 1
                and len(t["args"]) > 1 and t["args"][1]["k"] == "const" and (t["args"][1].get("def") or "").endswith("RawTableInner::NEW")]
        des = [(i, t) for i, t in db_.calls() if callee_path(t) in BULK_DROPPERS]
        if reps and des and all(any(db_.dominates(r_[0], d_[0]) for r_ in reps) and operand_deep_root(db_, d_[1]["args"][0])[0] in [r_[1]["dest"]["l"] for r_ in reps] for d_ in des):
            self_detaching.add(dn)
    for p, body in F.bodies.items():
        gds = None
        for i, t in body.calls():
            cp = callee_path(t)
            if cp not in targets or not t["args"]:
                continue
            n += 1
            key = "%s|%s" % (p, cp.split("::")[-1])
            if p.endswith("as Drop>::drop") or p in DYING:
                R.inst(key, "%s in a destructor / dying-table function" % cp, "ok", False, where(body, bb=i))
                continue
            if cp in self_detaching:
                R.inst(key, "%s detaches the table (mem::replace(self, NEW)) before it runs destructors" % cp, "ok", True, where(body, bb=i))
                continue
            r, path = operand_deep_root(body, t["args"][0])
            if gds is None:
                gds = guard_defs(body)
            ok = None
            if r is not None and guard_local_of_root(body, r):
                g = [g for g in gds if g["local"] == r]
                if g and guard_live_at(body, g[0], i) and _closure_resets(F, g[0]["closure"]):
                    ok = "under live guard _%d whose closure resets the table" % r
            if ok is None and r is not None:
                for g in gds:
                    if r in g["roots"] and guard_live_at(body, g, i) and _closure_resets(F, g["closure"]):
                        ok = "under live guard _%d whose closure resets the table" % g["local"]
            if ok is None and r is not None and fresh_local_root(body, r) and not guard_local_of_root(body, r):
                ok = "receiver is a moved-out local table (_%d), the original was replaced first" % r
                # ... unless the body means to put it back (clear keeps the allocation): then the put-back has to happen on unwinding too
                back = []
                for j2, k2, s2 in body.stmts():
                    if s2["k"] == "assign" and s2["p"].get("proj") and s2["rv"]["k"] == "use" and s2["rv"]["op"]["k"] in ("copy", "move") \
                            and body.root_of_place(s2["rv"]["op"]["p"])[0] == r and body.is_arg(body.root_of_place(s2["p"])[0]) and INNER in (s2["p"].get("t") or ""):
                        back.append(j2)
                for j2, t2 in body.calls():
                    if callee_path(t2) in ("core::mem::replace", "core::mem::swap", "core::ptr::write") and len(t2["args"]) >= 2 and j2 != i:
                        roots2 = [operand_deep_root(body, a2)[0] for a2 in t2["args"][:2]]
                        if r in roots2 and any(x is not None and body.is_arg(x) for x in roots2) and j2 in body.reachable_from(i):
                            back.append(j2)
                if back:
                    covered = any(guard_live_at(body, g, i) and r in g["roots"] for g in gds)
                    if not covered:
                        ok = None
                        R.violation(key, body, "%s runs element destructors on a table that was detached from the collection and is re-attached only afterwards, on the normal path: when a destructor panics the collection is left "
                                    "with the empty singleton while the detached block is neither returned to it nor freed - `clear()` loses the allocation it promises to keep and allocation_size() under-reports what is held" % cp,
                                    line=line_of(body, bb=i))
                        R.inst(key, "detached table not re-attached on unwind", "violation", True, where(body, bb=i))
                        continue
            if ok is None and p in unwinding_only_closures(F):
                ok = "inside an unwinding-only guard closure"
            if ok:
                R.inst(key, "%s: %s" % (cp, ok), "ok", True, where(body, bb=i))
            else:
                R.violation(key, body,
                            "%s runs element destructors on a table that stays reachable, with no live guard that resets the table: "
                            "a destructor panic leaves dropped elements marked as present (double drop later)" % cp,
                            line=line_of(body, bb=i))
                R.inst(key, "%s unguarded" % cp, "violation", True, where(body, bb=i))
    R.floor("bulk destructor call sites", n, {"posctl": 1}.get(F.cfg, 6))
    return R
