"""Rule result container shared by all rules."""
import os


class Result:
    def __init__(self, rule, cfg):
        self.rule = rule
        self.cfg = cfg
        self.instances = []   # dicts: key, what, verdict ('ok'|'violation'|'exempt'), nontrivial(bool), where
        self.violations = []  # dicts: key, fn, file, line, msg, detail
        self.undecided = []   # strings
        self.info = {}        # free-form counters

    def inst(self, key, what, verdict="ok", nontrivial=True, where=None, **kw):
        d = {"key": "%s|%s" % (self.rule, key), "what": what, "verdict": verdict, "nontrivial": bool(nontrivial)}
        if where:
            d["where"] = where
        d.update(kw)
        self.instances.append(d)
        return d

    def violation(self, key, body, msg, line=None, **detail):
        """key: construct-level, no line numbers (rule|fn-path|detail)."""
        v = {
            "key": "%s|%s" % (self.rule, key),
            "rule": self.rule,
            "cfg": self.cfg,
            "fn": body.path if hasattr(body, "path") else str(body),
            "file": _rel(body.file()) if hasattr(body, "file") else None,
            "line": line if line is not None else (body.line() if hasattr(body, "line") else None),
            "msg": msg,
            "detail": detail,
        }
        self.violations.append(v)
        return v

    def undec(self, reason):
        self.undecided.append("%s[%s]: %s" % (self.rule, self.cfg, reason))

    def floor(self, what, got, floor=None):
        """fail closed when an instance count drops below the confirmed number.
        Floors measured on the pinned tree live in tables/floors.json
        (rule -> what -> config); the inline value is the fallback."""
        self.info[what] = got
        if not hasattr(self, "floor_keys"):
            self.floor_keys = set()
        self.floor_keys.add(what)
        t = _floors().get(self.rule, {}).get(what, {})
        if self.cfg in t:
            floor = t[self.cfg]
        elif isinstance(floor, dict):
            floor = floor.get(self.cfg)
        if floor is None:
            floor = 1
        if os.environ.get("HBV_MEASURING"):
            return
        if got < floor:
            self.undec("%s: found %d, expected at least %d (anchor lost or code restructured beyond what the rule recognises)" % (what, got, floor))


_FLOORS = None


def _floors():
    global _FLOORS
    if _FLOORS is None:
        import json
        p = os.path.join(os.path.dirname(os.path.dirname(os.path.dirname(os.path.abspath(__file__)))), "tables", "floors.json")
        try:
            with open(p) as f:
                _FLOORS = json.load(f)
        except Exception:
            _FLOORS = {}
    return _FLOORS


def _rel(f):
    if f is None:
        return None
    i = f.find("/src/")
    return f[i + 1:] if i >= 0 else f


def where(body, bb=None, stmt=None):
    """file:line of a block's terminator / a statement."""
    sp = None
    if stmt is not None:
        sp = stmt.get("sp")
    elif bb is not None:
        t = body.blocks[bb]["term"]
        sp = t.get("sp") or t.get("sp_full")
    if not sp:
        sp = body.j["sp"]
    return "%s:%d" % (_rel(sp["f"]), sp["l"])


def line_of(body, bb=None, stmt=None):
    sp = None
    if stmt is not None:
        sp = stmt.get("sp")
    elif bb is not None:
        t = body.blocks[bb]["term"]
        sp = t.get("sp") or t.get("sp_full")
    if not sp:
        sp = body.j["sp"]
    return sp["l"]


def param_of_type(body, prefix, exact=None):
    """1-based position of the only parameter whose type text starts with `prefix` (None if there is none or more than one):
    rules identify the parameters of private functions by type, so that reordering a private signature is not an alarm."""
    hits = [q for q in range(1, body.arg_count + 1) if body.locals[q]["ty"]["s"].startswith(prefix) and (exact is None or body.locals[q]["ty"]["s"] == exact)]
    return hits[0] if len(hits) == 1 else None


def param_named(body, name, type_prefix=None):
    """1-based position of the parameter called `name` (optionally with a type starting with type_prefix), or None"""
    hits = [q for q in range(1, body.arg_count + 1) if body.locals[q].get("name") == name and (type_prefix is None or body.locals[q]["ty"]["s"].startswith(type_prefix))]
    return hits[0] if len(hits) == 1 else None
