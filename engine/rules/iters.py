"""Rules of DESIGN.md 4.E/4.F: iterators and aliasing.
R-ITEMS-GUARD, R-FORWARD, R-CLONE-FIELDS, R-DEFAULT-EMPTY, R-RETAIN-SHAPE,
R-EXTRACT-NODROP, R-MANYMUT, R-CURSOR-STATE."""
from core import callee_path, callee_decl, last_field, rv_operands
from cond import sources, branch_sources, controlling_sources, expr_key
from rules.base import Result, where, line_of
from rules.accounting import deep_root, operand_deep_root


def _reach_after(body, b):
    out = set()
    for s in body.nsucc[b]:
        out |= body.reachable_from(s)
    return out


def _items_dec_blocks(body, adt_suffix=None):
    out = []
    for i, k, s in body.stmts():
        if s["k"] != "assign":
            continue
        lf = last_field(s["p"])
        if not lf or lf["name"] != "items":
            continue
        S = sources(body, s["rv"]["op"]) if s["rv"]["k"] == "use" else sources(body, {"k": "copy", "p": s["p"]})
        rv = s["rv"]
        subs = {b for b in S.binops if b.startswith("Sub")}
        if rv["k"] == "binop" and rv["op"].startswith("Sub"):
            subs.add(rv["op"])
        if subs and S.has_load("items") and any(c.get("val") == 1 for c in S.consts + ([rv["b"]] if rv["k"] == "binop" and rv["b"]["k"] == "const" else [])):
            out.append((i, lf.get("adt")))
    return out


# --------------------------------------------------------------------- R-ITEMS-GUARD

def r_items_guard(F, V):
    R = Result("R-ITEMS-GUARD", F.cfg)
    n = 0
    for p, body in F.bodies.items():
        for i, t in body.calls():
            cp = callee_path(t) or ""
            subs = t["f"].get("substs", [])
            unbounded = (cp.endswith("RawIterRange::next_impl") and "false" in subs) or cp.endswith("FullBucketsIndices::next_impl")
            if unbounded:
                n += 1
                key = "%s|%s" % (p, cp.split("::")[-2] + "::next_impl")
                recv, _ = operand_deep_root(body, t["args"][0])
                # (i) control dependent on the non-zero arm of a test of the same object's `items`
                guarded = False
                for (b, s, S) in controlling_sources(body, i):
                    tt = body.term(b)
                    if S.has_load("items") and any(c.get("val") == 0 for c in S.consts) and ("Eq" in S.binops or "Ne" in S.binops):
                        zero_t = [bb for v, bb in tt["targets"] if v == 0]
                        on_nonzero = (s in zero_t) if "Eq" in S.binops else (s not in zero_t)
                        if on_nonzero:
                            guarded = True
                    if S.has_load("items") and "Gt" in S.binops and any(c.get("val") == 0 for c in S.consts):
                        guarded = True
                # (ii) exactly one items - 1 on every path to return
                decs = [bi for bi, adt in _items_dec_blocks(body)]
                after = _reach_after(body, i)
                decs_after = [d for d in decs if d in after]
                reach_wo = set()
                for s in body.nsucc[i]:
                    reach_wo |= body.reachable_from(s, tuple(decs_after))
                miss = any(r in reach_wo for r in body.returns)
                twice = any(d2 in _reach_after(body, d1) for d1 in decs_after for d2 in decs_after)
                problems = []
                if not guarded:
                    problems.append("the unbounded group walk is not guarded by an `items != 0` test of the same iterator")
                if not decs_after or miss:
                    problems.append("some path from the walk to return does not decrement `items`")
                if twice:
                    problems.append("`items` can be decremented more than once per yielded element")
                if problems:
                    R.violation(key, body, "; ".join(problems) + ": the count-bounded iterator would walk past the end of the control bytes (out-of-bounds read) or report a wrong length", line=line_of(body, bb=i))
                    R.inst(key, "; ".join(problems), "violation", True, where(body, bb=i))
                else:
                    R.inst(key, "guarded by items != 0 and followed by exactly one items -= 1", "ok", True, where(body, bb=i))
            if cp.endswith("RawIterRange::fold_impl"):
                n += 1
                key = "%s|fold_impl.n" % p
                S = sources(body, t["args"][1]) if len(t["args"]) > 1 else None
                if S and S.has_load("items") and not S.binops and not S.calls:
                    R.inst(key, "fold_impl receives n = self.items", "ok", True, where(body, bb=i))
                else:
                    R.violation(key, body, "the element count passed to fold_impl is not a plain copy of self.items: the count-bounded fold walks too far (out of bounds) or stops early", line=line_of(body, bb=i))
                    R.inst(key, "fold_impl count is not self.items", "violation", True, where(body, bb=i))
    # size_hint of RawIter = (items, Some(items))
    b = F.bodies.get("raw::<RawIter as Iterator>::size_hint")
    if b is None:
        R.undec("raw::<RawIter as Iterator>::size_hint not found")
    else:
        ok = True
        for i, k, s in b.stmts():
            if s["k"] == "assign" and s["p"]["l"] == 0 and s["rv"]["k"] == "aggregate":
                for o in s["rv"]["ops"]:
                    S = sources(b, o)
                    if not S.has_load("items") or S.binops or S.calls:
                        ok = False
        if ok:
            R.inst("raw::<RawIter as Iterator>::size_hint", "size_hint = (items, Some(items))", "ok", True, where(b))
        else:
            R.violation("raw::<RawIter as Iterator>::size_hint|shape", b, "RawIter::size_hint is not (self.items, Some(self.items))")
    R.floor("count-bounded walk sites", n, {"posctl": 0}.get(F.cfg, 3))
    return R


# --------------------------------------------------------------------- R-FORWARD

FORWARDED = ("next", "size_hint", "fold", "len")
ITER_TRAITS = ("core::iter::traits::iterator::Iterator", "core::iter::traits::exact_size::ExactSizeIterator")
# wrappers whose size_hint is deliberately not the inner one (filters): reason per row
SIZE_HINT_EXCEPTIONS = {
    "map::ExtractIf": "lower bound 0, upper = inner upper (elements may be kept)",
    "set::ExtractIf": "lower bound 0, upper = inner upper",
    "table::ExtractIf": "lower bound 0, upper = inner upper",
    "set::Intersection": "filter shape: upper bound only",
    "set::Difference": "filter shape: upper bound only",
    "raw::RawExtractIf": "filter",
}


def _iterator_impl_types(F):
    out = set()
    for im in F.impls:
        if im.get("trait") == ITER_TRAITS[0] and im["self_ty"].get("k") == "adt":
            out.add(im["self_ty"]["path"])
    return out


# front-consuming adaptors of core::iter::Iterator that are defined through `next` of the receiver: a `next` written with one of
# them on the inner cursor (`self.iter.by_ref().find(..)`) consumes exactly what a loop over `self.iter.next()` consumes
NEXT_EQUIVALENTS = ("find", "find_map", "try_fold", "nth")


def r_forward(F, V):
    R = Result("R-FORWARD", F.cfg)
    iters = _iterator_impl_types(F)
    n = 0
    for im in F.impls:
        if im.get("trait") not in ITER_TRAITS or im["self_ty"].get("k") != "adt":
            continue
        X = im["self_ty"]["path"]
        if (X.startswith("raw::") and X not in ("raw::RawDrain", "raw::RawIntoIter")) or X.startswith("control::"):
            continue
        a = F.adts.get(X)
        if not a or a["kind"] != "struct":
            continue
        fields = a["variants"][0]["fields"]
        inner = [f for f in fields if f["ty"].get("k") == "adt" and (f["ty"]["path"] in iters or f["ty"]["path"].startswith("core::iter::"))]
        if len(inner) != 1:
            continue
        fld = inner[0]["name"]
        for it in im["items"]:
            if it["kind"] != "fn" or it["name"] not in FORWARDED:
                continue
            body = F.bodies.get(it["path"])
            if body is None:
                continue
            n += 1
            key = "%s|%s" % (X, it["name"])
            if it["name"] == "size_hint" and X in SIZE_HINT_EXCEPTIONS:
                # still: must consult the inner field's size_hint
                ok = any(t["f"].get("method") == "size_hint" and t["args"] and operand_deep_root(body, t["args"][0])[0] == 1 for _, t in body.calls())
                if ok:
                    R.inst(key, "listed exception (%s); consults the inner size_hint" % SIZE_HINT_EXCEPTIONS[X], "ok", True, where(body))
                else:
                    R.violation(key, body, "%s::size_hint does not consult its inner iterator" % X)
                continue
            hit = None
            for i, t in body.calls():
                f = t["f"]
                if f["k"] != "fn" or not t["args"]:
                    continue
                m = f.get("method") or f["path"].split("::")[-1]
                if m != it["name"] and not (it["name"] == "next" and m in NEXT_EQUIVALENTS and (f.get("trait") or f["path"]).startswith("core::iter::")):
                    continue
                a0 = t["args"][0]
                for _ in range(3):
                    if a0["k"] not in ("copy", "move"):
                        break
                    r, path = deep_root(body, a0["p"])
                    if r == 1 and fld in path:
                        hit = i
                        break
                    # `self.iter.by_ref()` is the receiver itself
                    d = body.single_def(r) if r is not None else None
                    if d and d[0] == "call" and (callee_decl(d[3]) or "") == "core::iter::traits::iterator::Iterator::by_ref" and d[3]["args"]:
                        a0 = d[3]["args"][0]
                    else:
                        break
            if hit is not None:
                R.inst(key, "%s forwards to self.%s.%s" % (it["name"], fld, it["name"]), "ok", True, where(body, bb=hit))
            else:
                # `next` built on the inner next plus a projection is fine as long as it calls inner next
                R.violation(key, body, "%s::%s does not forward to the same-named method of its inner cursor `self.%s`: next/size_hint/fold/len would disagree about what remains" % (X, it["name"], fld))
                R.inst(key, "not forwarded to self.%s" % fld, "violation", True, where(body))
    R.floor("forwarded iterator methods", n, {"posctl": 0}.get(F.cfg, 40))
    return R


# --------------------------------------------------------------------- R-CLONE-FIELDS

def _reaches_self_field(body, ct, F, X, fname):
    """does field `fname` of the X built by the constructor call ct derive (only) from self.fname? None if the constructor's
    struct literal cannot be found"""
    cb = F.bodies.get(callee_path(ct))
    if cb is None:
        return None
    res = None
    for i, k, st in cb.stmts():
        if st["k"] == "assign" and st["rv"]["k"] == "aggregate" and st["rv"].get("adt") == X and fname in (st["rv"].get("fields") or []):
            op = st["rv"]["ops"][st["rv"]["fields"].index(fname)]
            if op["k"] == "const":
                return True
            S2 = sources(cb, op)
            reach_args = set(S2.args)
            frontier = [t2 for lst in S2.calls.values() for _, t2 in lst]
            for _ in range(3):
                nxt = []
                for t2 in frontier:
                    for a2 in t2["args"]:
                        Sx = sources(cb, a2)
                        reach_args |= Sx.args
                        nxt.extend(t3 for lst in Sx.calls.values() for _, t3 in lst)
                frontier = nxt
            loads = set()
            for a in reach_args:
                if a - 1 < len(ct["args"]) and ct["args"][a - 1]["k"] in ("copy", "move"):
                    Sa = sources(body, ct["args"][a - 1])
                    loads |= set(nm for nm, adt in Sa.loads if adt == X)
                    for cp2, lst in Sa.calls.items():
                        for bb, t2 in lst:
                            for a2 in t2["args"]:
                                if a2["k"] in ("copy", "move"):
                                    loads |= set(nm for nm, adt in sources(body, a2).loads if adt == X)
                                    r, path = deep_root(body, a2["p"])
                                    if r == 1:
                                        loads |= set(x for x in path if any(fd["name"] == x for fd in F.adts[X]["variants"][0]["fields"]))
            res = (loads == {fname}) if loads else (True if "PhantomData" in str(op) else False)
    return res


def r_clone_fields(F, V):
    R = Result("R-CLONE-FIELDS", F.cfg)
    iters = _iterator_impl_types(F)
    par = set(im["self_ty"]["path"] for im in F.impls if (im.get("trait") or "").endswith("ParallelIterator") and im["self_ty"].get("k") == "adt")
    field_of_iter = set()
    for X in list(iters | par):
        a = F.adts.get(X)
        if a:
            for v in a["variants"]:
                for f in v["fields"]:
                    if f["ty"].get("k") == "adt" and f["ty"]["path"] in F.adts:
                        field_of_iter.add(f["ty"]["path"])
    n = 0
    for im in F.impls:
        if im.get("trait") != "core::clone::Clone" or im["self_ty"].get("k") != "adt":
            continue
        X = im["self_ty"]["path"]
        if X not in iters and X not in par and X not in field_of_iter:
            continue
        for it in im["items"]:
            if it["name"] != "clone" or it["kind"] != "fn":
                continue
            body = F.bodies.get(it["path"])
            if body is None:
                continue
            if not any(s["k"] == "assign" and s["rv"]["k"] == "aggregate" and s["rv"].get("adt") == X for i, k, s in body.stmts()):
                # no struct literal: the clone is the result of a constructor call (`Self::new(..)`). Look into the constructor field
                # by field: what it puts into field f must still come from self.f (a constructor that re-derives a field from
                # another one - e.g. reloads the current group from the control pointer - forgets how far self had got)
                a_ = F.adts.get(X)
                for ci, ct in body.calls():
                    dty = body.locals[ct["dest"]["l"]]["ty"]
                    if not (dty.get("k") == "adt" and dty.get("path") == X and callee_path(ct) in F.bodies and a_):
                        continue
                    n += 1
                    bad = []
                    for fi, fd in enumerate(a_["variants"][0]["fields"]):
                        fake = {"k": "copy", "p": {"l": ct["dest"]["l"], "proj": [{"k": "field", "i": fi, "name": fd["name"], "adt": X}]}}
                        S = sources(body, fake)
                        if callee_path(ct) not in S.via:
                            bad = None
                            break
                        srcs = set(nm for nm, adt in S.loads if adt == X) - ({fd["name"]} if False else set())
                        # the fake load itself registers (fname, X): only loads of *other* fields, or none of self.f, are a finding
                        own = _reaches_self_field(body, ct, F, X, fd["name"])
                        if own is False:
                            bad.append((fd["name"], sorted(x for x in srcs if x != fd["name"]) or ["<not taken from self>"]))
                    key = "%s|clone" % X
                    if bad is None:
                        continue
                    if bad:
                        R.violation(key, body, "Clone for the iterator type %s goes through %s, which builds field %s: a cloned iterator would not continue from the same position" % (X, callee_path(ct), "; ".join("`%s` from %s" % (f, "/".join(s_)) for f, s_ in bad)), line=line_of(body, bb=ci))
                        R.inst(key, "field re-derived in Clone", "violation", True, where(body, bb=ci))
                    else:
                        R.inst(key, "Clone through %s: every field comes from the same field of self" % callee_path(ct), "ok", True, where(body, bb=ci))
            for i, k, s in body.stmts():
                if s["k"] == "assign" and s["rv"]["k"] == "aggregate" and s["rv"].get("adt") == X:
                    n += 1
                    rv = s["rv"]
                    bad = []
                    for fname, op in zip(rv["fields"], rv["ops"]):
                        if op["k"] == "const":
                            continue  # PhantomData
                        S = sources(body, op)
                        srcs = set(nm for nm, adt in S.loads if adt == X)
                        # through a clone() call of a field: the call's argument is &self.field
                        for cp, lst in S.calls.items():
                            for bb, t in lst:
                                for a in t["args"]:
                                    if a["k"] in ("copy", "move"):
                                        r, path = deep_root(body, a["p"])
                                        if r == 1:
                                            srcs |= set(x for x in path if x in rv["fields"])
                        if srcs and srcs != {fname}:
                            bad.append((fname, sorted(srcs)))
                        if not srcs and "PhantomData" not in (body.locals[op["p"]["l"]]["ty"]["s"] if op["k"] in ("copy", "move") else ""):
                            bad.append((fname, ["<not taken from self>"]))
                    key = "%s|clone" % X
                    if bad:
                        R.violation(key, body, "hand-written Clone for the iterator type %s builds field %s: a cloned iterator would not continue from the same position" % (X, "; ".join("`%s` from %s" % (f, "/".join(s_)) for f, s_ in bad)), line=line_of(body, stmt=s))
                        R.inst(key, "field mix-up in Clone", "violation", True, where(body, stmt=s))
                    else:
                        R.inst(key, "Clone copies every field from the same field of self", "ok", True, where(body, stmt=s))
    R.floor("hand-written iterator Clone impls", n, {"posctl": 0}.get(F.cfg, 8))
    return R


# --------------------------------------------------------------------- R-DEFAULT-EMPTY

def r_default_empty(F, V):
    R = Result("R-DEFAULT-EMPTY", F.cfg)
    n = 0
    for p in ("raw::<RawIter as Default>::default", "raw::<RawIterHash as Default>::default", "raw::<RawIterHashInner as Default>::default"):
        b = F.bodies.get(p)
        if b is None:
            continue
        n += 1
        S = None
        new_const = False
        for i, t in b.calls():
            for a in t["args"]:
                if a["k"] in ("copy", "move"):
                    for o in b.origins(a):
                        if o[0] == "const" and (o[1].get("def") or "").endswith("RawTableInner::NEW"):
                            new_const = True
                elif a["k"] == "const" and (a.get("def") or "").endswith("RawTableInner::NEW"):
                    new_const = True
        for i, k, s in b.stmts():
            for o in rv_operands(s["rv"]) if s["k"] == "assign" else []:
                if o["k"] == "const" and ((o.get("def") or "").endswith("RawTableInner::NEW") or o.get("promoted") is not None):
                    new_const = True
        delegates = any((callee_path(t) or "").endswith("as Default>::default") or t["f"].get("method") == "default" for _, t in b.calls())
        if new_const or delegates:
            R.inst(p, "default iterator is built over the static empty table (items == 0, owns nothing)", "ok", True, where(b))
        else:
            R.violation(p + "|not-empty", b, "the default-constructed raw iterator is not built from RawTableInner::NEW")
    b = F.bodies.get("raw::<RawIntoIter as Default>::default")
    if b is not None:
        n += 1
        ok = False
        for i, k, s in b.stmts():
            if s["k"] == "assign" and s["rv"]["k"] == "aggregate" and s["rv"].get("adt") == "raw::RawIntoIter":
                rv = s["rv"]
                if "allocation" in rv["fields"]:
                    op = rv["ops"][rv["fields"].index("allocation")]
                    for o in b.origins(op):
                        if o[0] == "agg" and o[1].get("variant") == "None":
                            ok = True
        if ok:
            R.inst("raw::<RawIntoIter as Default>::default", "allocation: None", "ok", True, where(b))
        else:
            R.violation("raw::<RawIntoIter as Default>::default|allocation", b, "default RawIntoIter claims an allocation")
    # wrappers forward to inner Default
    for im in F.impls:
        if im.get("trait") != "core::default::Default" or im["self_ty"].get("k") != "adt":
            continue
        X = im["self_ty"]["path"]
        if X.startswith("raw::") or X not in _iterator_impl_types(F):
            continue
        for it in im["items"]:
            if it["name"] != "default":
                continue
            b = F.bodies.get(it["path"])
            if b is None:
                continue
            n += 1
            if any(t["f"].get("method") == "default" or (callee_path(t) or "").endswith("::default") for _, t in b.calls()):
                R.inst(X + "|default", "forwards to the inner Default", "ok", False, where(b))
            else:
                R.violation(X + "|default", b, "%s::default does not forward to its inner iterator's Default (default-constructed iterators must be empty)" % X)
    R.floor("iterator Default impls", n, {"posctl": 0}.get(F.cfg, 10))
    return R


# --------------------------------------------------------------------- R-RETAIN-SHAPE / R-EXTRACT-NODROP

def r_retain_shape(F, V):
    R = Result("R-RETAIN-SHAPE", F.cfg)
    n = 0
    for p in ("map::HashMap::retain", "table::HashTable::retain", "set::HashSet::retain"):
        body = F.bodies.get(p)
        if body is None:
            continue
        # (RawTable::erase, or its two halves written out: erase_no_drop followed by Bucket::drop - their order is R-ERASE-BEFORE's business)
        er = [i for i, t in body.calls() if (callee_path(t) or "").endswith("RawTable::erase") or (callee_path(t) or "").endswith("RawTable::erase_no_drop")]
        if not er:
            # delegation (HashSet::retain -> HashMap::retain)
            if any((callee_path(t) or "").endswith("::retain") for _, t in body.calls()):
                n += 1
                R.inst(p, "delegates to the map's retain", "ok", False, where(body))
                continue
            R.violation(p + "|no-erase", body, "%s neither erases rejected elements nor delegates to another retain" % p)
            continue
        n += 1
        key = p + "|shape"
        cbs = [i for i, d in V.callback_sites(body) if body.term(i)["k"] == "call" and "call_mut" in (body.term(i)["f"].get("method") or "")]
        loops = body.natural_loops()
        problems = []
        for e in er:
            ok = False
            for (b, s, S) in controlling_sources(body, e):
                if S.indirect and body.term(b).get("discr_t") == "bool":
                    zero = [bb for v, bb in body.term(b)["targets"] if v == 0]
                    # erase when the predicate returned false (possibly through a Not)
                    inverted = any(True for bop in S.binops if bop == "Not")
                    ok = True
                    pred_false_arm = (s in zero)
                    unops = _has_not(body, body.term(b)["discr"])
                    if pred_false_arm == unops:
                        problems.append("erase happens when the predicate returned true")
            if not ok:
                problems.append("erase is not control-dependent on the predicate's result")
            # bucket erased is the one just yielded
            t = body.term(e)
            S = sources(body, t["args"][1]) if len(t["args"]) > 1 else None
            if not S or not any(c.endswith("Iterator>::next") or c.endswith("::next") for c in S.calls):
                problems.append("the erased bucket is not the one just yielded by the iterator")
        in_loop = [l for l in loops if any(c in l[1] for c in cbs)]
        if in_loop:
            percb = [c for c in cbs if c in in_loop[0][1]]
            if len(percb) != 1:
                problems.append("%d predicate call sites per iteration (expected exactly one)" % len(percb))
        if problems:
            R.violation(key, body, "%s: %s" % (p, "; ".join(problems)))
            R.inst(key, "; ".join(problems), "violation", True, where(body))
        else:
            R.inst(key, "one predicate call per element; erase(item) on false; erased bucket is the yielded one", "ok", True, where(body))
    R.floor("retain bodies", n, {"posctl": 0}.get(F.cfg, 3))
    return R


def _has_not(body, operand):
    """the operand is the logical negation of a call result (odd number of Not)"""
    cnt = 0
    o = operand
    seen = 0
    while o["k"] in ("copy", "move") and seen < 20:
        seen += 1
        d = body.single_def(o["p"]["l"])
        if not d or d[0] != "stmt":
            break
        rv = d[3]["rv"]
        if rv["k"] == "unop" and rv["op"] == "Not":
            cnt += 1
            o = rv["a"]
        elif rv["k"] == "use":
            o = rv["op"]
        else:
            break
    return cnt % 2 == 1


def r_extract_nodrop(F, V):
    R = Result("R-EXTRACT-NODROP", F.cfg)
    n = 0
    for X in ("raw::RawExtractIf", "map::ExtractIf", "set::ExtractIf", "table::ExtractIf"):
        a = F.adts.get(X)
        if not a:
            continue
        n += 1
        if a["has_drop"]:
            R.violation(X + "|drop", FakeAnchor(X, a["sp"]), "%s has a Drop impl: dropping an extract_if iterator early must leave every unvisited element in the collection" % X)
        else:
            R.inst(X, "no Drop impl (unvisited elements stay)", "ok", False)
    b = F.bodies.get("raw::RawExtractIf::next")
    if b is None:
        R.undec("raw::RawExtractIf::next not found")
    else:
        rm = [i for i, t in b.calls() if (callee_path(t) or "").endswith("RawTable::remove")]
        ok = bool(rm)
        for r in rm:
            dep = False
            for (bb, s, S) in controlling_sources(b, r):
                if S.indirect and b.term(bb).get("discr_t") == "bool":
                    zero = [x for v, x in b.term(bb)["targets"] if v == 0]
                    if (s not in zero) != _has_not(b, b.term(bb)["discr"]):
                        dep = True
            ok = ok and dep
        if ok:
            R.inst("raw::RawExtractIf::next|remove", "remove is control-dependent on the predicate returning true", "ok", True, where(b))
        else:
            R.violation("raw::RawExtractIf::next|remove", b, "RawExtractIf::next does not remove exactly when the predicate returned true")
    R.floor("extract_if types", n, {"posctl": 0}.get(F.cfg, 4))
    return R


class FakeAnchor:
    def __init__(self, path, sp):
        self.path = path
        self._sp = sp

    def file(self):
        return self._sp["f"]

    def line(self):
        return self._sp["l"]


# --------------------------------------------------------------------- R-MANYMUT

def _closure_reaches(F, clos, suffixes, depth=0):
    b = F.bodies.get(clos)
    if b is None or depth > 4:
        return False
    for p in F.reachable_fns(clos):
        bb = F.bodies[p]
        for i, t in bb.calls():
            if any((callee_path(t) or "").endswith(s) for s in suffixes):
                return True
    return False


def _manymut_generic(F, V, R, CHK, PTRS, UNCHK):
    """shape-independent obligations of the checked multi-key lookup (see r_manymut). Decided: a duplicate panic exists and is
    controlled by a comparison of entry identities; nothing else panics; no reference is created before that decision; the
    comparison is not gated by / does not include the hashes; the references come from the lookups that were compared.
    NOT decided here: that an iterator-based check compares *all* pairs (which elements an adaptor chain visits is a
    question about run-time values)."""
    from rules.fallible import PANIC_FNS_PREFIX, PANIC_METHODS, _in_debug_assert
    scope = [CHK]
    for q in sorted(F.reachable_fns(CHK)):
        if q != CHK and (q.startswith(CHK + "::{closure") or (q.startswith("raw::RawTable::get_many") and q != UNCHK) or any(q.startswith(x + "::{closure") for x in scope)):
            scope.append(q)
    for q in sorted(F.reachable_fns(CHK)):
        if q not in scope and any(q.startswith(x + "::{closure") for x in scope):
            scope.append(q)
    # closures of helpers that were inlined into get_many_mut keep the helper's path: every closure constructed in a scope body
    changed = True
    while changed:
        changed = False
        for q in list(scope):
            for i, k, st in F.bodies[q].stmts():
                if st["k"] == "assign" and st["rv"]["k"] == "aggregate" and st["rv"].get("kind") == "closure" and st["rv"].get("closure") in F.bodies and st["rv"]["closure"] not in scope:
                    scope.append(st["rv"]["closure"])
                    changed = True
    body = F.bodies[CHK]
    key = CHK + "|duplicate-check"

    def is_cmp(t):
        cp = callee_path(t) or ""
        decl = t["f"].get("path", "") if t["f"]["k"] == "fn" else ""
        return cp.endswith("[T]::contains") or decl.endswith("PartialEq::eq") or decl.endswith("PartialEq::ne")
    cmps = [(q, i, t) for q in scope for i, t in F.bodies[q].calls() if is_cmp(t)]
    for q in scope:
        for i, k, st in F.bodies[q].stmts():
            if st["k"] == "assign" and st["rv"]["k"] == "binop" and st["rv"]["op"] in ("Eq", "Ne"):
                tys = [F.bodies[q].locals[o["p"]["l"]]["ty"]["s"] if o["k"] in ("copy", "move") and not o["p"].get("proj") else "" for o in (st["rv"]["a"], st["rv"]["b"])]
                if any(("*" in x or "NonNull" in x or x == "usize") for x in tys):
                    cmps.append((q, i, None))
    finds = [(q, i) for q in scope for i, t in F.bodies[q].calls() if (callee_path(t) or "").endswith("RawTable::find")]
    convs = [(q, i) for q in scope for i, t in F.bodies[q].calls() if (callee_path(t) or "").endswith("Bucket::as_mut") or (callee_path(t) or "").endswith("NonNull::as_mut")]
    if not finds or not convs:
        R.undec("get_many_mut: lookups (%d) / conversions to &mut (%d) not recognised" % (len(finds), len(convs)))
        return R
    problems = []
    if not cmps:
        problems.append("no comparison of entry identities (pointers / bucket indices) is made before the references are handed out: two requests resolving to the same entry yield aliasing `&mut`")
    # panic sites of the scope
    panics = []
    for q in scope:
        qb = F.bodies[q]
        for i in qb.normal:
            t = qb.term(i)
            if t["k"] == "call" and ((callee_path(t) or "").startswith(PANIC_FNS_PREFIX) or (callee_path(t) or "") in PANIC_METHODS) \
                    and not (_in_debug_assert(t.get("sp")) or _in_debug_assert(t.get("sp_full"))):
                panics.append((q, i))
    cmp_fns = set(q for q, _, _ in cmps)

    def tied(q, i):
        """is the panic at (q, i) control dependent on a comparison of identities (made here, or inside a closure handed to an
        iterator adaptor whose result is tested here)?"""
        qb = F.bodies[q]
        for (bb, s_, S) in controlling_sources(qb, i):
            for c, lst in S.calls.items():
                for blk, t2 in lst:
                    if is_cmp(t2):
                        return True
                    for cal in V.site_callees(qb, t2):
                        if cal in cmp_fns or any(x in cmp_fns for x in F.reachable_fns(cal) if x in scope):
                            return True
            if any(cq == q and ct is None and ci == bb_ for (cq, ci, ct) in cmps for bb_ in [bb]):
                return True
            dd = qb.single_def(qb.term(bb)["discr"]["p"]["l"]) if qb.term(bb)["k"] == "switch" and qb.term(bb)["discr"]["k"] in ("copy", "move") and not qb.term(bb)["discr"]["p"].get("proj") else None
            if dd and dd[0] == "stmt" and dd[3]["rv"]["k"] == "binop" and dd[3]["rv"]["op"] in ("Eq", "Ne") and any(cq == q and ct is None for (cq, ci, ct) in cmps):
                return True
        return False
    dup = [(q, i) for (q, i) in panics if tied(q, i)]
    extra = [(q, i) for (q, i) in panics if not tied(q, i)]
    if cmps and not dup:
        problems.append("no panic is control dependent on the comparison of entry identities: duplicates are detected but the call goes on to hand out aliasing `&mut`")
    for (q, i) in extra:
        R.violation("%s|extra-panic" % q, F.bodies[q], "an explicit panic site that is not controlled by the comparison of entry identities is reachable from the multi-key lookup: the call panics for requests that do not resolve "
                    "to the same entry instead of returning None / distinct references", line=line_of(F.bodies[q], bb=i))
    # order: in get_many_mut itself, everything that creates references comes after the point that decides the panic
    top_conv = []
    for j, t2 in body.calls():
        cp = callee_path(t2) or ""
        if cp.endswith("Bucket::as_mut") or cp.endswith("NonNull::as_mut"):
            top_conv.append(j)
        else:
            for cal in V.site_callees(body, t2):
                if cal in scope and cal != CHK and any(x == cal or x in F.reachable_fns(cal) for x, _ in convs) and not any(x == cal or x in F.reachable_fns(cal) for x, _ in dup):
                    top_conv.append(j)
    deciders = []
    for (q, i) in dup:
        if q == CHK:
            for (bb, s_) in body.control_deps_trans(i, "all"):
                deciders.append(bb)
        else:
            for j, t2 in body.calls():
                if q in V.site_callees(body, t2) or any(q == x or q in F.reachable_fns(x) for x in V.site_callees(body, t2)):
                    deciders.append(j)
    loops = body.natural_loops()
    for c in top_conv:
        ok = False
        for dblk in deciders:
            heads = [h for h, blocks in loops if dblk in blocks]
            cands = [dblk] + heads
            if any(body.dominates(x, c) and c not in [b2 for h, blocks in loops if h == x for b2 in blocks if x != dblk] for x in cands):
                ok = True
        if dup and not ok:
            problems.append("references are created on a path that has not passed the duplicate check")
    # the comparison is about the entries, not about the hashes
    for (q, i, t) in cmps:
        qb = F.bodies[q]
        for (bb, s_, S) in controlling_sources(qb, i):
            dd = qb.single_def(qb.term(bb)["discr"]["p"]["l"]) if qb.term(bb)["k"] == "switch" and qb.term(bb)["discr"]["k"] in ("copy", "move") and not qb.term(bb)["discr"]["p"].get("proj") else None
            if dd and dd[0] == "stmt" and dd[3]["rv"]["k"] == "binop" and dd[3]["rv"]["op"] in ("Eq", "Ne"):
                tys = [qb.locals[o["p"]["l"]]["ty"]["s"] if o["k"] in ("copy", "move") else o.get("t", "") for o in (dd[3]["rv"]["a"], dd[3]["rv"]["b"])]
                if "u64" in tys:
                    problems.append("the identity comparison is only made when two hashes are equal: the same entry reached through two different hashes (colliding tags, a Hash that is not a function of the key) is handed out twice")
        if t is not None:
            # element type with a derived / hand-written PartialEq of the crate: it must not compare a hash
            cal = callee_path(t) or ""
            eqs = [cal] if cal in F.bodies else []
            for a in t["args"]:
                if a["k"] in ("copy", "move"):
                    ty = qb.locals[a["p"]["l"]]["ty"]
                    for _ in range(3):
                        if ty.get("k") in ("ref", "slice", "array", "rawptr") and isinstance(ty.get("inner") or ty.get("elem"), dict):
                            ty = ty.get("inner") or ty.get("elem")
                    if ty.get("k") == "adt" and ty.get("path") in F.adts:
                        for im in F.impls:
                            if im.get("trait") == "core::cmp::PartialEq" and im["self_ty"].get("k") == "adt" and im["self_ty"]["path"] == ty["path"]:
                                eqs += [it["path"] for it in im["items"] if it["name"] == "eq" and it["path"] in F.bodies]
            for e in eqs:
                eb = F.bodies[e]
                for i2, k2, s2 in eb.stmts():
                    if s2["k"] == "assign" and s2["rv"]["k"] == "binop" and s2["rv"]["op"] in ("Eq", "Ne"):
                        tys = [eb.locals[o["p"]["l"]]["ty"]["s"] if o["k"] in ("copy", "move") else o.get("t", "") for o in (s2["rv"]["a"], s2["rv"]["b"])]
                        if "u64" in tys:
                            problems.append("the values compared by the duplicate check are equal only if their hashes are equal too (%s compares a u64 field): the same entry reached through two different hashes is handed out twice" % e)
    # one batch of lookups: the references come from the results that were compared
    if len(set(finds)) > 1:
        problems.append("the lookups are made more than once (%d find sites): the duplicate check looks at one batch of results while the references are created from another - an equality that answers differently the second time yields aliasing `&mut`" % len(set(finds)))
    for q in scope:
        for i, t in F.bodies[q].calls():
            if callee_path(t) == UNCHK:
                problems.append("the checked lookup finishes by calling the unchecked one, which looks every key up again: the references do not come from the results that were checked")
    # identity value: not a Bucket accessor that is the same for all buckets of a zero-sized element type
    for (fq, fi) in finds:
        fb = F.bodies[fq]
        for i, t in fb.calls():
            cp = callee_path(t) or ""
            if cp.startswith("raw::Bucket::") and cp.split("::")[-1] in ("as_ptr", "as_non_null") and _layout_constant_arm(F, cp, set()):
                problems.append("the entry identity is taken from %s, which is the same pointer for every bucket when T is zero-sized: distinct entries compare equal and get_many_mut panics for them" % cp)
    # positions counted after a filtering adaptor do not index the unfiltered array: `ptrs.iter().flatten().enumerate()` numbers
    # the hits, `ptrs[..i]` counts the requests - every miss in front shortens the prefix that is compared
    FILTERING = ("Flatten<", "Filter<", "FilterMap<", "SkipWhile<", "Skip<", "StepBy<", "TakeWhile<", "MapWhile<", "FlatMap<")
    for q in scope:
        qb = F.bodies[q]
        for i, t in qb.calls():
            f_ = t["f"]
            if f_["k"] != "fn" or not (f_.get("trait") or f_.get("path", "")).startswith("core::iter::"):
                continue
            st_ = (f_.get("self_ty") or {}).get("s", "")
            k_ = st_.find("Enumerate<")
            if k_ < 0 or not any(st_[k_ + len("Enumerate<"):].lstrip().startswith(("core::iter::" + x, "core::iter::adapters::" + x, x)) or ("::" + x) in st_[k_:k_ + 80] for x in FILTERING):
                continue
            for cal in V.site_callees(qb, t):
                cb2 = F.bodies.get(cal)
                if cb2 is None or cb2.kind != "Closure" or cb2.arg_count < 2:
                    continue
                # the position component of the (usize, item) pair used as a range bound / index of a slice or array
                for j, k2, s2 in cb2.stmts():
                    if s2["k"] == "assign" and s2["rv"]["k"] == "aggregate" and (s2["rv"].get("adt") or "").startswith("core::ops::range::Range"):
                        for o in s2["rv"]["ops"]:
                            if o["k"] in ("copy", "move"):
                                S_ = sources(cb2, o)
                                if 2 in S_.args and not S_.calls:
                                    problems.append("a position counted by enumerate() *after* a filtering adaptor (%s) is used as a bound into the unfiltered array: the prefix that is compared is too short whenever an earlier request missed, so a duplicate behind a missing key is not detected" % st_[k_:k_ + 60])
    if problems:
        R.violation(key, body, "; ".join(sorted(set(problems))))
        R.inst(key, "; ".join(sorted(set(problems))), "violation", True, where(body))
    else:
        R.inst(key, "restructured duplicate check: a panic controlled by a comparison of entry identities precedes every conversion to &mut; no other panic; comparison independent of the hashes; one batch of lookups "
               "(that an iterator-based check visits all pairs is not decided statically)", "ok", True, where(body))
    # unchecked variants stay unreachable from safe code
    for p2, b2 in F.bodies.items():
        for i, t in b2.calls():
            if callee_path(t) == UNCHK:
                outer = p2
                while "::{closure#" in outer:
                    outer = outer.rsplit("::{closure#", 1)[0]
                ob = F.bodies.get(outer)
                if not (outer == CHK or (ob is not None and ob.unsafe)):
                    R.violation("%s|calls-get_many_unchecked_mut" % p2, b2, "get_many_unchecked_mut (no aliasing check) is called from the safe function %s" % outer, line=line_of(b2, bb=i))
    for root in ("map::HashMap::get_many_mut", "map::HashMap::get_many_key_value_mut", "table::HashTable::get_many_mut"):
        if root in F.bodies and CHK not in F.reachable_fns(root):
            R.violation(root + "|unchecked", F.bodies[root], "%s does not go through the checked RawTable::get_many_mut" % root)
    R.info["mode"] = "generic (restructured duplicate check)"
    return R


def r_manymut(F, V):
    R = Result("R-MANYMUT", F.cfg)
    PTRS = "raw::RawTable::get_many_mut_pointers"
    UNCHK = "raw::RawTable::get_many_unchecked_mut"
    CHK = "raw::RawTable::get_many_mut"
    if CHK not in F.bodies:
        R.undec("raw::RawTable::get_many_mut not found")
        return R
    # the rule below is written against the shape of the pinned implementation (a pointer array from get_many_mut_pointers, an
    # explicit pairwise loop). If the duplicate check has been restructured (iterator adaptors, a helper, bucket indices instead of
    # pointers, the check fused into the lookup loop) the shape-independent obligations are decided instead
    pristine_shape = False
    if PTRS in F.bodies:
        cb_ = F.bodies[CHK]
        for i_, t_ in cb_.calls():
            if callee_path(t_) == PTRS and _identity_check_loop(cb_, t_["dest"]["l"]) is not None:
                pristine_shape = True
    if not pristine_shape:
        return _manymut_generic(F, V, R, CHK, PTRS, UNCHK)
    n = 0
    # (i) in every safe body that obtains the pointer array, conversion to &mut happens only after the pairwise identity check
    for p, body in F.bodies.items():
        if body.unsafe:
            continue
        for i, t in body.calls():
            if callee_path(t) != PTRS:
                continue
            n += 1
            key = "%s|identity-check" % p
            arr = t["dest"]["l"]
            # conversion sites: calls taking the array (by value) whose closure reaches NonNull::as_mut, or direct as_mut
            conv = []
            for j, t2 in body.calls():
                cp = callee_path(t2) or ""
                if j == i:
                    continue
                uses_arr = any(a["k"] in ("copy", "move") and body.root_of_place(a["p"])[0] == arr for a in t2["args"])
                if (cp.endswith("NonNull::as_mut") or cp.endswith("Bucket::as_mut")) and uses_arr:
                    conv.append(j)
                elif uses_arr:
                    for c in V.site_callees(body, t2):
                        if _closure_reaches(F, c, ("NonNull::as_mut", "Bucket::as_mut")):
                            conv.append(j)
            if not conv:
                if p == CHK:
                    R.undec("RawTable::get_many_mut obtains the pointer array but no conversion to references was recognised (NonNull::as_mut / Bucket::as_mut): the identity check cannot be related to it")
                R.inst(key, "pointer array is not converted to references here", "ok", False, where(body, bb=i))
                continue
            # the checking loop: in this body, or in a helper that receives the array and dominates the conversion
            chk = _identity_check_loop(body, arr)
            h = None
            problems = []
            if chk is not None:
                h, blocks, problems = chk
                for c in conv:
                    if not body.dominates(h, c) or c in blocks:
                        problems.append("references are created before the identity-check loop has finished")
            else:
                helper_ok = False
                for j, t2 in body.calls():
                    cp2 = callee_path(t2)
                    if cp2 in F.bodies and cp2 != PTRS and any(a["k"] in ("copy", "move") and _derives_from(body, a, arr) for a in t2["args"]):
                        hb = F.bodies[cp2]
                        for q in range(1, hb.arg_count + 1):
                            hc = _identity_check_loop(hb, q)
                            if hc is not None and not hc[2] and t2.get("target") is not None and all(body.dominates(t2["target"], c) or t2["target"] == c for c in conv):
                                helper_ok = True
                                h = j
                if not helper_ok:
                    R.violation(key, body, "the pointers returned by get_many_mut_pointers are turned into `&mut` without a pairwise pointer-identity check: two requests resolving to the same entry would yield aliasing mutable references", line=line_of(body, bb=conv[0]))
                    R.inst(key, "no identity check before creating &mut", "violation", True, where(body, bb=conv[0]))
                    continue
            if problems:
                R.violation(key, body, "; ".join(sorted(set(problems))), line=line_of(body, bb=h))
                R.inst(key, "; ".join(sorted(set(problems))), "violation", True, where(body, bb=h))
            else:
                R.inst(key, "every conversion to &mut is dominated by a complete pairwise pointer-identity check that panics on equality", "ok", True, where(body, bb=h))
    # (ii) unchecked variants are reachable from safe fns only through the checked one
    for p, body in F.bodies.items():
        for i, t in body.calls():
            cp = callee_path(t)
            if cp in (PTRS, UNCHK):
                outer = p
                while "::{closure#" in outer:
                    outer = outer.rsplit("::{closure#", 1)[0]
                ob = F.bodies.get(outer)
                key = "%s|calls-%s" % (p, cp.split("::")[-1])
                if outer == CHK or (ob is not None and ob.unsafe):
                    R.inst(key, "unchecked multi-get called from %s" % ("the checked get_many_mut" if outer == CHK else "an unsafe fn"), "ok", False, where(body, bb=i))
                else:
                    R.violation(key, body, "%s (no aliasing check) is called from the safe function %s: aliasing `&mut` become reachable from safe code" % (cp, outer), line=line_of(body, bb=i))
                    R.inst(key, "unchecked multi-get from safe code", "violation", True, where(body, bb=i))
    # (iii) safe public wrappers reach the checked function
    for root in ("map::HashMap::get_many_mut", "map::HashMap::get_many_key_value_mut", "table::HashTable::get_many_mut"):
        if root in F.bodies:
            if CHK in F.reachable_fns(root):
                R.inst(root, "reaches RawTable::get_many_mut", "ok", True)
            else:
                R.violation(root + "|unchecked", F.bodies[root], "%s does not go through the checked RawTable::get_many_mut" % root)
    # (v) every requested key is looked up independently
    pb = F.bodies[PTRS]
    clos = [c for c in F.reachable_fns(PTRS) if c.startswith(PTRS + "::{closure")]
    finds = 0
    reuse = False
    for c in [PTRS] + clos:
        b = F.bodies[c]
        for i, t in b.calls():
            if (callee_path(t) or "").endswith("RawTable::find"):
                finds += 1
                # must not be control dependent on a comparison of hashes
                for (bb, s, S) in controlling_sources(b, i):
                    if not _is_exhaustion_branch(b, bb):
                        reuse = True
    if finds == 0 or reuse:
        R.violation(PTRS + "|independent-find", pb, "get_many_mut_pointers does not perform one unconditional find per requested key (a result is reused or skipped depending on a comparison): a key can be answered with another key's entry")
    else:
        R.inst(PTRS + "|independent-find", "one unconditional find per requested key", "ok", True, where(pb))
    # (vi) the only way the multi-key lookups panic is the identity check: no other explicit panic site (outside debug
    # assertions) is reachable from the public entry points - absent keys yield None, distinct entries yield references
    from rules.fallible import PANIC_FNS_PREFIX, PANIC_METHODS, _in_debug_assert
    seen_fns = set()
    real = []
    for root in ("map::HashMap::get_many_mut", "map::HashMap::get_many_key_value_mut", "table::HashTable::get_many_mut"):
        if root not in F.bodies:
            continue
        for q in sorted(F.reachable_fns(root)):
            if q in seen_fns:
                continue
            seen_fns.add(q)
            qb = F.bodies[q]
            for i in qb.normal:
                t = qb.term(i)
                if t["k"] != "call":
                    continue
                cp = callee_path(t) or ""
                if not (cp.startswith(PANIC_FNS_PREFIX) or cp in PANIC_METHODS):
                    continue
                if _in_debug_assert(t.get("sp")) or _in_debug_assert(t.get("sp_full")):
                    continue
                real.append((q, i))
    allowed = 0
    for (q, i) in real:
        qb = F.bodies[q]
        ok_site = False
        # the pointer array: the result of get_many_mut_pointers in this body, or (identity check moved into a helper) an argument
        arrs = [t["dest"]["l"] for j, t in qb.calls() if callee_path(t) == PTRS]
        if not arrs and q != CHK and q in F.reachable_fns(CHK):
            arrs = [l for l in range(1, qb.arg_count + 1) if "NonNull<" in qb.locals[l]["ty"]["s"]]
        for arr in arrs:
            chk = _identity_check_loop(qb, arr)
            if chk is not None and not chk[2]:
                cmp_blocks = [b for b in chk[1] if qb.term(b)["k"] == "call" and ((callee_path(qb.term(b)) or "").endswith("[T]::contains") or qb.term(b)["f"].get("path", "").endswith("PartialEq::eq"))]
                cs = controlling_sources(qb, i)
                if any(any(bb in cmp_blocks for lst in S.calls.values() for bb, _ in lst) for (_, _, S) in cs):
                    ok_site = True
        if ok_site:
            allowed += 1
            R.inst("%s|panic-site" % q, "the duplicate panic, control dependent on the pointer comparison", "ok", True, where(qb, bb=i))
        else:
            R.violation("%s|extra-panic" % q, qb, "an explicit panic site that is not the pointer-identity duplicate check is reachable from the multi-key lookups: the call panics for requests that "
                        "do not resolve to the same entry (e.g. absent keys, keys with equal hashes, more requests than buckets) instead of returning None / distinct references", line=line_of(qb, bb=i))
            R.inst("%s|extra-panic" % q, "spurious panic reachable", "violation", True, where(qb, bb=i))
    # (vii) what the identity check compares identifies the ENTRY for every element layout.  The compared values are
    # produced by the mapping closure(s) of get_many_mut_pointers from the Bucket that find() returned; a value obtained
    # through a Bucket accessor with a zero-sized-type arm that ignores the bucket (Bucket::as_ptr hands out one
    # dangling pointer for all buckets when T is zero-sized) is equal for different entries
    from rules.round2 import _dep_args
    mapped = 0
    for c in clos:
        cb = F.bodies[c]
        if cb.arg_count < 2 or "raw::Bucket<" not in cb.locals[2]["ty"]["s"] or cb.locals[2]["ty"].get("k") != "adt":
            continue
        mapped += 1
        key = PTRS + "|identity-value"
        verdicts = []
        for d in cb.defs.get(0, ()):
            if d[0] == "call":
                cp = callee_path(d[3]) or ""
                if cp.startswith("raw::Bucket::"):
                    bad_fn = _layout_constant_arm(F, cp, set())
                    if bad_fn:
                        verdicts.append(("bad", "the value compared by the duplicate check comes from %s, and %s returns the same pointer for every bucket when T is zero-sized: "
                                                "two requests that resolve to two different entries of a table of zero-sized elements compare equal, so get_many_mut panics with "
                                                "'duplicate keys found' instead of returning two references" % (cp, bad_fn)))
                    else:
                        verdicts.append(("ok", "%s depends on the bucket in every arm" % cp))
                else:
                    verdicts.append(("unknown", "the compared value is produced by %s" % (cp or "an indirect call")))
            else:
                rv = d[3].get("rv", {})
                src = rv.get("op", {}).get("p") if rv.get("k") == "use" else rv.get("p")
                droot, dpath = deep_root(cb, src) if src is not None else (None, [])
                flds = [x for x in dpath if x not in ("*", "&") and not x.startswith(".") and not x.startswith("as ")]
                if src is not None and droot == 2 and flds[-1:] == ["ptr"]:
                    verdicts.append(("ok", "the bucket's own `ptr` (index encoding for zero-sized types, address otherwise): distinct for distinct buckets"))
                else:
                    verdicts.append(("unknown", "the compared value is not recognisably derived from the bucket"))
        for kind, msg in verdicts:
            if kind == "bad":
                R.violation(key, cb, msg)
                R.inst(key, "identity value not injective for zero-sized elements", "violation", True, where(cb))
            elif kind == "unknown":
                R.undec("get_many_mut_pointers: %s" % msg)
            else:
                R.inst(key, msg, "ok", True, where(cb))
    if not mapped:
        R.undec("get_many_mut_pointers: no closure mapping the found Bucket to the compared value")
    R.info["bodies reachable from the multi-key lookups"] = len(seen_fns)
    R.floor("duplicate-panic sites", allowed, 1)
    R.floor("safe bodies obtaining the pointer array", n, {"posctl": 0}.get(F.cfg, 1))
    return R


def _layout_constant_arm(F, path, seen):
    """name of a function (path or a raw::Bucket callee of it) that switches on IS_ZERO_SIZED and whose result, on one arm,
    does not depend on its receiver; None if there is none."""
    from rules.round2 import _dep_args
    if path in seen or path not in F.bodies:
        return None
    seen.add(path)
    b = F.bodies[path]
    zsw = False
    for i in b.normal:
        t = b.term(i)
        if t["k"] == "switch":
            S = branch_sources(b, i)
            if any("IS_ZERO_SIZED" in (c.get("def") or "") for c in S.consts):
                zsw = True
    if zsw:
        for l in range(len(b.locals)):
            wd = b.whole_defs(l)
            if len(wd) > 1 and b.locals[l]["ty"]["s"] not in ("bool", "()"):
                deps = []
                for d in wd:
                    ops = d[3]["args"] if d[0] == "call" else rv_operands(d[3]["rv"])
                    dd = set()
                    for o in ops:
                        dd |= _dep_args(b, o)
                    deps.append(1 in dd)
                if any(deps) and not all(deps):
                    return path
    for i, t in b.calls():
        cp = callee_path(t) or ""
        if cp.startswith("raw::Bucket::"):
            r = _layout_constant_arm(F, cp, seen)
            if r:
                return r
    return None


def _identity_check_loop(body, arr):
    """find a loop over the array local `arr` that compares its elements pairwise and panics on equality.
    Returns (header, blocks, problems) or None when the body has no such loop."""
    good = None
    for h, blocks in body.natural_loops():
        cmp_calls = []
        for b in blocks:
            tt = body.term(b)
            if tt["k"] == "call":
                cp = callee_path(tt) or ""
                decl = tt["f"].get("path", "")
                if cp.endswith("[T]::contains") or decl.endswith("PartialEq::eq") or decl.endswith("PartialEq::ne"):
                    if any(a["k"] in ("copy", "move") and _derives_from(body, a, arr) for a in tt["args"]):
                        cmp_calls.append(b)
        if cmp_calls:
            good = (h, blocks, cmp_calls)
    if not good:
        return None
    h, blocks, cmp_calls = good
    problems = []
    div = [b for b in body.normal if not body.can_reach_return(b) and body.term(b)["k"] == "call" and (callee_path(body.term(b)) or "").startswith("core::panicking")]
    div_ok = []
    for d in div:
        cs = controlling_sources(body, d)
        if any(any(x == cb for cb in cmp_calls for x in [bb for lst in S.calls.values() for bb, _ in lst]) for (_, _, S) in cs):
            div_ok.append(d)
            for (bb, s, S) in cs:
                if bb not in blocks:
                    continue
                extra = [c for c in S.calls if not (c.endswith("contains") or c.endswith("::eq") or c.endswith("::ne") or c.endswith("::next") or "iter" in c.lower() or c.endswith("<indirect>"))]
                if S.args - {arr, 1} or extra or S.indirect:
                    problems.append("the duplicate panic is additionally conditioned on %s, not only on pointer identity: aliasing requests that differ in that respect are let through" % (sorted(extra) or "the caller's hashes/keys"))
    if not div_ok:
        problems.append("no diverging (panic) block is control-dependent on the pointer comparison")
    for b in blocks:
        for s in body.nsucc[b]:
            if s in blocks or not body.can_reach_return(s):
                continue
            if not _is_exhaustion_branch(body, b):
                problems.append("the checking loop can be left early (not through exhaustion of the pointer array): later duplicates are not compared")
            else:
                # the iterator that is exhausted must walk the whole array: no take_while / skip / take / filter / step_by in its type
                d = body.single_def(body.single_def(body.term(b)["discr"]["p"]["l"])[3]["rv"]["p"]["l"])
                st = (d[3]["f"].get("self_ty") or {}).get("s", "") if d and d[0] == "call" else ""
                for ad in ("TakeWhile", "SkipWhile", "Skip<", "Take<", "Filter", "StepBy", "MapWhile", "Rev<"):
                    if ad in st:
                        problems.append("the checking loop iterates `%s`, which does not visit every element of the pointer array: duplicates after the cut-off are not compared" % st[:80])
    return h, blocks, problems


def _is_exhaustion_branch(body, b):
    """the switch of block b tests the discriminant of an `Iterator::next` result directly (loop exhaustion)."""
    t = body.term(b)
    if t["k"] != "switch" or t["discr"]["k"] not in ("copy", "move"):
        return False
    d = body.single_def(t["discr"]["p"]["l"])
    if not d or d[0] != "stmt" or d[3]["rv"]["k"] != "discriminant":
        return False
    pl = d[3]["rv"]["p"]
    if pl.get("proj"):
        return False
    dd = body.single_def(pl["l"])
    if not dd or dd[0] != "call":
        return False
    f = dd[3]["f"]
    return f["k"] == "fn" and (f.get("method") == "next" or (callee_path(dd[3]) or "").endswith("::next"))


def _derives_from(body, operand, local, depth=0):
    if operand["k"] not in ("copy", "move"):
        return False
    r, _ = body.root_of_place(operand["p"])
    if r == local:
        return True
    S = sources(body, operand)
    for cp, lst in S.calls.items():
        for bb, t in lst:
            for a in t["args"]:
                if a["k"] in ("copy", "move") and body.root_of_place(a["p"])[0] == local:
                    return True
                if depth < 3 and _derives_from(body, a, local, depth + 1):
                    return True
    # locals defined from an iterator over the array
    for d in body.defs.get(r, ()):
        if d[0] == "stmt" and d[3]["k"] == "assign":
            for o in rv_operands(d[3]["rv"]):
                if o["k"] in ("copy", "move") and o["p"]["l"] != r and depth < 4:
                    if _derives_from(body, o, local, depth + 1):
                        return True
    return False


# --------------------------------------------------------------------- R-CURSOR-STATE

from cond import TRANSPARENT_PREFIX as _TP
_TP_MATCH = _TP + ("control::group::sse2::Group::match_", "control::group::generic::Group::match_", "control::group::neon::Group::match_")

WALKERS = ("raw::RawIterRange::next_impl", "raw::RawIterRange::fold_impl")
CURSOR_FIELDS = ("current_group", "data", "next_ctrl")


def _walker_local_mode(body):
    """A walker that consumes `self` by value may keep the cursor in locals (`let mut group = self.current_group; let mut data =
    self.data; let mut ctrl = self.next_ctrl..`) instead of updating the fields. Returns None if this body is not of that form,
    else the list of problems (same obligations as for the field form)."""
    if body.locals[1]["ty"].get("k") == "ref":
        return None
    # no store into a cursor field of self at all
    for i, k, s in body.stmts():
        if s["k"] == "assign":
            lf = last_field(s["p"])
            if lf and lf["name"] in CURSOR_FIELDS and body.root_of_place(s["p"])[0] == 1:
                return None
    carriers = {}
    for f in CURSOR_FIELDS:
        for l in range(body.arg_count + 1, len(body.locals)):
            ds = body.whole_defs(l)
            if len(ds) < 2:
                continue
            for d in ds:
                op = None
                if d[0] == "stmt" and d[3]["k"] == "assign":
                    S = None
                    rv = d[3]["rv"]
                    if rv["k"] == "use":
                        S = sources(body, rv["op"], transparent=_TP_MATCH, follow_phi=False)
                elif d[0] == "call":
                    S = Sources_of_call(body, d[3])
                if S is not None and S.has_load(f) and 1 in S.args and not any("Group::load" in c for c in S.calls):
                    carriers.setdefault(f, (l, d))
    if set(carriers) != set(CURSOR_FIELDS):
        return None
    problems = []
    lg, ld, lc = carriers["current_group"][0], carriers["data"][0], carriers["next_ctrl"][0]
    loads = [(i, t) for i, t in body.calls() if "Group::load" in (callee_path(t) or "")]
    bit_next = [(i, t) for i, t in body.calls() if (callee_path(t) or "").endswith("<BitMaskIter as Iterator>::next")]
    if not bit_next:
        problems.append("no BitMaskIter::next call: the walker does not iterate a bit mask")

    def defs_of(l):
        out = []
        for d in body.whole_defs(l):
            out.append((d[1], d))
        return out
    gdefs = defs_of(lg)
    # the masks iterated are the carrier's values (the stored current_group first, reloads later)
    for i, t in bit_next:
        a0 = t["args"][0] if t["args"] else None
        S = sources(body, a0, transparent=_TP_MATCH + ("core::iter::traits::collect::",)) if a0 else None
        if S is None or not S.has_load("current_group"):
            problems.append("bit indices are taken from a bit mask that does not start from `self.current_group`: elements of the current group that were already yielded are visited again (or skipped)")
    for li, lt in loads:
        ok = False
        for (bi, d) in gdefs:
            if d[0] == "call":
                S = Sources_of_call(body, d[3])
                if d[1] == li:
                    ok = True
            else:
                S = sources(body, d[3]["rv"]["op"], transparent=_TP_MATCH) if d[3]["rv"]["k"] == "use" else None
            if S and any(bb == li for lst in S.calls.values() for bb, _ in lst):
                ok = True
        if not ok:
            problems.append("a freshly loaded group does not become the mask that is iterated next")
    init = {f: carriers[f][1] for f in CURSOR_FIELDS}
    adv = {f: [(bi, d) for (bi, d) in defs_of(carriers[f][0]) if d is not init[f]] for f in CURSOR_FIELDS}
    for li, _ in loads:
        for f in CURSOR_FIELDS:
            if not adv[f]:
                problems.append("the local copy of `%s` is never advanced" % f)
                continue
            avoid = tuple(sorted(set(bi for bi, _d in adv[f])))
            reach = set()
            for x in body.nsucc[li]:
                reach |= body.reachable_from(x, avoid)
            if li in avoid:
                continue
            if any(l2 in reach for l2, _ in loads):
                problems.append("after a group has been loaded the walker can go on to the next load without advancing its copy of `%s`: the cursor parts no longer describe the same group" % f)
    steps = {}
    for f in ("data", "next_ctrl"):
        for (bi, d) in adv[f]:
            t = d[3] if d[0] == "call" else None
            if t is None and d[3]["rv"]["k"] == "use" and d[3]["rv"]["op"]["k"] in ("copy", "move"):
                dd = body.single_def(d[3]["rv"]["op"]["p"]["l"])
                t = dd[3] if dd and dd[0] == "call" else None
            if t is not None and len(t["args"]) > 1:
                steps.setdefault(f, set()).add(expr_key(body, t["args"][1]))
    if steps.get("data") and steps.get("next_ctrl") and steps["data"] != steps["next_ctrl"]:
        problems.append("the copies of `data` and `next_ctrl` are advanced by different amounts (%s vs %s)" % (sorted(steps["data"]), sorted(steps["next_ctrl"])))
    # the first group load happens after the control cursor has been advanced past the current group: the load address derives
    # from the ctrl carrier, and a def of the carrier other than its initialisation dominates (or shares the block of) every load
    return problems


def Sources_of_call(body, t):
    """sources of the value a call returns: the union of its arguments' sources plus the call itself"""
    from cond import Sources
    S = Sources()
    for a in t["args"]:
        Sa = sources(body, a, transparent=_TP_MATCH, follow_phi=False)
        for c, lst in Sa.calls.items():
            S.calls.setdefault(c, []).extend(lst)
        S.loads |= Sa.loads
        S.args |= Sa.args
        S.binops |= Sa.binops
        S.consts.extend(Sa.consts)
    cp = callee_path(t)
    if cp:
        S.calls.setdefault(cp, [])
    return S


def r_cursor_state(F, V):
    """Sibling agreement of the two group walkers (next_impl, fold_impl): both consume the bit
    iterator stored in self.current_group, every freshly loaded group is stored into it, and
    current_group / data / next_ctrl advance together. This is what makes `fold` continue
    exactly where `next` stopped."""
    R = Result("R-CURSOR-STATE", F.cfg)
    n = 0
    for p in WALKERS:
        body = F.bodies.get(p)
        if body is None:
            R.undec("%s not found" % p)
            continue
        n += 1
        problems = []
        lm = _walker_local_mode(body)
        if lm is not None:
            key = "%s|cursor" % p
            if lm:
                R.violation(key, body, "; ".join(sorted(set(lm))))
                R.inst(key, "; ".join(sorted(set(lm))), "violation", True, where(body))
            else:
                R.inst(key, "walks with local copies of the cursor: starts from self.current_group; every reload becomes the iterated mask; data and ctrl advance with each reload by the same step", "ok", True, where(body))
            continue
        bit_next = [(i, t) for i, t in body.calls() if (callee_path(t) or "").endswith("<BitMaskIter as Iterator>::next")]
        if not bit_next:
            problems.append("no BitMaskIter::next call: the walker does not iterate a stored bit mask")
        for i, t in bit_next:
            r, path = deep_root(body, t["args"][0]["p"]) if t["args"] and t["args"][0]["k"] in ("copy", "move") else (None, [])
            if r != 1 or "current_group" not in path:
                problems.append("bit indices are taken from a bit mask that is not `self.current_group`: elements of the current group that were already yielded are visited again (or skipped)")
        loads = [(i, t) for i, t in body.calls() if "Group::load" in (callee_path(t) or "")]
        stores = {f: [] for f in CURSOR_FIELDS}
        for i, k, s in body.stmts():
            if s["k"] == "assign":
                lf = last_field(s["p"])
                if lf and lf["name"] in stores and body.root_of_place(s["p"])[0] == 1 and (lf.get("adt") or "").endswith("RawIterRange"):
                    stores[lf["name"]].append((i, s))
        for i, t in loads:
            ok = False
            for (bi, s) in stores["current_group"]:
                S = sources(body, s["rv"]["op"], transparent=_TP_MATCH) if s["rv"]["k"] == "use" else None
                if S and any(bb == i for lst in S.calls.values() for bb, _ in lst):
                    ok = True
            if not ok:
                problems.append("a freshly loaded group is not stored into `self.current_group`")
        if loads:
            for f in ("data", "next_ctrl"):
                if not stores[f]:
                    problems.append("`self.%s` is not advanced together with the group reload" % f)
                else:
                    for (bi, s) in stores[f]:
                        if not any(body.dominates(li, bi) for li, _ in loads):
                            problems.append("`self.%s` is advanced on a path that did not reload the group" % f)
        # between two group loads (or a load and a return) each of the three cursor fields is advanced: a path that
        # moves on to the next group with one of them left behind pairs bit indices with the wrong 16 slots
        for li, _ in loads:
            for f in CURSOR_FIELDS:
                if not stores[f]:
                    continue
                avoid = tuple(sorted(set(bi for bi, _s in stores[f])))
                reach = set()
                for x in body.nsucc[li]:
                    reach |= body.reachable_from(x, avoid)
                if any(l2 in reach for l2, _ in loads) or any(r in reach for r in body.returns):
                    problems.append("after a group has been loaded the walker can go on to the next load (or return) without advancing `self.%s`: "
                                    "the fields no longer describe the same group, so the following bit indices address the wrong slots" % f)
        # data and next_ctrl move by the same amount
        steps = {}
        for f in ("data", "next_ctrl"):
            for (bi, s) in stores[f]:
                if s["rv"]["k"] != "use" or s["rv"]["op"]["k"] not in ("copy", "move"):
                    continue
                d = body.single_def(s["rv"]["op"]["p"]["l"])
                if d and d[0] == "call" and len(d[3]["args"]) > 1:
                    steps.setdefault(f, set()).add(expr_key(body, d[3]["args"][1]))
        if steps.get("data") and steps.get("next_ctrl") and steps["data"] != steps["next_ctrl"]:
            problems.append("`self.data` and `self.next_ctrl` are advanced by different amounts (%s vs %s)" % (sorted(steps["data"]), sorted(steps["next_ctrl"])))
        key = "%s|cursor" % p
        if problems:
            R.violation(key, body, "; ".join(sorted(set(problems))))
            R.inst(key, "; ".join(sorted(set(problems))), "violation", True, where(body))
        else:
            R.inst(key, "iterates self.current_group; reloads are stored into it; data and next_ctrl advance with the reload", "ok", True, where(body))
    R.floor("group walkers", n, {"posctl": 0}.get(F.cfg, 2))
    return R


# --------------------------------------------------------------------- R-REHASH-LOOP

def r_rehash_loop(F, V):
    """In rehash_in_place, after two elements were swapped the element now sitting in the current
    slot has not been rehashed yet: control must come back to the hasher for the same slot before
    the outer loop advances."""
    R = Result("R-REHASH-LOOP", F.cfg)
    body = F.bodies.get("raw::RawTableInner::rehash_in_place")
    if body is None:
        R.undec("raw::RawTableInner::rehash_in_place not found")
        return R
    swaps = [i for i, t in body.calls() if "swap_nonoverlapping" in (callee_path(t) or "") or (callee_path(t) or "").endswith("ptr::swap")]
    hashers = [i for i, t in body.calls() if t["f"]["k"] != "fn" or (t["f"].get("self_ty", {}).get("k") == "dyn")]
    nexts = [i for i, t in body.calls() if (callee_path(t) or "").endswith("<Range as Iterator>::next") or t["f"].get("method") == "next"]
    key = "raw::RawTableInner::rehash_in_place|swap-then-rehash"
    if not swaps or not hashers or not nexts:
        R.undec("rehash_in_place: swap (%d) / hasher (%d) / outer next (%d) sites not all found" % (len(swaps), len(hashers), len(nexts)))
        return R
    bad = False
    # a branch on a control byte (the tag that was replaced, or the slot's current byte re-read) taken after the swap, one arm of
    # which leads back to the hasher without advancing the outer loop, is the "was it a swap?" decision in another spelling:
    # which arm is taken is a question about run-time values, the structure that is decided here is that such a way back exists
    tag_tests = []
    for i in body.normal:
        if body.term(i)["k"] != "switch" or len(body.nsucc[i]) < 2:
            continue
        S_ = branch_sources(body, i)
        if not (S_.has_call("RawTableInner::ctrl") or S_.has_call("replace_ctrl_hash")):
            continue
        back = [x for x in body.nsucc[i] if any(h in body.reachable_from(x, tuple(nexts)) for h in hashers)]
        if back and len(back) < len(body.nsucc[i]):
            tag_tests.append(i)
    for s in swaps:
        # (flag-sensitive: `while !settled { .. }` keeps looping after a swap because the swap arm leaves the flag unset)
        after_swap_tests = tuple(t_ for t_ in tag_tests if t_ in body.reachable_from_flags(s, tuple(hashers)) and not body.dominates(t_, s))
        reach = body.reachable_from_flags(s, tuple(hashers) + after_swap_tests)
        if any(nx in reach for nx in nexts) or any(r in reach for r in body.returns):
            bad = True
    if bad:
        R.violation(key, body, "after swap_nonoverlapping the outer loop can advance (or the function return) without the swapped-in element being hashed again: it stays in a slot marked DELETED, is never yielded or dropped, and `items` exceeds the number of FULL bytes",
                    line=line_of(body, bb=swaps[0]))
        R.inst(key, "swapped-in element not re-processed", "violation", True, where(body, bb=swaps[0]))
    else:
        R.inst(key, "after a swap control returns to the hasher for the same slot before the outer loop advances", "ok", True, where(body, bb=swaps[0]))
    # index discipline of the three arms (i = the slot being processed, new_i = the slot find_insert_slot chose):
    #   same probe group  : the element stays, so ITS slot gets the hash tag          -> set_ctrl_hash(i, ..)
    #   target was EMPTY  : the element moves i -> new_i and slot i becomes EMPTY     -> copy_nonoverlapping(ptr(i), ptr(new_i)); set_ctrl(i, EMPTY)
    #   target was DELETED: the two elements are swapped                               -> swap_nonoverlapping(ptr(i), ptr(new_i))
    key2 = "raw::RawTableInner::rehash_in_place|arm-indices"
    same = [(i, t) for i, t in body.calls() if (callee_path(t) or "").endswith("RawTableInner::is_in_same_group")]
    fis = [(i, t) for i, t in body.calls() if (callee_path(t) or "").endswith("RawTableInner::find_insert_slot")]
    k_i = k_new = None
    sg_i = None
    if same:
        sg_i, sg_t = same[0]
        k_i = expr_key(body, sg_t["args"][1])
        k_new = expr_key(body, sg_t["args"][2])
    else:
        # the helper inlined: `probe_index(i) == probe_index(new_i)` - an Eq of two results of one local closure
        for bi, bk, bs in body.stmts():
            if bs["k"] == "assign" and bs["rv"]["k"] == "binop" and bs["rv"]["op"] == "Eq":
                ds = [body.single_def(o["p"]["l"]) if o["k"] in ("copy", "move") and not o["p"].get("proj") else None for o in (bs["rv"]["a"], bs["rv"]["b"])]
                if all(d and d[0] == "call" for d in ds):
                    cps = [V.site_callees(body, d[3]) for d in ds]
                    if cps[0] and cps[0] == cps[1] and any(c.startswith(body.path + "::{closure") for c in cps[0]):
                        def last_arg_key(t_):
                            a_ = t_["args"][-1]
                            # closure call arguments are passed as a tuple
                            dd_ = body.single_def(a_["p"]["l"]) if a_["k"] in ("copy", "move") and not a_["p"].get("proj") else None
                            if dd_ and dd_[0] == "stmt" and dd_[3]["rv"]["k"] == "aggregate" and dd_[3]["rv"]["ops"]:
                                return expr_key(body, dd_[3]["rv"]["ops"][0])
                            return expr_key(body, a_)
                        k_i, k_new = last_arg_key(ds[0][3]), last_arg_key(ds[1][3])
                        sg_i = ds[1][1]
    if k_i is None or not fis:
        R.undec("rehash_in_place: is_in_same_group (%d, or its inlined form) / find_insert_slot (%d) not found" % (len(same), len(fis)))
        return R
    probs = []
    if k_i == k_new:
        probs.append("is_in_same_group compares a slot with itself")

    def ptr_index_key(op, depth=0):
        # the index argument of the bucket_ptr call an element pointer comes from (field-sensitive through tuples / copies)
        if depth > 10 or op["k"] not in ("copy", "move"):
            return None
        pl = op["p"]
        flds = [e for e in pl.get("proj", []) if e["k"] == "field"]
        d = body.single_def(pl["l"])
        if d is None:
            return None
        if d[0] == "call":
            if (callee_path(d[3]) or "").endswith("RawTableInner::bucket_ptr") and len(d[3]["args"]) > 1:
                return expr_key(body, d[3]["args"][1])
            return ptr_index_key(d[3]["args"][0], depth + 1) if d[3]["args"] else None
        rv = d[3]["rv"]
        if rv["k"] == "aggregate" and flds:
            idx = flds[0].get("i")
            if idx is None:
                try:
                    idx = int(flds[0].get("name"))
                except (TypeError, ValueError):
                    return None
            return ptr_index_key(rv["ops"][idx], depth + 1) if idx < len(rv["ops"]) else None
        if rv["k"] in ("use", "cast"):
            return ptr_index_key(rv["op"], depth + 1)
        return None
    for i, t in body.calls():
        cp = callee_path(t) or ""
        if cp.endswith("RawTableInner::set_ctrl_hash") and len(t["args"]) > 1:
            # reached on the true edge of is_in_same_group
            on_true = on_false = False
            for bb in body.normal:
                if body.term(bb)["k"] == "switch" and any(o[0] == "call" and o[1] == sg_i for o in body.origins(body.term(bb)["discr"])):
                    zero = [x for v, x in body.term(bb)["targets"] if v == 0]
                    neg = _has_not(body, body.term(bb)["discr"])
                    for sx in body.nsucc[bb]:
                        if sx == i or body.dominates(sx, i):
                            if (sx in zero) != neg:
                                on_false = True
                            else:
                                on_true = True
            if not on_true and not on_false and any(bb == sg_i for (bb, sx) in body.control_deps_trans(i, "all")):
                on_true = True
            if on_false and not on_true:
                # the other arm (not in the same group): replace_ctrl_hash written out - the tag goes to the chosen target slot
                if expr_key(body, t["args"][1]) != k_new:
                    probs.append("on the move arm the hash tag is written to slot `%s`, not to the chosen target slot" % expr_key(body, t["args"][1])[:40])
            elif on_true:
                if expr_key(body, t["args"][1]) != k_i:
                    probs.append("in the same-probe-group arm the hash tag is written to slot `%s` instead of the element's own slot: the element stays where it is, so a stale slot is marked FULL and the live one is left DELETED" % expr_key(body, t["args"][1])[:40])
        if cp.endswith("ptr::copy_nonoverlapping") and len(t["args"]) > 1:
            ks, kd = ptr_index_key(t["args"][0]), ptr_index_key(t["args"][1])
            if ks is not None and kd is not None and not (ks == k_i and kd == k_new):
                probs.append("the move into an EMPTY target copies from slot `%s` to slot `%s` instead of from the processed slot to the chosen one: the live element is overwritten by the stale bytes of the free slot" % (ks[:30], kd[:30]))
        if cp.endswith("RawTableInner::set_ctrl") and len(t["args"]) > 2 and t["args"][2]["k"] == "const" and t["args"][2].get("val") == 255:
            if expr_key(body, t["args"][1]) != k_i:
                probs.append("after the move the EMPTY tag is written to slot `%s`, not to the vacated slot" % expr_key(body, t["args"][1])[:40])
        if cp.endswith("RawTableInner::replace_ctrl_hash") and len(t["args"]) > 1:
            if expr_key(body, t["args"][1]) != k_new:
                probs.append("replace_ctrl_hash is applied to slot `%s`, not to the chosen target slot" % expr_key(body, t["args"][1])[:40])
    if probs:
        R.violation(key2, body, "; ".join(sorted(set(probs))))
        R.inst(key2, "; ".join(sorted(set(probs))), "violation", True, where(body, bb=sg_i))
    else:
        R.inst(key2, "same-group arm tags slot i; the move copies ptr(i) -> ptr(new_i) and empties slot i; replace_ctrl_hash acts on new_i", "ok", True, where(body, bb=sg_i))
    return R
