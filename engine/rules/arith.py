"""R-ARITH (size arithmetic cannot wrap silently), R-LAYOUT-SHAPE (the layout handed to the
allocator is the guarded one, with the element-aware alignment), R-GROUP-CONSTS (per back-end
width/stride/mask constants), R-HASH-TAINT (caller-supplied hash bits never index unmasked)."""
from core import callee_path, last_field, rv_operands
from cond import expr_key, sources, branch_sources, controlling_sources
from rules.base import Result, where, line_of

ARITH_FNS = (
    "raw::capacity_to_buckets",
    "raw::bucket_mask_to_capacity",
    "raw::TableLayout::new",
    "raw::TableLayout::calculate_layout_for",
    "raw::RawTableInner::reserve_rehash_inner",
    "raw::RawTableInner::new_uninitialized",
    "raw::RawTableInner::fallible_with_capacity",
    "raw::RawTableInner::prepare_resize",
    "raw::RawTableInner::num_ctrl_bytes",
    "raw::RawTableInner::buckets",
    "raw::RawTableInner::allocation_info",
    "raw::RawTableInner::allocation_size_or_zero",
    "raw::RawTable::reserve_rehash",
)

# reviewed unchecked additions/multiplications: (function, op, constant operand kind) -> bound argument
ALLOW = {
    ("raw::bucket_mask_to_capacity", "Add", "1"): "bucket_mask = 2^k - 1 with 2^k <= 2^(BITS-1): + 1 cannot overflow",
    ("raw::bucket_mask_to_capacity", "Mul", "7"): "operand is (bucket_mask + 1) / 8: (x / 8) * 7 <= x",
    ("raw::TableLayout::calculate_layout_for", "Add", "WIDTH"): "buckets is a power of two <= 2^(BITS-1) (size * buckets was just checked): + WIDTH cannot overflow",
    ("raw::RawTableInner::reserve_rehash_inner", "Add", "1"): "full_capacity < bucket count <= 2^(BITS-1)",
    ("raw::RawTableInner::num_ctrl_bytes", "Add", "1"): "bucket_mask + 1 = bucket count",
    ("raw::RawTableInner::num_ctrl_bytes", "Add", "WIDTH"): "bucket count <= 2^(BITS-1): + WIDTH cannot overflow",
    ("raw::RawTableInner::buckets", "Add", "1"): "bucket_mask + 1 = bucket count",
}
from cond import TRANSPARENT_PREFIX as _TPX
_TP_NO_NUM = tuple(x for x in _TPX if x != "core::num::")
UNCHECKED_NUM = ("wrapping_", "saturating_", "unchecked_", "overflowing_", "::pow", "strict_")


def _width(F):
    for cpath, c in F.consts.items():
        if cpath.endswith("Group::WIDTH"):
            return c["val"]
    return None


def r_arith(F, V):
    R = Result("R-ARITH", F.cfg)
    W = _width(F)
    if W is None:
        R.undec("Group::WIDTH constant not found")
    n = 0
    for fn in ARITH_FNS:
        body = F.bodies.get(fn)
        if body is None:
            if fn in ("raw::capacity_to_buckets", "raw::TableLayout::calculate_layout_for", "raw::RawTableInner::reserve_rehash_inner"):
                R.undec("%s not found" % fn)
            continue
        for i, k, s in body.stmts():
            if s["k"] != "assign" or s["rv"]["k"] != "binop":
                continue
            op = s["rv"]["op"].replace("WithOverflow", "").replace("Unchecked", "")
            if op not in ("Add", "Mul", "Shl"):
                continue
            if "mac" in s["sp"] and any(m.startswith("debug_assert") for m in s["sp"]["mac"]):
                continue
            # pointer-check arithmetic inserted by debug builds has only constants / pointer ints
            a, b = s["rv"]["a"], s["rv"]["b"]
            if a["k"] == "const" and b["k"] == "const":
                continue
            n += 1
            cv = None
            for o in (a, b):
                if o["k"] == "const" and "val" in o:
                    cv = "WIDTH" if (W is not None and o["val"] == W and o["val"] != 1) else str(o["val"])
            key = "%s|%s %s" % (fn, op, cv or "var")
            if (fn, op, cv) in ALLOW:
                R.inst(key, "allow-listed unchecked %s: %s" % (op, ALLOW[(fn, op, cv)]), "ok", False, where(body, stmt=s))
            else:
                R.violation(key, body, "unchecked `%s` on a size/capacity value in %s: on overflow it wraps (release) or panics (debug) instead of reporting CapacityOverflow, and a too-small allocation can follow" % (op, fn),
                            line=line_of(body, stmt=s))
                R.inst(key, "unchecked size arithmetic", "violation", True, where(body, stmt=s))
        for i, t in body.calls():
            cp = callee_path(t) or ""
            if not cp.startswith("core::num::"):
                continue
            name = cp.split("::")[-1]
            if "mac" in (t.get("sp") or {}) and any(m.startswith("debug_assert") for m in t["sp"]["mac"]):
                continue
            if any(u in cp for u in UNCHECKED_NUM) and name not in ("wrapping_sub",):
                n += 1
                R.violation("%s|%s" % (fn, name), body, "`%s` on a size/capacity value in %s silently wraps/saturates instead of reporting overflow" % (name, fn), line=line_of(body, bb=i))
                R.inst("%s|%s" % (fn, name), "non-checked numeric method", "violation", True, where(body, bb=i))
            elif name in ("checked_shl", "checked_shr"):
                n += 1
                R.violation("%s|%s" % (fn, name), body, "`%s` only rejects shift amounts >= the bit width; it does NOT report that bits are shifted out: the overflow of a size/capacity value goes unnoticed" % name, line=line_of(body, bb=i))
                R.inst("%s|%s" % (fn, name), "checked shift used as an overflow check", "violation", True, where(body, bb=i))
            elif name.startswith("checked_"):
                n += 1
                # the None must be handled by a branch (`?`, match, ok_or_else): the result feeds a switch
                used = False
                for j in body.normal:
                    tt = body.term(j)
                    if tt["k"] == "switch":
                        S = branch_sources(body, j, follow_phi=False, transparent=_TP_NO_NUM)
                        if any(bb == i for lst in S.calls.values() for bb, _ in lst):
                            used = True
                if used:
                    R.inst("%s|%s@%d" % (fn, name, _ordinal(body, i, name)), "%s whose None is branched on" % name, "ok", True, where(body, bb=i))
                else:
                    R.violation("%s|%s-unhandled" % (fn, name), body, "the None of `%s` is not branched on (e.g. unwrap_or / unwrap): the overflow is not reported" % name, line=line_of(body, bb=i))
    # from_size_align_unchecked: dominated by the in-range arm of a comparison of the *same* length against an isize::MAX-derived bound
    body = F.bodies.get("raw::TableLayout::calculate_layout_for")
    if body is not None:
        for i, t in body.calls():
            if (callee_path(t) or "").endswith("Layout::from_size_align_unchecked"):
                n += 1
                key = "raw::TableLayout::calculate_layout_for|from_size_align_unchecked"
                size_root = body.root_of_place(t["args"][0]["p"])[0] if t["args"][0]["k"] in ("copy", "move") else None
                ok = False
                why = "no comparison of the length against an isize::MAX-derived bound controls the call"
                for (b, s, S) in controlling_sources(body, i):
                    if not any(isinstance(c.get("val"), int) and c["val"] >= 2 ** 62 for c in S.consts):
                        continue
                    big = [c["val"] for c in S.consts if isinstance(c.get("val"), int) and c["val"] >= 2 ** 62]
                    if any(v > 2 ** 63 - 1 for v in big):
                        why = "the bound the length is compared against is derived from %s, which is larger than isize::MAX: sizes between isize::MAX and usize::MAX are accepted and an invalid Layout reaches the allocator" % max(big)
                        ok = False
                        break
                    tt = body.term(b)
                    d = body.single_def(tt["discr"]["p"]["l"]) if tt["discr"]["k"] in ("copy", "move") else None
                    if d and d[0] == "stmt" and d[3]["rv"]["k"] == "binop" and d[3]["rv"]["op"] in ("Gt", "Ge", "Lt", "Le"):
                        rv = d[3]["rv"]
                        roots = [body.root_of_place(o["p"])[0] for o in (rv["a"], rv["b"]) if o["k"] in ("copy", "move")]
                        if size_root in roots:
                            ok = True
                            # the *bound* operand (the one that is not the length) is isize::MAX reduced by the alignment padding
                            bound_ops = [o for o in (rv["a"], rv["b"]) if not (o["k"] in ("copy", "move") and body.root_of_place(o["p"])[0] == size_root)]
                            SB = [sources(body, o) for o in bound_ops]
                            if not SB or not all(sb.has_load("ctrl_align") and ("Sub" in sb.binops or "SubWithOverflow" in sb.binops or "SubUnchecked" in sb.binops) for sb in SB):
                                ok = False
                                why = "the bound the length is compared against does not account for the alignment padding (isize::MAX - (ctrl_align - 1)): a size that only exceeds isize::MAX after rounding up to the alignment is accepted"
                        else:
                            why = "the value compared against the isize::MAX bound is not the length passed to Layout::from_size_align_unchecked"
                            # equivalent form: (len + (ctrl_align - 1)) compared against isize::MAX
                            for o in (rv["a"], rv["b"]):
                                if o["k"] not in ("copy", "move"):
                                    continue
                                dd = body.single_def(body.root_of_place(o["p"])[0])
                                # look through `?` (Try::branch) and plain copies to the addition itself
                                for _ in range(6):
                                    if dd and dd[0] == "call" and ((callee_path(dd[3]) or "").startswith("core::option::<Option as Try>") or "try_trait" in (callee_path(dd[3]) or "") or "try_trait" in dd[3]["f"].get("path", "")) \
                                            and dd[3]["args"] and dd[3]["args"][0]["k"] in ("copy", "move"):
                                        dd = body.single_def(body.root_of_place(dd[3]["args"][0]["p"])[0])
                                    elif dd and dd[0] == "stmt" and dd[3]["k"] == "assign" and dd[3]["rv"]["k"] == "use" and dd[3]["rv"]["op"]["k"] in ("copy", "move"):
                                        dd = body.single_def(body.root_of_place(dd[3]["rv"]["op"]["p"])[0])
                                    else:
                                        break
                                parts = []
                                if dd and dd[0] == "call" and (callee_path(dd[3]) or "").endswith("checked_add"):
                                    parts = dd[3]["args"]
                                elif dd and dd[0] == "stmt" and dd[3]["rv"]["k"] == "binop" and dd[3]["rv"]["op"].startswith("Add"):
                                    parts = [dd[3]["rv"]["a"], dd[3]["rv"]["b"]]
                                if len(parts) == 2:
                                    pr = [body.root_of_place(x["p"])[0] if x["k"] in ("copy", "move") else None for x in parts]
                                    if size_root in pr:
                                        other = parts[1 - pr.index(size_root)]
                                        if sources(body, other).has_load("ctrl_align"):
                                            ok = True
                if ok:
                    R.inst(key, "the length passed to from_size_align_unchecked is the value compared against isize::MAX - (align - 1)", "ok", True, where(body, bb=i))
                else:
                    R.violation(key, body, "Layout::from_size_align_unchecked: %s (an over-large layout would reach the allocator: invalid Layout is undefined behaviour)" % why, line=line_of(body, bb=i))
                    R.inst(key, why, "violation", True, where(body, bb=i))
                # the data part is padded up to the SAME alignment: every `x - 1` used for rounding is ctrl_align - 1
                import re as _re
                keyp = "raw::TableLayout::calculate_layout_for|padding"
                subs = []
                for i2, k2, s2 in body.stmts():
                    if s2["k"] == "assign" and s2["rv"]["k"] == "binop" and s2["rv"]["op"].startswith("Sub") and s2["rv"]["b"]["k"] == "const" and s2["rv"]["b"].get("val") == 1:
                        subs.append(expr_key(body, s2["rv"]["a"]))
                if subs:
                    badp = [x for x in subs if not x.endswith("ctrl_align")]
                    if badp:
                        R.violation(keyp, body, "the rounding of the data part uses `%s - 1` instead of `ctrl_align - 1`: for element types aligned more strictly than the group width the control bytes "
                                    "(and with them every bucket) start at an address that is not a multiple of the element alignment" % badp[0][:40], line=line_of(body, bb=i))
                        R.inst(keyp, "padding not by ctrl_align", "violation", True, where(body, bb=i))
                    else:
                        R.inst(keyp, "all %d rounding terms are ctrl_align - 1" % len(subs), "ok", True, where(body, bb=i))
                # alignment operand is the table layout's ctrl_align
                S = sources(body, t["args"][1]) if len(t["args"]) > 1 else None
                key2 = "raw::TableLayout::calculate_layout_for|align"
                if S and S.has_load("ctrl_align"):
                    R.inst(key2, "alignment passed is self.ctrl_align", "ok", True, where(body, bb=i))
                else:
                    R.violation(key2, body, "the alignment of the allocation is not TableLayout.ctrl_align (= max(align_of::<T>(), Group::WIDTH)): over-aligned element types would be misaligned", line=line_of(body, bb=i))
    # ctrl_align = max(align_of T, WIDTH)
    body = F.bodies.get("raw::TableLayout::new")
    if body is not None:
        for i, k, s in body.stmts():
            if s["k"] == "assign" and s["rv"]["k"] == "aggregate" and s["rv"].get("adt") == "raw::TableLayout":
                n += 1
                rv = s["rv"]
                key = "raw::TableLayout::new|ctrl_align"
                op = rv["ops"][rv["fields"].index("ctrl_align")]
                S = sources(body, op)
                roles = _param_roles(F, "raw::TableLayout::new")
                al_params = set(l for l, r_ in roles.items() if r_ == "align")
                sz_params = set(l for l, r_ in roles.items() if r_ == "size")
                _is_al = lambda S_: any(c.endswith("Layout::align") or c.endswith("mem::align_of") for c in S_.calls) or bool(S_.args & al_params)
                has_align = _is_al(S)
                has_w = any(c.get("val") == W for c in S.consts) or any("WIDTH" in (c.get("def") or "") for c in S.consts)
                has_cmp = bool({"Gt", "Lt", "Ge", "Le"} & S.binops) or any(c.endswith("::max") for c in S.calls)
                # every value the field can take is one of the two candidates (the element alignment or the group width)
                stray = []
                if op["k"] in ("copy", "move") and not op["p"].get("proj"):
                    for d in body.defs.get(op["p"]["l"], ()):
                        if d[0] == "call":
                            cpd = callee_path(d[3]) or ""
                            if not (cpd.endswith("Layout::align") or cpd.endswith("::max") or cpd.endswith("mem::align_of")):
                                stray.append(cpd)
                        elif d[3]["k"] == "assign":
                            rvd = d[3]["rv"]
                            if rvd["k"] == "use" and rvd["op"]["k"] == "const":
                                if not (rvd["op"].get("val") == W or "WIDTH" in (rvd["op"].get("def") or "")):
                                    stray.append("constant %s" % rvd["op"].get("val"))
                            elif rvd["k"] == "use" and rvd["op"]["k"] in ("copy", "move"):
                                Sd = sources(body, rvd["op"], follow_phi=False)
                                if not (_is_al(Sd) and not any(c.endswith("Layout::size") or c.endswith("mem::size_of") for c in Sd.calls) and not (Sd.args & sz_params)):
                                    stray.append("a copied value not from Layout::align")
                            else:
                                stray.append("a computed value (%s)" % rvd["k"])
                # direction: the alignment of T is chosen on the edge where it is the larger one
                if not stray and op["k"] in ("copy", "move") and not op["p"].get("proj"):
                    from rules.lookup import _relation
                    is_al = _is_al
                    is_w = lambda S_: (any(c.get("val") == W or "WIDTH" in (c.get("def") or "") for c in S_.consts)) and not S_.calls and not S_.args
                    for d in body.defs.get(op["p"]["l"], ()):
                        takes_align = (d[0] == "call" and (callee_path(d[3]) or "").endswith("Layout::align")) or \
                            (d[0] == "stmt" and d[3]["k"] == "assign" and d[3]["rv"]["k"] == "use" and d[3]["rv"]["op"]["k"] in ("copy", "move")
                             and not d[3]["rv"]["op"]["p"].get("proj") and d[3]["rv"]["op"]["p"]["l"] in al_params)
                        if takes_align:
                            deps = list(body.control_deps_trans(d[1], "all"))
                            rels = [_relation(body, bb, sx, is_al, is_w) for (bb, sx) in deps]
                            rels = [r for r in rels if r]
                            if rels and not any(r in (">", ">=") for r in rels):
                                stray.append("the element alignment is selected when it is the SMALLER one (align %s WIDTH): ctrl_align becomes min instead of max" % rels[0])
                            if deps and not rels:
                                stray.append("the choice between the element alignment and the group width is not decided by comparing those two values")
                if stray:
                    R.violation(key, body, "TableLayout.ctrl_align can take a value that is neither the element alignment nor the group width (%s): the allocation alignment would not be a valid "
                                "power-of-two alignment covering both the elements and the control groups" % ", ".join(sorted(set(stray))), line=line_of(body, stmt=s))
                    R.inst(key, "ctrl_align takes a stray value", "violation", True, where(body, stmt=s))
                elif has_align and has_w and has_cmp:
                    R.inst(key, "ctrl_align = max(align_of::<T>(), Group::WIDTH)", "ok", True, where(body, stmt=s))
                else:
                    R.violation(key, body, "TableLayout::new does not compute ctrl_align as the maximum of the element alignment and the group width (element alignment used: %s, group width used: %s, compared: %s)" % (has_align, has_w, has_cmp), line=line_of(body, stmt=s))
                    R.inst(key, "ctrl_align is not max(align, WIDTH)", "violation", True, where(body, stmt=s))
                op2 = rv["ops"][rv["fields"].index("size")]
                S2 = sources(body, op2)
                if not (any(c.endswith("Layout::size") or c.endswith("mem::size_of") for c in S2.calls) or (S2.args & sz_params)):
                    R.violation("raw::TableLayout::new|size", body, "TableLayout.size is not Layout::new::<T>().size()", line=line_of(body, stmt=s))
    R.floor("size-arithmetic sites judged", n, {"posctl": 1}.get(F.cfg, 12))
    return R


def _param_roles(F, fn):
    """{parameter local: 'align' | 'size'} for the parameters of crate function `fn` that receive, at every call site (constant
    initialisers included), the alignment resp. the size of a type (mem::align_of / Layout::align, mem::size_of / Layout::size)"""
    b = F.bodies.get(fn)
    if b is None:
        return {}
    seen = {}
    for p, body in F.bodies.items():
        for i, t in body.calls():
            if callee_path(t) != fn:
                continue
            for q, a in enumerate(t["args"]):
                S = sources(body, a)
                role = None
                if any(c.endswith("mem::align_of") or c.endswith("Layout::align") for c in S.calls) and not any(c.endswith("size_of") or c.endswith("Layout::size") for c in S.calls):
                    role = "align"
                elif any(c.endswith("mem::size_of") or c.endswith("Layout::size") for c in S.calls) and not any(c.endswith("align_of") or c.endswith("Layout::align") for c in S.calls):
                    role = "size"
                seen.setdefault(q + 1, set()).add(role)
    return {l: list(rs)[0] for l, rs in seen.items() if len(rs) == 1 and list(rs)[0]}


def _ordinal(body, block, name):
    k = 0
    for i, t in body.calls():
        if (callee_path(t) or "").split("::")[-1] == name:
            if i == block:
                return k
            k += 1
    return k


# --------------------------------------------------------------------- R-GROUP-CONSTS

def r_group_consts(F, V):
    R = Result("R-GROUP-CONSTS", F.cfg)
    c = {}
    for p, v in F.consts.items():
        for name in ("Group::WIDTH", "BITMASK_STRIDE", "BITMASK_MASK", "BITMASK_ITER_MASK"):
            if p.endswith(name):
                c[name] = v
    missing = [n for n in ("Group::WIDTH", "BITMASK_STRIDE", "BITMASK_MASK", "BITMASK_ITER_MASK") if n not in c]
    if missing:
        R.undec("back-end constants not found: %s" % missing)
        return R
    W = int(c["Group::WIDTH"]["val"])
    S = int(c["BITMASK_STRIDE"]["val"])
    M = int(c["BITMASK_MASK"]["val"])
    IM = int(c["BITMASK_ITER_MASK"]["val"])
    bits = c["BITMASK_MASK"]["bits"]
    gsize = None
    for p, a in F.adts.items():
        if p.startswith("control::group::") and p.endswith("::Group"):
            gsize = a.get("size")
    backend = [p for p in F.adts if p.startswith("control::group::") and p.endswith("::Group")]
    anchor = _Anchor("control::group", c["Group::WIDTH"]["sp"])
    checks = [
        ("WIDTH == size_of::<Group>()", gsize is not None and W == gsize, "Group::WIDTH=%s size_of=%s" % (W, gsize)),
        ("BitMaskWord::BITS == WIDTH * BITMASK_STRIDE", bits == W * S, "bits=%s WIDTH=%s STRIDE=%s" % (bits, W, S)),
        ("BITMASK_MASK has exactly WIDTH set bits", bin(M).count("1") == W, "popcount=%s" % bin(M).count("1")),
        ("BITMASK_MASK bits sit at k*STRIDE + STRIDE-1", all((M >> (k * S + S - 1)) & 1 for k in range(W)) and bin(M).count("1") == W, hex(M)),
        ("BITMASK_ITER_MASK covers BITMASK_MASK", IM & M == M, hex(IM)),
        ("WIDTH is a power of two <= 16", W in (1, 2, 4, 8, 16), str(W)),
    ]
    for name, ok, detail in checks:
        if ok:
            R.inst(name, "%s (%s) [%s]" % (name, detail, ",".join(backend)), "ok", True)
        else:
            R.violation("consts|" + name, anchor, "group back-end constant relation violated: %s (%s): a bit position in a BitMask no longer corresponds to a bucket index" % (name, detail))
    # capacity_to_buckets has a min_cap arm for this width
    body = F.bodies.get("raw::capacity_to_buckets")
    if body is not None:
        R.inst("capacity_to_buckets|width", "width %d handled (the match on (Group::WIDTH, size) is evaluated on the constant)" % W, "ok", False)
    R.info["constant relations"] = len(checks)
    return R


class _Anchor:
    def __init__(self, path, sp):
        self.path = path
        self._sp = sp

    def file(self):
        return self._sp["f"]

    def line(self):
        return self._sp["l"]


# --------------------------------------------------------------------- R-HASH-TAINT

INDEX_SINKS = {
    # callee suffix -> index argument position
    "raw::RawTableInner::ctrl": 1,
    "raw::RawTableInner::bucket": 1,
    "raw::RawTableInner::bucket_ptr": 1,
    "raw::RawTable::bucket": 1,
    "raw::RawTableInner::set_ctrl": 1,
    "raw::RawTableInner::set_ctrl_hash": 1,
    "raw::RawTableInner::replace_ctrl_hash": 1,
    "raw::RawTableInner::is_bucket_full": 1,
    "raw::RawTableInner::record_item_insert_at": 1,
    "raw::Bucket::from_base_index": 1,
    "raw::Bucket::next_n": 1,
    "core::ptr::mut_ptr::*mut T::add": 1,
    "core::ptr::mut_ptr::*mut T::sub": 1,
    "core::ptr::const_ptr::*const T::add": 1,
    "core::ptr::const_ptr::*const T::sub": 1,
    "core::ptr::non_null::NonNull::add": 1,
}
# summaries: which calls sanitise (result is bounded) / propagate
SANITISERS = ("control::tag::Tag::full", "raw::RawTableInner::probe_seq", "raw::ProbeSeq::move_next", "raw::RawTableInner::find_insert_slot",
              "raw::RawTableInner::find_inner", "raw::RawTableInner::find_or_find_insert_slot_inner", "raw::RawTableInner::prepare_insert_slot",
              "raw::RawTableInner::find_insert_slot_in_group", "raw::RawTableInner::fix_insert_slot", "raw::RawTable::find", "raw::RawTable::find_or_find_insert_slot",
              "raw::RawTableInner::is_in_same_group")
PROPAGATORS = ("raw::h1",)


def r_hash_taint(F, V):
    """forward taint of u64 hash values inside the raw module: a tainted value must pass through
    `& bucket_mask` (or a sanitising summary) before it is used as an index."""
    R = Result("R-HASH-TAINT", F.cfg)
    nsrc = nsink = 0
    nmask = 0
    for p, body in F.bodies.items():
        if not p.startswith("raw::") or p.startswith("raw::alloc"):
            continue
        tainted = {}
        for l in range(1, body.arg_count + 1):
            if body.locals[l]["ty"]["s"] == "u64":
                tainted[l] = "parameter `%s: u64`" % body.locals[l].get("name", "_%d" % l)
        for i, t in body.calls():
            if body.locals[t["dest"]["l"]]["ty"]["s"] == "u64" and V.direct_callback(body, t):
                tainted[t["dest"]["l"]] = "u64 returned by a user callback"
            if t["f"]["k"] != "fn" and body.locals[t["dest"]["l"]]["ty"]["s"] == "u64":
                tainted[t["dest"]["l"]] = "u64 returned by an indirect call (hasher)"
        if not tainted:
            continue
        nsrc += len(tainted)
        changed = True
        rounds = 0
        while changed and rounds < 50:
            changed = False
            rounds += 1
            for i, k, s in body.stmts():
                if s["k"] != "assign" or s["p"].get("proj"):
                    continue
                dst = s["p"]["l"]
                if dst in tainted:
                    continue
                rv = s["rv"]
                ops = rv_operands(rv)
                tin = [o for o in ops if o["k"] in ("copy", "move") and o["p"]["l"] in tainted]
                if not tin:
                    continue
                if rv["k"] == "binop":
                    if rv["op"] == "BitAnd":
                        other = [o for o in ops if o not in tin]
                        S = [sources(body, o) for o in other]
                        if any(x.has_load("bucket_mask") for x in S) or any(l == "bucket_mask" for x in S for l, _ in x.loads):
                            nmask += 1
                            continue  # sanitised
                        # mask parameter named bucket_mask
                        if any(o["k"] in ("copy", "move") and body.locals[body.root_of_place(o["p"])[0]].get("name") == "bucket_mask" for o in other):
                            nmask += 1
                            continue
                    if rv["op"] in ("Eq", "Ne", "Lt", "Le", "Gt", "Ge", "Cmp"):
                        continue
                    if rv["op"] in ("Shr",) and any(o["k"] == "const" and (o.get("val") or 0) >= 57 for o in ops):
                        continue  # top 7 bits: a tag
                tainted[dst] = tainted[tin[0]["p"]["l"]]
                changed = True
            for i, t in body.calls():
                dst = t["dest"]["l"]
                if dst in tainted or t["dest"].get("proj"):
                    continue
                cp = callee_path(t) or ""
                tin = [a for a in t["args"] if a["k"] in ("copy", "move") and body.root_of_place(a["p"])[0] in tainted]
                if not tin:
                    continue
                if cp in PROPAGATORS or cp.startswith("core::num::") or cp.startswith("core::convert::num::") or cp in ("core::convert::identity",):
                    tainted[dst] = tainted[body.root_of_place(tin[0]["p"])[0]]
                    changed = True
        # summaries must hold: index-typed values built/returned by the sanitising functions are untainted
        for i, k, s in body.stmts():
            if s["k"] == "assign" and s["rv"]["k"] == "aggregate":
                rv = s["rv"]
                chk = []
                if rv.get("adt") in ("raw::ProbeSeq", "raw::InsertSlot"):
                    chk = list(zip(rv["fields"], rv["ops"]))
                elif p in SANITISERS and rv.get("adt") in ("core::option::Option", "core::result::Result") and rv["ops"]:
                    chk = [(rv.get("variant"), rv["ops"][0])]
                for fname, o in chk:
                    if o["k"] in ("copy", "move") and body.locals[o["p"]["l"]]["ty"]["s"] == "usize":
                        nsink += 1
                        r = body.root_of_place(o["p"])[0]
                        if r in tainted or o["p"]["l"] in tainted:
                            R.violation("%s|%s.%s" % (p, (rv.get("adt") or "").split("::")[-1], fname), body,
                                        "an index derived from %s is stored into %s.%s without `& bucket_mask`: callers use it to address control bytes and buckets" % (tainted.get(r) or tainted.get(o["p"]["l"]), rv.get("adt"), fname),
                                        line=line_of(body, stmt=s))
        # read-modify-write of ProbeSeq.pos must end masked
        if p == "raw::ProbeSeq::move_next":
            last = None
            for i, k, s in body.stmts():
                if s["k"] == "assign" and (last_field(s["p"]) or {}).get("name") == "pos":
                    last = s
            if last is not None:
                nsink += 1
                rv = last["rv"]
                masked = rv["k"] == "binop" and rv["op"] == "BitAnd"
                if not masked and rv["k"] == "use":
                    S0 = sources(body, rv["op"])
                    masked = "BitAnd" in S0.binops
                if not masked:
                    R.violation("raw::ProbeSeq::move_next|pos", body, "ProbeSeq::move_next does not re-mask `pos` with bucket_mask after adding the stride", line=line_of(body, stmt=last))
        # sinks
        for i, t in body.calls():
            cp = callee_path(t) or ""
            pos = None
            for suf, q in INDEX_SINKS.items():
                if cp == suf or cp.endswith(suf):
                    pos = q
            if pos is None or pos >= len(t["args"]):
                continue
            nsink += 1
            a = t["args"][pos]
            if a["k"] in ("copy", "move"):
                r = body.root_of_place(a["p"])[0]
                if r in tainted or a["p"]["l"] in tainted:
                    src = tainted.get(r) or tainted.get(a["p"]["l"])
                    R.violation("%s|%s" % (p, cp.split("::")[-1]), body,
                                "a value derived from %s reaches the index argument of %s without `& bucket_mask`: an arbitrary (or inconsistent) hash can index outside the table" % (src, cp), line=line_of(body, bb=i))
                    R.inst("%s|%s" % (p, cp.split("::")[-1]), "unmasked hash bits used as index", "violation", True, where(body, bb=i))
    R.inst("raw::*", "%d hash sources, %d index sinks, %d maskings with bucket_mask; no tainted value reaches a sink" % (nsrc, nsink, nmask), "ok", True)
    R.floor("hash taint sources", nsrc, {"posctl": 1}.get(F.cfg, 20))
    R.floor("index sinks", nsink, {"posctl": 1}.get(F.cfg, 20))
    R.floor("bucket_mask maskings of hash-derived values", nmask, {"posctl": 0}.get(F.cfg, 1))
    return R


# --------------------------------------------------------------------- R-INDEX-BOUNDED
# abstract classes of usize values used as bucket / control-byte indices in the raw module
from core import PASS_THROUGH

def resolve_field(body, l, fe, depth=0):
    """the operand a field (projection element fe) of local l was built from, following the local through moves, through
    struct / tuple construction and through fields of other locally built values (`(item, vacated) = helper()` after
    inlining: vacated.index -> ret.1.index -> VacatedBucket { index, .. }); None if it is not built in this body"""
    if depth > 8:
        return None
    d = body.single_def(l)
    if not (d and d[0] == 'stmt' and d[3]['k'] == 'assign' and not d[3]['p'].get('proj')):
        return None
    rv = d[3]['rv']
    if rv['k'] == 'aggregate':
        idx = fe.get('i')
        if rv.get('fields') and fe.get('name') in rv['fields']:
            idx = rv['fields'].index(fe['name'])
        if idx is not None and idx < len(rv['ops']):
            return rv['ops'][idx]
        return None
    if rv['k'] == 'use' and rv['op']['k'] in ('copy', 'move'):
        q = rv['op']['p']
        pj = q.get('proj') or []
        if not pj:
            return resolve_field(body, q['l'], fe, depth + 1)
        if len(pj) == 1 and pj[0]['k'] == 'field':
            inner = resolve_field(body, q['l'], pj[0], depth + 1)
            if inner is not None and inner['k'] in ('copy', 'move') and not inner['p'].get('proj'):
                return resolve_field(body, inner['p']['l'], fe, depth + 1)
    return None


def cls(body, o, depth=0):
    if depth>30: return 'UNKNOWN:deep'
    if o['k']=='const':
        v=o.get('val')
        return 'CONST:%s'%v
    if o['k'] not in ('copy','move'): return 'UNKNOWN'
    p=o['p']
    lf=last_field(p)
    if lf:
        if lf['name']=='pos' and (lf.get('adt') or '').endswith('ProbeSeq'): return 'MASKED:pos'
        if lf['name']=='index' and (lf.get('adt') or '').endswith('InsertSlot'): return 'MASKED:slot'
        if lf['name']=='bucket_mask': return 'MASK'
        if lf['name'] in ('0','1') and p.get('proj') and len(p['proj'])==1:
            # tuple field of checked arithmetic
            d=body.single_def(p['l'])
            if d and d[0]=='stmt' and d[3]['rv']['k']=='binop':
                return cls_rv(body,d[3]['rv'],depth+1)
            if d and d[0]=='call':
                return cls_call(body,d[3],depth+1, field=lf['name'])
        if p.get('proj') and len(p['proj'])==1 and p['proj'][0]['k']=='field' and lf['name'] not in ('0','1'):
            d=body.single_def(p['l'])
            for _ in range(4):
                if d and d[0]=='stmt' and d[3]['k']=='assign' and d[3]['rv']['k']=='use' and d[3]['rv']['op']['k'] in ('copy','move') and not d[3]['rv']['op']['p'].get('proj'):
                    d=body.single_def(d[3]['rv']['op']['p']['l'])
            if d and d[0]=='call':
                cpx=callee_path(d[3]) or ''
                if cpx.endswith('prepare_insert_slot') and lf['name']=='index': return 'MASKED:prep'
        if any(e['k']=='downcast' for e in p.get('proj',[])):
            d=body.single_def(p['l'])
            if d and d[0]=='call': return cls_call(body,d[3],depth+1,payload=True)
            return 'UNKNOWN:downcast'
        # a field of a local struct / tuple built in this body carries the class of the operand it was built from
        if p.get('proj') and len(p['proj'])==1 and p['proj'][0]['k']=='field':
            o2=resolve_field(body, p['l'], p['proj'][0])
            if o2 is not None:
                return cls(body, o2, depth+1)
        # a field of a by-value struct parameter (not self) is the caller's obligation like a plain parameter: the caller's
        # aggregate is classified operand by operand at the call site of the sink
        if p.get('proj') and len(p['proj'])==1 and p['proj'][0]['k']=='field':
            base=p['l']
            for _ in range(6):
                if body.is_arg(base): break
                d=body.single_def(base)
                if d and d[0]=='stmt' and d[3]['k']=='assign' and d[3]['rv']['k']=='use' and d[3]['rv']['op']['k'] in ('copy','move') and not d[3]['rv']['op']['p'].get('proj'):
                    base=d[3]['rv']['op']['p']['l']
                else: break
            if body.is_arg(base) and (base!=1 or body.kind=='Closure') and not (body.kind=='Closure' and base==1) and body.locals[base]['ty'].get('k')=='adt':
                return 'PARAM:%s.%s'%(body.locals[base].get('name','_%d'%base), lf['name'])
        return 'FIELD:%s'%lf['name']
    l=p['l']
    if body.is_arg(l): return 'PARAM:%s'%body.locals[l].get('name','_%d'%l)
    ds=body.whole_defs(l)
    if len(ds)!=1: 
        cs=set()
        for d in ds:
            if d[0]=='stmt' and d[3]['k']=='assign': cs.add(cls_rv(body,d[3]['rv'],depth+1))
            elif d[0]=='call': cs.add(cls_call(body,d[3],depth+1))
        return 'PHI(%s)'%','.join(sorted(cs))
    d=ds[0]
    if d[0]=='call': return cls_call(body,d[3],depth+1)
    return cls_rv(body,d[3]['rv'],depth+1)

def cls_rv(body,rv,depth):
    k=rv['k']
    if k in ('use','cast'): return cls(body,rv['op'],depth+1)
    if k=='binop':
        op=rv['op'].replace('WithOverflow','').replace('Unchecked','')
        a=cls(body,rv['a'],depth+1); b=cls(body,rv['b'],depth+1)
        if op=='BitAnd' and ('MASK' in (a,b) or a.startswith('PARAM:bucket_mask') or b.startswith('PARAM:bucket_mask')): return 'MASKED'
        if op=='Add': return 'ADD(%s,%s)'%(a,b)
        return '%s(%s,%s)'%(op,a,b)
    return 'UNKNOWN:'+k

def cls_call(body,t,depth,payload=False,field=None):
    cp=callee_path(t) or '?'
    n=cp.split('::')[-1]
    if cp.endswith('lowest_set_bit') or cp.endswith('BitMaskIter as Iterator>::next') or cp.endswith('trailing_zeros') or cp.endswith('leading_zeros'): return 'GROUPOFF'
    if cp.endswith('::buckets'): return 'BUCKETS'
    if cp in PASS_THROUGH: return cls(body,t['args'][0],depth+1)
    if cp.endswith('wrapping_sub'): return 'WRAPSUB(%s)'%cls(body,t['args'][0],depth+1)
    if cp.endswith('saturating_sub') or cp.endswith('checked_sub'): return cls(body,t['args'][0],depth+1)  # result <= first operand
    if 'find_insert_slot' in cp or cp.endswith('find_inner') or cp.endswith('::find'): return 'MASKED:find'
    if cp.endswith('prepare_insert_slot'): return 'MASKED:prep' if field in (None,'0') else 'OTHER'
    if cp.endswith('Range as Iterator>::next') or cp.endswith('Range<usize> as core::iter::traits::iterator::Iterator>::next') or n=='next': return 'ITER:%s'%cp.split('::')[-3:]
    if cp.endswith('bucket_index') or cp.endswith('to_base_index'): return 'INDEXOF'
    if cp.endswith('unwrap_unchecked') or cp.endswith('Option::unwrap'): return cls(body,t['args'][0],depth+1)
    if cp.endswith('Try>::branch') or cp.endswith('try_trait::Try::branch'): return cls(body,t['args'][0],depth+1)   # `x?`: the payload of x
    return 'CALL:%s'%n



BUCKET_SINKS = {"raw::RawTableInner::bucket": 1, "raw::RawTableInner::bucket_ptr": 1, "raw::RawTable::bucket": 1, "raw::RawTableInner::set_ctrl": 1,
                "raw::RawTableInner::set_ctrl_hash": 1, "raw::RawTableInner::replace_ctrl_hash": 1, "raw::RawTableInner::is_bucket_full": 1,
                "raw::Bucket::from_base_index": 1, "raw::RawTableInner::record_item_insert_at": 1}
CTRL_SINKS = {"raw::RawTableInner::ctrl": 1}


def _class_ok(c, W, for_ctrl):
    if c.startswith("PHI("):
        inner = c[4:-1]
        return all(_class_ok(x, W, for_ctrl) for x in _split_top(inner))
    if c.startswith(("PARAM:", "MASKED", "ITER:", "INDEXOF")):
        return True
    if c == "CONST:0":
        return True
    if for_ctrl:
        if c in ("BUCKETS", "CONST:%s" % W, "Sub(BUCKETS,CONST:%s)" % W, "SUB(BUCKETS,CONST:%s)" % W):
            return True     # (buckets - WIDTH: the start of the last control group; the control array has buckets + WIDTH bytes)
        if c.startswith("ADD(MASKED") and c.endswith(",CONST:%s)" % W):
            return True
    return False


def _split_top(s):
    out, depth, cur = [], 0, ""
    for ch in s:
        if ch == "(":
            depth += 1
        elif ch == ")":
            depth -= 1
        if ch == "," and depth == 0:
            out.append(cur)
            cur = ""
        else:
            cur += ch
    if cur:
        out.append(cur)
    return out


def _op_ty(body, o):
    if o["k"] == "const":
        return o.get("t")
    if o["k"] in ("copy", "move"):
        if o["p"].get("proj"):
            lf = last_field(o["p"])
            return (lf or {}).get("t")
        return body.locals[o["p"]["l"]]["ty"].get("s")
    return None


def _guarded_by_buckets(body, blk, op):
    """the index operand is a loop counter whose use at block blk is control dependent on `counter < buckets()` (true edge)"""
    if op["k"] not in ("copy", "move") or op["p"].get("proj"):
        return False
    root = op["p"]["l"]
    d = body.single_def(root)
    if d and d[0] == "stmt" and d[3]["k"] == "assign" and d[3]["rv"]["k"] == "use" and d[3]["rv"]["op"]["k"] in ("copy", "move") and not d[3]["rv"]["op"]["p"].get("proj"):
        root = d[3]["rv"]["op"]["p"]["l"]
    for (bb, sx) in body.control_deps_trans(blk, "all"):
        t = body.term(bb)
        if t["k"] != "switch" or t["discr"]["k"] not in ("copy", "move") or t["discr"]["p"].get("proj"):
            continue
        dd = body.single_def(t["discr"]["p"]["l"])
        if not dd or dd[0] != "stmt" or dd[3]["rv"]["k"] != "binop" or dd[3]["rv"]["op"] not in ("Lt", "Gt"):
            continue
        a, b = dd[3]["rv"]["a"], dd[3]["rv"]["b"]
        if dd[3]["rv"]["op"] == "Gt":
            a, b = b, a
        def rootof(o):
            if o["k"] not in ("copy", "move") or o["p"].get("proj"):
                return None
            l = o["p"]["l"]
            d2 = body.single_def(l)
            if d2 and d2[0] == "stmt" and d2[3]["rv"]["k"] == "use" and d2[3]["rv"]["op"]["k"] in ("copy", "move") and not d2[3]["rv"]["op"]["p"].get("proj"):
                return d2[3]["rv"]["op"]["p"]["l"]
            return l
        zero = [x for v, x in t["targets"] if v == 0]
        if rootof(a) == root and cls(body, b) == "BUCKETS" and sx not in zero:
            return True
    return False


def r_index_bounded(F, V):
    """every index handed to a bucket / control-byte accessor in the raw module is provably bounded by
    construction: masked with bucket_mask, a parameter (caller's obligation, checked at the caller),
    yielded by a bounded iterator, the index of an existing bucket, or one of the fixed mirror forms."""
    R = Result("R-INDEX-BOUNDED", F.cfg)
    W = _width(F)
    n = 0
    for p, body in F.bodies.items():
        if not p.startswith("raw::"):
            continue
        for i, t in body.calls():
            cp = callee_path(t)
            sink = None
            if cp in BUCKET_SINKS:
                sink = (BUCKET_SINKS[cp], False, cp.split("::")[-1])
            elif cp in CTRL_SINKS:
                sink = (CTRL_SINKS[cp], True, "ctrl")
            if sink:
                q, for_ctrl, nm = sink
                if q >= len(t["args"]):
                    continue
                c = cls(body, t["args"][q])
                a = t["args"][q]
                if not _class_ok(c, W, for_ctrl) and _guarded_by_buckets(body, i, a):
                    c = "ITER:guarded-by-buckets"
                if a["k"] in ("copy", "move") and not a["p"].get("proj") and body.locals[a["p"]["l"]]["ty"].get("k") == "adt":
                    # the index travels inside a struct built here: every usize operand of the aggregate must be bounded
                    d = body.single_def(a["p"]["l"])
                    for _ in range(4):
                        if d and d[0] == "stmt" and d[3]["k"] == "assign" and d[3]["rv"]["k"] == "use" and d[3]["rv"]["op"]["k"] in ("copy", "move") \
                                and not d[3]["rv"]["op"]["p"].get("proj"):
                            d = body.single_def(d[3]["rv"]["op"]["p"]["l"])
                    if d and d[0] == "stmt" and d[3]["k"] == "assign" and d[3]["rv"]["k"] == "aggregate":
                        cs = [cls(body, o) for o in d[3]["rv"]["ops"] if _op_ty(body, o) == "usize"]
                        if cs:
                            bad = [x for x in cs if not _class_ok(x, W, for_ctrl)]
                            c = bad[0] if bad else cs[0]
                n += 1
                key = "%s|%s(%s)" % (p, nm, c[:60])
                if _class_ok(c, W, for_ctrl):
                    R.inst(key, "index of class %s" % c, "ok", True, where(body, bb=i))
                else:
                    R.violation("%s|%s" % (p, nm), body, "the index passed to %s has class %s: it is not bounded by the bucket mask (nor a parameter / bounded iterator value / existing bucket's index), so it can address memory outside the table" % (cp, c), line=line_of(body, bb=i))
                    R.inst(key, "unbounded index", "violation", True, where(body, bb=i))
            elif t["f"]["k"] != "fn" or t["f"].get("self_ty", {}).get("k") == "dyn":
                for a in t["args"]:
                    if a["k"] in ("copy", "move") and not a["p"].get("proj"):
                        ty = body.locals[a["p"]["l"]]["ty"]
                        if ty.get("k") == "tuple" and [e["s"] for e in ty["elems"]] == ["usize"]:
                            d = body.single_def(a["p"]["l"])
                            if d and d[0] == "stmt" and d[3]["rv"]["k"] == "aggregate":
                                c = cls(body, d[3]["rv"]["ops"][0])
                                n += 1
                                key = "%s|eq(index:%s)" % (p, c[:60])
                                if _class_ok(c, W, False):
                                    R.inst(key, "index handed to the eq callback has class %s" % c, "ok", True, where(body, bb=i))
                                else:
                                    R.violation("%s|eq-index" % p, body, "the bucket index handed to the equality callback has class %s (not masked): the callback dereferences bucket(index)" % c, line=line_of(body, bb=i))
    R.floor("index sinks classified", n, {"posctl": 0}.get(F.cfg, 40))
    return R


# --------------------------------------------------------------------- R-SAME-GROUP

def r_same_group(F, V):
    """is_in_same_group decides whether an element may stay where it is during an in-place rehash. Probe groups are
    unaligned windows that start at the probe start of the hash, so the group number of a position must be
    ((pos - start) mod buckets) / WIDTH with start = the (masked, otherwise unmodified) probe position of the hash."""
    R = Result("R-SAME-GROUP", F.cfg)
    root = "raw::RawTableInner::is_in_same_group"
    body = F.bodies.get(root)
    W = _width(F)
    if body is None:
        # the helper may have been inlined at its only call site: look for the same computation (a division by the group
        # width of a wrapping_sub) in rehash_in_place and its closures
        alt = "raw::RawTableInner::rehash_in_place"
        ab = F.bodies.get(alt)
        cands = [alt] + [c for c in F.bodies if c.startswith(alt + "::{closure")] if ab is not None else []
        has = False
        for c in cands:
            cb_ = F.bodies[c]
            for i, k, s in cb_.stmts():
                if s["k"] == "assign" and s["rv"]["k"] == "binop" and s["rv"]["op"] == "Div" and s["rv"]["b"]["k"] == "const" and s["rv"]["b"].get("val") == W:
                    has = True
        if not has:
            # no recognisable group-number computation. One necessary condition can still be decided: whether an element
            # may stay where it is depends on where the probe sequence of *its hash* starts - a test on the two positions
            # alone compares a fixed window and leaves elements in slots their lookups never reach.
            if ab is not None:
                from cond import controlling_sources
                stay = [i for i, t in ab.calls() if (callee_path(t) or "").endswith("RawTableInner::set_ctrl_hash")]
                dep = False
                for c in stay:
                    for (bb_, s_, S_) in controlling_sources(ab, c):
                        if S_.has_call("probe_seq") or S_.has_call("raw::h1") or S_.has_call("is_in_same_group"):
                            dep = True
                if stay and not dep:
                    key = alt + "|relative-to-probe-start"
                    R.violation(key, ab, "the decision to leave an element in its slot during the in-place rehash (the arm that only rewrites its control byte) does not depend on the probe start of the element's hash "
                                "(no probe_seq(hash) / h1(hash) in the controlling conditions): positions are compared in a fixed window, so an element can be left in a slot its lookups never reach - present keys are reported absent and can be inserted twice")
                    R.inst(key, "stay-in-place decision independent of the hash's probe start", "violation", True, where(ab))
                    return R
            R.undec("%s not found (and no inlined group-number computation in rehash_in_place)" % root)
            return R
        root, body = alt, ab
    bodies = [body] + [F.bodies[c] for c in F.reachable_fns(root) if c.startswith(root + "::{closure")]
    # closure upvars -> creator operands
    upmap = {}
    for i, k, s in body.stmts():
        if s["k"] == "assign" and s["rv"]["k"] == "aggregate" and s["rv"]["kind"] == "closure":
            upmap[s["rv"]["closure"]] = s["rv"]["ops"]
    divs = 0
    problems = []
    for b in bodies:
        for i, k, s in b.stmts():
            if s["k"] == "assign" and s["rv"]["k"] == "binop" and s["rv"]["op"] == "Div" and s["rv"]["b"]["k"] == "const" and s["rv"]["b"].get("val") == W:
                divs += 1
                S = sources(b, s["rv"]["a"], transparent=_TP_NO_NUM)
                ws = [(bb, t) for c, lst in S.calls.items() if c.endswith("wrapping_sub") for bb, t in lst]
                if not ws:
                    problems.append("the position is divided by the group width without first subtracting the probe start of the hash: aligned blocks are compared instead of the key's own (unaligned) probe groups")
                    continue
                if not (S.has_load("bucket_mask") and "BitAnd" in S.binops):
                    problems.append("(pos - start) is not reduced modulo the table size with `& bucket_mask`")
                for bb, t in ws:
                    sub = t["args"][1]
                    c = None
                    if b is not body and sub["k"] in ("copy", "move"):
                        # resolve an upvar (*_1).i (possibly through a reference) to the creator's operand
                        r, path = b.root_of_place(sub["p"])
                        idx = [x for x in path if x.isdigit()]
                        ops = upmap.get(b.path)
                        if r == 1 and idx and ops and int(idx[0]) < len(ops):
                            o = ops[int(idx[0])]
                            if o["k"] in ("copy", "move"):
                                # the captured value is usually `&local`: classify the referent
                                tgt = o
                                for _ in range(4):
                                    dd = body.single_def(tgt["p"]["l"]) if not tgt["p"].get("proj") else None
                                    if dd and dd[0] == "stmt" and dd[3]["rv"]["k"] == "ref":
                                        tgt = {"k": "copy", "p": dd[3]["rv"]["p"]}
                                    elif dd and dd[0] == "stmt" and dd[3]["rv"]["k"] == "use" and dd[3]["rv"]["op"]["k"] in ("copy", "move") and not dd[3]["rv"]["op"]["p"].get("proj"):
                                        tgt = dd[3]["rv"]["op"]
                                    else:
                                        break
                                c = cls(body, tgt)
                    if c is None:
                        c = cls(b, sub)
                    if not (c == "MASKED" or c.startswith("MASKED:pos")):
                        problems.append("the probe start subtracted from the position has class %s: it must be exactly the masked probe position of the hash (probe_seq(hash).pos), not a rounded or otherwise altered value" % c)
    key = root + "|relative-to-probe-start"
    if divs == 0:
        problems.append("no division by Group::WIDTH found")
    if problems:
        R.violation(key, body, "; ".join(sorted(set(problems))) + " (an element is then left in a slot its lookups never reach: present keys are reported absent and can be inserted twice)")
        R.inst(key, "; ".join(sorted(set(problems))), "violation", True, where(body))
    else:
        R.inst(key, "group number = ((pos - probe_seq(hash).pos) & bucket_mask) / WIDTH for both positions", "ok", True, where(body))
    return R
