"""Rules added after the third round of independent mutations (DESIGN.md 12.8)."""
from core import callee_path, last_field, rv_operands
from cond import sources, branch_sources, controlling_sources, expr_key
from rules.base import Result, where, line_of, param_of_type, param_named
from rules.accounting import deep_root, operand_deep_root


# --------------------------------------------------------------------- R-HINT-LOWER

RESERVERS = ("::reserve", "::try_reserve", "::with_capacity", "::with_capacity_and_hasher", "::with_capacity_in", "::with_capacity_and_hasher_in",
             "::reserve_rehash", "::shrink_to")


def _is_iter_size_hint(t):
    f = t["f"]
    if f["k"] != "fn":
        return False
    cp = callee_path(t) or ""
    return (f.get("method") == "size_hint" and "Iterator" in (f.get("trait") or "")) or cp.endswith("Iterator::size_hint")


def _hint_fields(body, operand):
    """which components (0 = lower bound, 1 = upper bound) of an Iterator::size_hint() result the operand's value is computed from
    (full backward slice through temporaries and call arguments); returns set of (field, block_of_size_hint_call)"""
    out = set()
    seen = set()

    def go_place(p):
        l = p["l"]
        proj = p.get("proj", [])
        ds = body.defs.get(l, ())
        hint_defs = [d for d in ds if d[0] == "call" and _is_iter_size_hint(d[3])]
        if hint_defs:
            fld = None
            for e in proj:
                if e["k"] == "field":
                    fld = e.get("name") if e.get("name") is not None else str(e.get("idx"))
                    break
            for d in hint_defs:
                out.add((str(fld) if fld is not None else "whole", d[1]))
            return
        for e in proj:
            if e["k"] == "index":
                go_place({"l": e["local"]})
        if l in seen or body.is_arg(l):
            return
        seen.add(l)
        for d in ds:
            if d[0] == "call":
                for a in d[3]["args"]:
                    go_op(a)
            elif d[3]["k"] == "assign":
                for o in rv_operands(d[3]["rv"]):
                    go_op(o)
                rv = d[3]["rv"]
                if rv["k"] in ("ref", "rawptr", "discriminant", "len"):
                    go_place(rv["p"])

    def go_op(o):
        if o["k"] in ("copy", "move"):
            go_place(o["p"])
    go_op(operand)
    return out


def _self_dep(body, operand):
    from rules.round2 import _dep_args
    deps = _dep_args(body, operand)
    return any(body.locals[l].get("name") == "self" for l in deps)


def _exceeds_hint(body, operand):
    """a description if some definition of the amount is not of the form h, h / d or (h + a) / d with a < d (all <= h)"""
    import re as _re
    if operand["k"] not in ("copy", "move"):
        return None
    l = body.root_of_place(operand["p"])[0]

    def is_h(k):
        sp = _split_top(k)
        return bool(sp and sp[0].endswith("size_hint") and sp[2] == ".0")

    def const(k):
        m = _re.match(r"^c:(\d+):[iu](size|\d+)$", k)
        return int(m.group(1)) if m else None

    def le_h(k):
        if is_h(k):
            return True
        sp = _split_top(k)
        if not sp or sp[2] not in ("", ".0") or len(sp[1]) != 2:
            return False
        if sp[0] in ("Div", "Shr"):
            d = const(sp[1][1])
            if d is not None and sp[0] == "Shr":
                d = 2 ** d
            if d is None or d < 1:
                return False
            if is_h(sp[1][0]):
                return True
            inner = _split_top(sp[1][0])
            if inner and inner[0] == "Add" and inner[2] in ("", ".0") and len(inner[1]) == 2:
                a = const(inner[1][1]) if is_h(inner[1][0]) else (const(inner[1][0]) if is_h(inner[1][1]) else None)
                return a is not None and a < d
        return False
    for d in body.whole_defs(l):
        if d[0] == "call":
            continue   # amounts produced by calls are judged by the component clause only
        rv = d[3]["rv"]
        if rv["k"] in ("use", "cast"):
            k = expr_key(body, rv["op"])
        elif rv["k"] == "binop":
            k = "%s(%s,%s)" % (rv["op"].replace("WithOverflow", ""), expr_key(body, rv["a"]), expr_key(body, rv["b"]))
        else:
            continue
        if "size_hint" not in k:
            continue
        if not le_h(k):
            return k[-70:]
    return None


def r_hint_lower(F, V):
    """Space reserved ahead of a bulk insertion is sized from the *lower* bound of the iterator's size_hint only.  The upper
    bound of an honest iterator may be arbitrarily loose (`(0..usize::MAX).take_while(..)`, `filter`, `flat_map`): reserving it makes
    extend/from_iter panic with a capacity overflow (or abort on allocation failure) for an input whose elements all fit."""
    R = Result("R-HINT-LOWER", F.cfg)
    n = 0
    for p, body in F.bodies.items():
        hints = [i for i, t in body.calls() if _is_iter_size_hint(t)]
        if not hints:
            continue
        if p.startswith("raw::") and "Iter" in p:
            continue
        for i, t in body.calls():
            cp = callee_path(t) or ""
            if not any(cp.endswith(sfx) for sfx in RESERVERS):
                continue
            if not (cp.startswith("map::") or cp.startswith("set::") or cp.startswith("table::") or cp.startswith("raw::")):
                continue
            for q, a in enumerate(t["args"]):
                if a["k"] not in ("copy", "move"):
                    continue
                if body.local_ty(a["p"]["l"])["s"] != "usize":
                    continue
                flds = _hint_fields(body, a)
                if not flds:
                    continue
                n += 1
                key = "%s|%s" % (p, cp.split("::")[-1])
                upper = sorted(f for f, _ in flds if f != "0")
                if upper:
                    R.violation(key, body, "the amount passed to %s is computed from the %s of Iterator::size_hint(): only the lower bound is a promise about how many elements will arrive - "
                                "an honest iterator with a loose upper bound makes this call panic (capacity overflow) or abort although every element would fit"
                                % (cp, "upper bound (.1)" if upper == ["1"] else "whole tuple / component %s" % upper), line=line_of(body, bb=i))
                    R.inst(key, "reserve sized from the upper bound", "violation", True, where(body, bb=i))
                elif _self_dep(body, a):
                    R.violation(key + "|additional", body, "the amount passed to %s is computed from the collection's own state (len/capacity of `self`) as well as the size hint: reserve() takes the number of "
                                "ADDITIONAL elements - adding the current length asks for room that is not needed, so extending by keys that fit in the spare capacity re-allocates" % cp, line=line_of(body, bb=i))
                    R.inst(key, "reserve amount includes the current length", "violation", True, where(body, bb=i))
                elif _exceeds_hint(body, a):
                    R.violation(key + "|exceeds", body, "the amount passed to %s can exceed the iterator's lower size bound (%s): more room is requested than elements are promised, so extending by n keys that "
                                "fit in the spare capacity still re-allocates" % (cp, _exceeds_hint(body, a)), line=line_of(body, bb=i))
                    R.inst(key, "reserve amount exceeds the hint", "violation", True, where(body, bb=i))
                else:
                    R.inst(key, "amount derives from size_hint().0 only", "ok", True, where(body, bb=i))
    R.floor("reserve-from-size_hint sites", n, 2)
    return R


# --------------------------------------------------------------------- R-TRY-WRAPPERS

TRY_WRAPPERS = ("map::HashMap::try_reserve", "set::HashSet::try_reserve", "table::HashTable::try_reserve")


def r_try_wrappers(F, V):
    """The public try_reserve wrappers of HashMap / HashSet / HashTable add nothing that can panic or abort to the raw
    fallible reservation: (a) they reach raw::RawTable::try_reserve; (b) they reach no body that passes the constant
    Fallibility::Infallible (e.g. the panicking sibling `reserve`); (c) they do no arithmetic of their own on the requested
    amount (an overflow check would panic in debug builds, a wrapping add would answer Ok without reserving)."""
    from rules.fallible import callee_fall_param_positions, fall_arg_kind, fall_params, closure_fall_upvars, FALL_FNS
    R = Result("R-TRY-WRAPPERS", F.cfg)
    # bodies that inject the constant Infallible
    inf_roots = {}
    for p, body in F.bodies.items():
        if fall_params(body) or closure_fall_upvars(body):
            continue
        for i, t in body.calls():
            cp = callee_path(t)
            if cp is None:
                continue
            for q in callee_fall_param_positions(F, cp):
                if q < len(t["args"]) and fall_arg_kind(F, body, t["args"][q]) == ("const", "Infallible"):
                    inf_roots[p] = i
    n = 0
    for w in TRY_WRAPPERS:
        b = F.bodies.get(w)
        if b is None:
            R.undec("%s not found" % w)
            continue
        n += 1
        reach = F.reachable_fns(w)
        key = w + "|fallible-only"
        probs = []
        if "raw::RawTable::try_reserve" not in reach:
            probs.append(("does not reach raw::RawTable::try_reserve: the request is not handled by the fallible reservation at all", None))
        for p in sorted(reach):
            if p in inf_roots:
                probs.append(("reaches %s, which passes Fallibility::Infallible: an unsatisfiable request panics (capacity overflow) or aborts (allocation failure) instead of returning Err" % p, None))
        # (c) arithmetic on the request inside the wrapper itself (and in non-raw helpers it calls directly)
        for i in b.normal:
            t = b.term(i)
            if t["k"] == "assert":
                probs.append(("contains a checked arithmetic/bounds assertion: a panic site inside try_reserve", i))
        addl = [l for l in range(1, b.arg_count + 1) if b.locals[l]["ty"]["s"] == "usize"]
        for i, k, s in b.stmts():
            if s["k"] == "assign" and s["rv"]["k"] == "binop" and s["rv"]["op"].replace("WithOverflow", "").replace("Unchecked", "") in ("Add", "Sub", "Mul", "Shl"):
                from rules.round2 import _dep_args
                deps = _dep_args(b, s["rv"]["a"]) | _dep_args(b, s["rv"]["b"])
                if deps & set(addl):
                    probs.append(("does arithmetic (%s) on the requested amount before handing it to the raw table: it overflows for requests near usize::MAX "
                                  "(debug: panic; release: wraps, so Ok(()) may be returned with nothing reserved)" % s["rv"]["op"], i))
        if probs:
            msg, blk = probs[0]
            R.violation(key, b, "%s %s" % (w, "; ".join(sorted(set(m for m, _ in probs)))), line=line_of(b, bb=blk) if blk is not None else None)
            R.inst(key, "; ".join(sorted(set(m for m, _ in probs))), "violation", True, where(b))
        else:
            R.inst(key, "forwards the untouched request to raw::RawTable::try_reserve; %d reachable bodies, none passes Infallible" % len(reach), "ok", True, where(b))
    R.info["bodies passing the constant Infallible"] = len(inf_roots)
    R.floor("public try_reserve wrappers", n, 3)
    R.floor("bodies passing the constant Infallible", len(inf_roots), 3)
    return R


# --------------------------------------------------------------------- R-CAP-WRAPPERS

CAP_WRAPPERS = {
    "reserve": ("reserve",), "shrink_to": ("shrink_to",), "shrink_to_fit": ("shrink_to", "shrink_to_fit"),
    "capacity": ("capacity",), "allocation_size": ("allocation_size",), "clear": ("clear",),
}
LOWER_LAYER = ("raw::RawTable::", "map::HashMap::", "table::HashTable::")


def r_cap_wrappers(F, V):
    """Sibling agreement of the capacity API across the layers (HashSet -> HashMap -> RawTable, HashTable -> RawTable): each
    wrapper hands its request to the same-named operation of the layer below, untouched; shrink requests are not filtered by
    capacity()/growth_left (which tombstones reduce); capacity()/allocation_size() return the lower layer's answer as is."""
    R = Result("R-CAP-WRAPPERS", F.cfg)
    n = 0
    for layer in ("map::HashMap", "set::HashSet", "table::HashTable"):
        for m, targets in CAP_WRAPPERS.items():
            p = "%s::%s" % (layer, m)
            b = F.bodies.get(p)
            if b is None:
                continue
            n += 1
            key = p + "|forwards"
            core = [(i, t) for i, t in b.calls() if (callee_path(t) or "").startswith(LOWER_LAYER) and (callee_path(t) or "").rsplit("::", 1)[1] in targets
                    and (callee_path(t) or "") != p]
            probs = []
            if not core:
                probs.append("does not call %s of the layer below" % "/".join(targets))
            for i, t in core:
                cp = callee_path(t)
                if m in ("shrink_to", "shrink_to_fit"):
                    for (bb, s, S) in controlling_sources(b, i):
                        if S.has_call("::capacity") or S.has_load("growth_left"):
                            probs.append("only forwards the shrink request when a condition on capacity() holds: capacity() is reduced by every tombstone, so a table saturated "
                                         "with removed-slot markers (capacity() close to len() although the bucket array is large) is never shrunk / freed")
                if m in ("reserve", "shrink_to"):
                    own = [l for l in range(1, b.arg_count + 1) if b.locals[l]["ty"]["s"] == "usize"]
                    for a in t["args"]:
                        if a["k"] in ("copy", "move") and b.local_ty(a["p"]["l"])["s"] == "usize":
                            ek = expr_key(b, a)
                            if own and ek != "a%d" % own[0]:
                                probs.append("passes a modified amount (%s) to %s instead of its own argument" % (ek[:60], cp))
                        elif a["k"] == "const" and a.get("t") == "usize":
                            probs.append("passes a constant amount to %s instead of its own argument" % cp)
                if m in ("capacity", "allocation_size"):
                    from rules.derived import _result_defs
                    for val, blk in _result_defs(b):
                        if val != "call" or blk != i:
                            probs.append("returns something other than the unmodified result of %s" % cp)
            if probs:
                R.violation(key, b, "%s %s" % (p, "; ".join(sorted(set(probs)))))
                R.inst(key, "; ".join(sorted(set(probs))), "violation", True, where(b))
            else:
                R.inst(key, "forwards to %s" % sorted(set(callee_path(t) for _, t in core)), "ok", True, where(b))
    R.floor("capacity wrappers", n, 12)
    return R


# --------------------------------------------------------------------- R-SIBLING-FORWARD

LAYER_BELOW = {"set::HashSet": ("map::HashMap", "map"), "map::HashMap": ("raw::RawTable", "raw"), "table::HashTable": ("raw::RawTable", "raw")}
# wrappers that deliberately use a differently named operation of the layer below although a same-named one exists
# (each confirmed by reading; one line of reason per exception)
SIBLING_EXCEPTIONS = {
    "set::HashSet::iter": "a set iterates the keys of its map (HashMap::keys); HashMap::iter would yield pairs",
    "set::HashSet::get": "returns the stored element, i.e. the key of the map entry: HashMap::get_key_value(..).0 (HashMap::get returns the unit value)",
    "map::HashMap::insert": "one search with find_or_find_insert_slot, then insert_in_slot / replace in place (RawTable::insert would not look for an existing key)",
    "table::HashTable::find": "returns &T: RawTable::get is RawTable::find + as_ref",
}


def r_sibling_forward(F, V):
    """Deviant forwarding between the layers (HashSet -> HashMap -> RawTable <- HashTable): when the layer below has an
    operation with the SAME NAME as the wrapper (or implements the same trait method) the wrapper uses it.  A wrapper that
    bypasses its namesake for a sibling (try_reserve -> reserve, clone_from -> the table's clone_from, shrink_to_fit ->
    something else) silently drops what the namesake adds (fallibility, the hasher copy, ...)."""
    R = Result("R-SIBLING-FORWARD", F.cfg)
    methods = {}
    for p in F.bodies:
        if "::{closure" in p:
            continue
        a, _, m = p.rpartition("::")
        methods.setdefault(a, set()).add(m)
    n = 0
    for X, (Y, ymod) in LAYER_BELOW.items():
        xmod, xname = X.split("::")
        yname = Y.split("::")[1]
        for p, b in F.bodies.items():
            if "::{closure" in p:
                continue
            owner, _, m = p.rpartition("::")
            if owner == X:
                namesake = "%s::%s" % (Y, m)
                has_namesake = m in methods.get(Y, ())
            elif owner.startswith("%s::<%s as " % (xmod, xname)):
                tr = owner[len("%s::<%s as " % (xmod, xname)):]
                yowner = "%s::<%s as %s" % (ymod, yname, tr)
                # trait generic arguments mention the type itself: compare on the trait name only
                trname = tr.split("<")[0].rstrip(">")
                cands = [o for o in methods if o.startswith("%s::<%s as %s" % (ymod, yname, trname)) and m in methods[o]]
                has_namesake = bool(cands)
                namesake = (cands[0] + "::" + m) if cands else None
            else:
                continue
            reach = [p] + [c for c in F.bodies if c.startswith(p + "::{closure")]
            called = set()
            for q in reach:
                for i, t in F.bodies[q].calls():
                    cp = callee_path(t) or ""
                    if cp.startswith(Y + "::") or cp.startswith("%s::<%s as " % (ymod, yname)):
                        called.add(cp)
            if not called or not has_namesake:
                continue
            n += 1
            key = p + "|namesake"
            names = set(c.rpartition("::")[2] for c in called)
            if m in names:
                R.inst(key, "uses its namesake %s" % namesake, "ok", True, where(b))
            elif p in SIBLING_EXCEPTIONS:
                R.inst(key, "listed exception: %s" % SIBLING_EXCEPTIONS[p], "exempt", False, where(b))
            else:
                R.violation(key, b, "%s calls %s of the layer below but not its namesake %s, which exists: whatever the namesake adds (error reporting instead of panicking, copying the hasher "
                            "together with the table, the empty/zero special cases, ...) is bypassed" % (p, sorted(called), namesake))
                R.inst(key, "namesake bypassed", "violation", True, where(b))
    R.floor("wrappers with a namesake below", n, 40)
    return R


# --------------------------------------------------------------------- R-TAG-CONSTS

def _tag_consts(F):
    out = {}
    for p, b in F.bodies.items():
        ops = []
        for i, k, s in b.stmts():
            if s["k"] == "assign":
                ops += rv_operands(s["rv"])
        for i, t in b.calls():
            ops += t["args"]
        for o in ops:
            if o["k"] == "const" and o.get("t") == "control::tag::Tag" and o.get("val") is not None:
                d = o.get("def", "")
                if d.endswith("Tag::EMPTY"):
                    out["EMPTY"] = int(o["val"])
                elif d.endswith("Tag::DELETED"):
                    out["DELETED"] = int(o["val"])
        if len(out) == 2:
            break
    return out


def _mask_test(b):
    """a predicate body of the shape `(x.0 & C) ==/!= 0`: returns (C, 'Eq'|'Ne') or None"""
    d = [x for x in b.defs.get(0, ()) if x[0] == "stmt" and x[3]["k"] == "assign"]
    if len(d) != 1 or d[0][3]["rv"]["k"] != "binop" or d[0][3]["rv"]["op"] not in ("Eq", "Ne"):
        return None
    rv = d[0][3]["rv"]
    zero = [o for o in (rv["a"], rv["b"]) if o["k"] == "const" and o.get("val") == 0]
    other = [o for o in (rv["a"], rv["b"]) if o["k"] in ("copy", "move")]
    if len(zero) != 1 or len(other) != 1:
        return None
    dd = b.single_def(other[0]["p"]["l"])
    if not dd or dd[0] != "stmt" or dd[3]["rv"]["k"] != "binop" or dd[3]["rv"]["op"] != "BitAnd":
        return None
    cs = [o for o in (dd[3]["rv"]["a"], dd[3]["rv"]["b"]) if o["k"] == "const"]
    if len(cs) != 1 or cs[0].get("val") is None:
        return None
    return int(cs[0]["val"]), rv["op"]


def _fold(b, o, depth=0):
    """constant value of an operand computed from constants only (None otherwise)"""
    if depth > 12:
        return None
    if o["k"] == "const":
        return int(o["val"]) if isinstance(o.get("val"), int) else None
    if o["k"] not in ("copy", "move"):
        return None
    flds = [e for e in o["p"].get("proj", [])]
    d = b.single_def(o["p"]["l"]) if not flds or (len(flds) == 1 and flds[0].get("name") == "0") else None
    if d is None:
        ds = b.defs.get(o["p"]["l"], ())
        d = ds[0] if len(ds) == 1 else None
    if not d or d[0] != "stmt" or d[3]["k"] != "assign":
        return None
    rv = d[3]["rv"]
    if rv["k"] in ("use", "cast"):
        return _fold(b, rv["op"], depth + 1)
    if rv["k"] == "binop":
        x, y = _fold(b, rv["a"], depth + 1), _fold(b, rv["b"], depth + 1)
        if x is None or y is None:
            return None
        op = rv["op"].replace("WithOverflow", "").replace("Unchecked", "")
        if op in ("Div", "Rem") and y == 0:
            return None
        return {"Add": x + y, "Sub": x - y, "Mul": x * y, "BitAnd": x & y, "BitOr": x | y, "BitXor": x ^ y, "Shl": x << y, "Shr": x >> y,
                "Div": x // y if y else None, "Rem": x % y if y else None}.get(op)
    return None


def r_tag_consts(F, V):
    """Constant relations of the control-byte encoding: the masks tested by Tag::{is_full, is_special, special_is_empty}
    classify the two special constants and every value Tag::full can produce the way the rest of the crate assumes
    (a pure relation between compile-time constants; nothing is evaluated on run-time data)."""
    R = Result("R-TAG-CONSTS", F.cfg)
    tc = _tag_consts(F)
    if len(tc) != 2:
        R.undec("Tag::EMPTY / Tag::DELETED constants not found in any body")
        return R
    E_, D_ = tc["EMPTY"], tc["DELETED"]
    fb = F.bodies.get("control::tag::Tag::full")
    FM = None
    shift = None
    if fb is not None:
        for i, k, s in fb.stmts():
            if s["k"] == "assign" and s["rv"]["k"] == "binop" and s["rv"]["op"] == "BitAnd":
                cs = [o for o in (s["rv"]["a"], s["rv"]["b"]) if o["k"] == "const" and isinstance(o.get("val"), int)]
                if cs:
                    FM = int(cs[0]["val"])
            if s["k"] == "assign" and s["rv"]["k"] == "binop" and s["rv"]["op"].startswith("Shr"):
                shift = _fold(fb, s["rv"]["b"])
    n = 0
    anchor = F.bodies.get("control::tag::Tag::is_full") or fb
    checks = []
    checks.append(("EMPTY != DELETED and both differ from every full tag (top bit)", E_ != D_ and E_ > 127 and D_ > 127, "EMPTY=%#x DELETED=%#x" % (E_, D_)))
    for fn, want_op, why in (("is_full", "Eq", "a tag is full iff none of the mask bits is set"), ("is_special", "Ne", "a tag is special iff a mask bit is set")):
        b = F.bodies.get("control::tag::Tag::" + fn)
        mt = _mask_test(b) if b is not None else None
        if mt is None:
            R.inst("Tag::%s|shape" % fn, "predicate is not of the form (x & C) ==/!= 0: not judged", "exempt", False)
            continue
        C, op = mt
        n += 1
        checks.append(("Tag::%s: operator" % fn, op == want_op, "%s (%s)" % (op, why)))
        checks.append(("Tag::%s: mask %#x classifies EMPTY and DELETED as special" % (fn, C), (E_ & C) != 0 and (D_ & C) != 0, "EMPTY&C=%#x DELETED&C=%#x" % (E_ & C, D_ & C)))
        if FM is not None:
            checks.append(("Tag::%s: mask %#x classifies every Tag::full value (& %#x) as full" % (fn, C, FM), (FM & C) == 0, "FULLMASK&C=%#x" % (FM & C)))
    b = F.bodies.get("control::tag::Tag::special_is_empty")
    mt = _mask_test(b) if b is not None else None
    if mt is None:
        R.inst("Tag::special_is_empty|shape", "predicate is not of the form (x & C) != 0: not judged", "exempt", False)
    else:
        C, op = mt
        n += 1
        truth = (lambda v: ((v & C) != 0) if op == "Ne" else ((v & C) == 0))
        checks.append(("Tag::special_is_empty distinguishes EMPTY (true) from DELETED (false)", truth(E_) and not truth(D_), "mask %#x op %s" % (C, op)))
    if FM is not None:
        n += 1
        checks.append(("Tag::full keeps 7 bits", FM == 0x7f, "mask %#x" % FM))
        if shift is not None:
            bits = 64
            checks.append(("Tag::full takes the TOP 7 bits of the (usize-truncated) hash", shift in (64 - 7, 32 - 7), "shift %d" % shift))
    for name, ok, detail in checks:
        if ok:
            R.inst(name, "%s (%s)" % (name, detail), "ok", True)
        else:
            R.violation("tag|" + name.split(":")[0], anchor, "control-byte encoding relation violated: %s (%s): FULL / EMPTY / DELETED bytes are mis-classified, so probes stop at the wrong place, "
                        "iteration visits non-elements or capacity accounting drifts" % (name, detail))
    R.floor("tag predicates judged", n, 4)
    return R


# --------------------------------------------------------------------- R-BITMASK-DEFS

def r_bitmask_defs(F, V):
    """Definitions in control/bitmask.rs that every group scan relies on: the bit iterator removes exactly the bit it yields
    (progress, each set bit once), remove_lowest_bit is x & (x - 1), invert flips exactly the BITMASK_MASK bits, and the
    bit -> index conversions divide by BITMASK_STRIDE."""
    R = Result("R-BITMASK-DEFS", F.cfg)
    n = 0
    consts = {}
    for p, v in F.consts.items():
        for name in ("BITMASK_STRIDE", "BITMASK_MASK"):
            if p.endswith(name):
                consts[name] = int(str(v["val"]), 0)
    if len(consts) != 2:
        R.undec("BITMASK_STRIDE / BITMASK_MASK not found")
        return R
    # (a) the iterator
    nb = F.bodies.get("control::bitmask::<BitMaskIter as Iterator>::next")
    if nb is None:
        R.undec("BitMaskIter::next not found")
    else:
        n += 1
        key = "BitMaskIter::next|yield-then-remove"
        low = [(i, t) for i, t in nb.calls() if (callee_path(t) or "").endswith("BitMask::lowest_set_bit")]
        rem = [(i, t) for i, t in nb.calls() if (callee_path(t) or "").endswith("BitMask::remove_lowest_bit")]
        probs = []
        if not low or not rem:
            probs.append("does not pair lowest_set_bit with remove_lowest_bit")
        else:
            for i, t in low + rem:
                r, path = operand_deep_root(nb, t["args"][0])
                if r != 1:
                    probs.append("%s is not applied to the iterator's own mask" % (callee_path(t) or "").split("::")[-1])
            stores = []
            for i, k, s in nb.stmts():
                if s["k"] == "assign" and any(e["k"] == "deref" for e in s["p"].get("proj", [])) and nb.root_of_place(s["p"])[0] == 1:
                    if s["rv"]["k"] == "use" and s["rv"]["op"]["k"] in ("copy", "move"):
                        for og in nb.origins(s["rv"]["op"]):
                            if og[0] == "call" and (callee_path(og[2]) or "").endswith("BitMask::remove_lowest_bit"):
                                stores.append(i)
            if not stores:
                probs.append("the result of remove_lowest_bit is not stored back into the iterator")
            else:
                # every return that yields Some is preceded by the store
                for i, k, s in nb.stmts():
                    if s["k"] == "assign" and s["p"]["l"] == 0 and s["rv"]["k"] == "aggregate" and s["rv"].get("variant") == "Some":
                        if not any(nb.dominates(st, i) or st == i for st in stores):
                            probs.append("a bit index is yielded on a path that did not remove it from the mask: the same bit is yielded again")
        if probs:
            R.violation(key, nb, "BitMaskIter::next: " + "; ".join(sorted(set(probs))))
            R.inst(key, "; ".join(sorted(set(probs))), "violation", True, where(nb))
        else:
            R.inst(key, "yields lowest_set_bit(self.0) and stores remove_lowest_bit(self.0) before returning Some", "ok", True, where(nb))
    # (b) remove_lowest_bit = x & (x - 1)
    rb = F.bodies.get("control::bitmask::BitMask::remove_lowest_bit")
    if rb is not None:
        n += 1
        key = "BitMask::remove_lowest_bit|x&(x-1)"
        ok = False
        for i, k, s in rb.stmts():
            if s["k"] == "assign" and s["rv"]["k"] == "binop" and s["rv"]["op"] == "BitAnd":
                ka, kb = expr_key(rb, s["rv"]["a"]), expr_key(rb, s["rv"]["b"])
                for x, y in ((ka, kb), (kb, ka)):
                    if y in ("Sub(%s,c:1:u16)" % x, "Sub(%s,c:1:u64)" % x, "Sub(%s,c:1:u32)" % x, "Sub(%s,c:1:u8)" % x) or (y.startswith("Sub(%s,c:1:" % x)):
                        ok = True
        if ok:
            R.inst(key, "x & (x - 1)", "ok", True, where(rb))
        else:
            R.violation(key, rb, "remove_lowest_bit is not `x & (x - 1)` of one and the same mask: the bit iterator would drop or repeat bits (buckets skipped or visited twice)")
            R.inst(key, "not x & (x - 1)", "violation", True, where(rb))
    # (c) invert = x ^ BITMASK_MASK
    ib = F.bodies.get("control::bitmask::BitMask::invert")
    if ib is not None:
        n += 1
        key = "BitMask::invert|xor-mask"
        ok = False
        for i, k, s in ib.stmts():
            if s["k"] == "assign" and s["rv"]["k"] == "binop" and s["rv"]["op"] == "BitXor":
                cs = [o for o in (s["rv"]["a"], s["rv"]["b"]) if o["k"] == "const" and o.get("val") is not None]
                try:
                    if cs and int(str(cs[0]["val"]), 0) == consts["BITMASK_MASK"]:
                        ok = True
                except ValueError:
                    pass
        bits_ = None
        for p_, v_ in F.consts.items():
            if p_.endswith("BITMASK_MASK"):
                bits_ = v_.get("bits")
        for i, k, s in ib.stmts():
            if s["k"] == "assign" and s["rv"]["k"] == "unop" and s["rv"]["op"] == "Not" and bits_ and consts["BITMASK_MASK"] == (1 << bits_) - 1:
                ok = True   # `!x` flips every bit of the word, which is exactly the mask when the mask is all ones
        if ok:
            R.inst(key, "x ^ BITMASK_MASK (%#x)" % consts["BITMASK_MASK"], "ok", True, where(ib))
        else:
            R.violation(key, ib, "BitMask::invert does not flip exactly the BITMASK_MASK bits (%#x): match_full = !match_empty_or_deleted would report bits that belong to no bucket or miss buckets" % consts["BITMASK_MASK"])
            R.inst(key, "invert mask wrong", "violation", True, where(ib))
    # (d) bit -> index conversions divide by the stride, and use the matching count-zeros primitive
    for fn, prim in (("trailing_zeros", "trailing_zeros"), ("nonzero_trailing_zeros", "trailing_zeros"), ("leading_zeros", "leading_zeros")):
        b = F.bodies.get("control::bitmask::BitMask::" + fn)
        if b is None:
            continue
        n += 1
        key = "BitMask::%s|stride" % fn
        divs = [s for i, k, s in b.stmts() if s["k"] == "assign" and s["rv"]["k"] == "binop" and s["rv"]["op"] == "Div"]
        bad = [s for s in divs if not (s["rv"]["b"]["k"] == "const" and s["rv"]["b"].get("val") == consts["BITMASK_STRIDE"])]
        # the arm that is live (not behind a constant-false cfg!) uses the primitive named like the function
        live = set(b.normal)
        for i in b.normal:
            t = b.term(i)
            if t["k"] == "switch" and t["discr"]["k"] in ("copy", "move"):
                d = b.single_def(t["discr"]["p"]["l"])
                if d and d[0] == "stmt" and d[3]["rv"]["k"] == "use" and d[3]["rv"]["op"]["k"] == "const" and d[3]["rv"]["op"].get("val") in (0, False):
                    dead = [x for v, x in t["targets"] if v != 0]
                    if 0 not in [v for v, _ in t["targets"]]:
                        dead = [t["otherwise"]] if False else dead
                    zero_t = [x for v, x in t["targets"] if v == 0]
                    for dx in b.nsucc[i]:
                        if dx not in zero_t:
                            live -= b.reachable_from(dx, tuple(zero_t)) - b.reachable_from(zero_t[0]) if zero_t else set()
        prims = [(callee_path(t) or "") for i, t in b.calls() if i in live and ("leading_zeros" in (callee_path(t) or "") or "trailing_zeros" in (callee_path(t) or ""))]
        probs = []
        stride = consts["BITMASK_STRIDE"]
        if bad or (not divs and stride != 1):
            probs.append("the bit position is not divided by BITMASK_STRIDE (%d)" % stride)
        # an equivalent spelling: lowest_set_bit().unwrap_or(K) is trailing_zeros exactly when K = BITS / STRIDE (the
        # value for the empty mask: "no set bit in the whole group")
        via_lowest = [i for i, t in b.calls() if (callee_path(t) or "").endswith("BitMask::lowest_set_bit")]
        uo = [t for i, t in b.calls() if (callee_path(t) or "").endswith("Option::unwrap_or")]
        if fn == "trailing_zeros" and via_lowest and uo and not prims:
            bits_ = None
            for p_, v_ in F.consts.items():
                if p_.endswith("BITMASK_MASK"):
                    bits_ = v_.get("bits")
            kdef = _fold(b, uo[0]["args"][1]) if len(uo[0]["args"]) > 1 else None
            if kdef is None or bits_ is None:
                R.inst(key, "trailing_zeros via lowest_set_bit().unwrap_or(<not a constant>): not judged", "exempt", False, where(b))
                continue
            if kdef != bits_ // stride:
                probs = ["for the empty mask it returns %d instead of %d (= BITS / STRIDE, 'no set bit in the whole group')" % (kdef, bits_ // stride)]
            else:
                probs = []
        elif not prims or not all(p_.endswith(prim) for p_ in prims):
            probs.append("the live arm counts %s instead of %s" % ([p_.split("::")[-1] for p_ in prims], prim))
        if probs:
            R.violation(key, b, "BitMask::%s: %s: bit positions no longer map to bucket indices within the group" % (fn, "; ".join(probs)))
            R.inst(key, "; ".join(probs), "violation", True, where(b))
        else:
            R.inst(key, "%s / BITMASK_STRIDE" % prim, "ok", True, where(b))
    lb = F.bodies.get("control::bitmask::BitMask::lowest_set_bit")
    if lb is not None:
        n += 1
        key = "BitMask::lowest_set_bit|stride"
        stride = consts["BITMASK_STRIDE"]
        reach = F.reachable_fns("control::bitmask::BitMask::lowest_set_bit")
        has_div = False
        for q in reach:
            qb = F.bodies.get(q)
            if qb is None or not q.startswith("control::bitmask::"):
                continue
            for i, k, st in qb.stmts():
                if st["k"] == "assign" and st["rv"]["k"] == "binop" and st["rv"]["op"] == "Div" and st["rv"]["b"]["k"] == "const" and st["rv"]["b"].get("val") == stride:
                    has_div = True
        if has_div or stride == 1:
            R.inst(key, "index of the lowest set bit = trailing zeros / BITMASK_STRIDE (%d)%s" % (stride, "" if has_div else " (stride 1: the division is the identity in this configuration)"), "ok", True, where(lb))
        else:
            R.violation(key, lb, "lowest_set_bit does not divide the bit position by BITMASK_STRIDE (%d): with this back-end bit i*%d+%d stands for bucket i, so bucket indices come out %d times too large "
                        "(out-of-bounds buckets from every scan)" % (stride, stride, stride - 1, stride))
            R.inst(key, "stride not applied", "violation", True, where(lb))
    R.floor("bitmask definitions judged", n, 5)
    return R


# --------------------------------------------------------------------- R-ARG-ORDER

ARG_ORDER_EXCEPTIONS = {
    ("set::HashSet::is_superset", "set::HashSet::is_subset"): "a.is_superset(b) is defined as b.is_subset(a)",
    ("set::HashSet::symmetric_difference", "set::HashSet::difference"): "a.difference(b) chained with b.difference(a) (the pair is checked by R-SET-DELEGATION)",
    ("external_trait_impls::rayon::set::HashSet::par_is_superset", "external_trait_impls::rayon::set::HashSet::par_is_subset"): "a.par_is_superset(b) is defined as b.par_is_subset(a)",
}


def _arg_name(b, o):
    """source-level name of what is passed: the last field projected, else the name of the (copied-from) local"""
    if o["k"] not in ("copy", "move"):
        return None
    src = o["p"]
    for _ in range(6):
        flds = [e.get("name") for e in src.get("proj", []) if e["k"] == "field"]
        if flds:
            return flds[-1]
        nm = b.locals[src["l"]].get("name")
        if nm:
            return nm
        d = b.single_def(src["l"])
        if not d or d[0] != "stmt" or d[3]["k"] != "assign":
            return None
        rv = d[3]["rv"]
        src = rv.get("op", {}).get("p") if rv["k"] in ("use", "cast") else rv.get("p") if rv["k"] in ("ref", "rawptr") else None
        if src is None:
            return None
    return None


def r_arg_order(F, V):
    """Swapped same-typed arguments: at every resolved call of a crate function, a value whose source-level name is the name
    of ANOTHER parameter of the same type (e.g. `index` passed as `hash`, `other` passed as `self`) is a swap, unless the
    pair (caller, callee) is a listed intentional one."""
    R = Result("R-ARG-ORDER", F.cfg)
    n = 0
    for p, b in F.bodies.items():
        for i, t in b.calls():
            cp = callee_path(t)
            cb = F.bodies.get(cp)
            if cb is None:
                continue
            k = min(cb.arg_count, len(t["args"]))
            if k < 2:
                continue
            pn = [cb.locals[q + 1].get("name") for q in range(k)]
            pt = [cb.locals[q + 1]["ty"]["s"] for q in range(k)]
            an = [_arg_name(b, a) for a in t["args"][:k]]
            n += 1
            for x in range(k):
                for y in range(k):
                    if x != y and an[x] and an[x] == pn[y] and an[x] != pn[x] and pt[x] == pt[y]:
                        outer = p
                        while "::{closure#" in outer:
                            outer = outer.rsplit("::{closure#", 1)[0]
                        key = "%s|->%s|%s" % (outer, cp.split("::")[-1], an[x])
                        if (outer, cp) in ARG_ORDER_EXCEPTIONS:
                            R.inst(key, "intentional: %s" % ARG_ORDER_EXCEPTIONS[(outer, cp)], "exempt", False, where(b, bb=i))
                        else:
                            R.violation(key, b, "`%s` is passed to %s in the position of its parameter `%s` although the callee has a parameter `%s` of the same type (%s): two same-typed arguments are swapped"
                                        % (an[x], cp, pn[x], pn[y], pt[x]), line=line_of(b, bb=i))
                            R.inst(key, "same-typed arguments swapped", "violation", True, where(b, bb=i))
    R.info["call sites of crate functions with two or more parameters"] = n
    R.floor("call sites examined", n, 300)
    return R


# --------------------------------------------------------------------- R-ZST-DROP

DROP_SITES = ("core::ptr::drop_in_place", "raw::Bucket::drop", "raw::RawTableInner::drop_elements", "raw::RawIter::drop_elements",
              "raw::RawTableInner::drop_inner_table", "core::mem::drop")


def r_zst_drop(F, V):
    """Zero-sized element types can implement Drop (tokens, guards): their destructors run like any other's.
    (1) SizedTypeProperties::NEEDS_DROP is mem::needs_drop::<Self>() and nothing else; (2) no destructor site, and no
    construction of the drop function handed to the in-place rehash, is control dependent on IS_ZERO_SIZED / size_of."""
    R = Result("R-ZST-DROP", F.cfg)
    n = 0
    cb = F.bodies.get("raw::SizedTypeProperties::NEEDS_DROP")
    if cb is None:
        R.undec("the constant raw::SizedTypeProperties::NEEDS_DROP has no extracted body")
    else:
        n += 1
        key = "raw::SizedTypeProperties::NEEDS_DROP|definition"
        callees = [(callee_path(t) or "") for i, t in cb.calls()]
        switches = [i for i in cb.normal if cb.term(i)["k"] == "switch"]
        others = [c for c in callees if not c.endswith("mem::needs_drop")]
        mentions_zst = any(o["k"] == "const" and "IS_ZERO_SIZED" in str(o.get("def", "")) for i, k, s in cb.stmts() if s["k"] == "assign" for o in rv_operands(s["rv"])) \
            or any(c.endswith("size_of") for c in callees)
        if any(c.endswith("mem::needs_drop") for c in callees) and not switches and not others and not mentions_zst:
            R.inst(key, "NEEDS_DROP = mem::needs_drop::<Self>()", "ok", True, where(cb))
        else:
            R.violation(key, cb, "NEEDS_DROP is not exactly mem::needs_drop::<Self>() (callees %s, branches %d, mentions the size: %s): every bulk destructor path (table drop, clear, drain, into_iter, "
                        "the rehash guard) is gated on it, so elements of a type it wrongly excludes - e.g. zero-sized types with a Drop impl - are never dropped" % (sorted(set(callees)), len(switches), mentions_zst))
            R.inst(key, "NEEDS_DROP altered", "violation", True, where(cb))

    def zst_switch(b, i):
        t = b.term(i)
        if t["k"] != "switch":
            return False
        S = branch_sources(b, i)
        return any("IS_ZERO_SIZED" in str(c.get("def", "")) for c in S.consts) or any(c.endswith("mem::size_of") for c in S.calls)

    sites = 0
    for p, b in F.bodies.items():
        for i, t in b.calls():
            cp = callee_path(t) or ""
            if cp not in DROP_SITES and not cp.endswith("::drop_in_place"):
                continue
            sites += 1
            for (bb, s) in b.control_deps_trans(i, "all"):
                if b.term(bb)["k"] == "switch":
                    Sg = branch_sources(b, bb)
                    if Sg.has_load("growth_left") or Sg.has_call("::capacity"):
                        R.violation("%s|drop-gated-on-room" % p, b, "a destructor run (%s) is control dependent on growth_left / capacity(): whether elements are dropped must depend on whether there ARE elements "
                                    "(items), not on how much free room the table has - an exactly full table would leak all of its elements" % cp, line=line_of(b, bb=i))
                        R.inst("%s|drop-gated-on-room" % p, "destructor gated on free room", "violation", True, where(b, bb=i))
                if zst_switch(b, bb):
                    R.violation("%s|drop-gated-on-size" % p, b, "a destructor run (%s) is control dependent on the element type being (non-)zero-sized: zero-sized types may implement Drop, "
                                "their elements would be leaked" % cp, line=line_of(b, bb=i))
                    R.inst("%s|drop-gated-on-size" % p, "destructor gated on IS_ZERO_SIZED", "violation", True, where(b, bb=i))
        # construction of Some(drop fn) handed to reserve_rehash_inner / rehash_in_place
        for i, k, s in b.stmts():
            if s["k"] == "assign" and s["rv"]["k"] == "aggregate" and s["rv"].get("variant") == "Some" and "fn(" in str(b.local_ty(s["p"]["l"]).get("s", "")) and "Option" in str(b.local_ty(s["p"]["l"]).get("s", "")):
                sites += 1
                for (bb, sx) in b.control_deps_trans(i, "all"):
                    if zst_switch(b, bb):
                        R.violation("%s|dropfn-gated-on-size" % p, b, "the element drop function handed to the in-place rehash (used by its unwind guard) is only provided for non-zero-sized types: "
                                    "a panicking hasher then removes not-yet-rehashed zero-sized elements from the table without dropping them", line=line_of(b, stmt=s))
                        R.inst("%s|dropfn-gated-on-size" % p, "drop fn gated on IS_ZERO_SIZED", "violation", True, where(b, stmt=s))
    R.info["destructor sites examined"] = sites
    if not R.violations:
        R.inst("all-bodies|drop-not-gated-on-size", "none of %d destructor sites / drop-fn constructions is control dependent on IS_ZERO_SIZED" % sites, "ok", True)
    R.floor("destructor sites examined", sites, 15)
    return R


# --------------------------------------------------------------------- R-FORGET-WINDOW

FORGET_WRAPPERS = ("core::mem::manually_drop::ManuallyDrop::new", "core::mem::forget", "core::mem::maybe_uninit::MaybeUninit::new")
FORGET_ENDS = ("core::mem::manually_drop::ManuallyDrop::into_inner", "core::mem::manually_drop::ManuallyDrop::drop", "core::mem::manually_drop::ManuallyDrop::take")
RESOURCE_TYPES = ("raw::RawTable", "raw::RawTableInner", "map::HashMap", "set::HashSet", "table::HashTable")


def r_forget_window(F, V):
    """A value that owns a table allocation (RawTable, RawTableInner, the collections) is never kept in a ManuallyDrop
    (i.e. with its destructor switched off) while user code can run: a panic in that callback would unwind past it
    and the block - and every element already in it - is never released, although no destructor panicked."""
    R = Result("R-FORGET-WINDOW", F.cfg)
    n = 0
    for p, b in F.bodies.items():
        for i, t in b.calls():
            cp = callee_path(t) or ""
            if cp != FORGET_WRAPPERS[0] or not t["args"] or t["args"][0]["k"] not in ("copy", "move"):
                continue
            ty = b.local_ty(t["args"][0]["p"]["l"])
            if ty.get("k") != "adt" or ty.get("path") not in RESOURCE_TYPES:
                continue
            n += 1
            key = "%s|ManuallyDrop<%s>" % (p, ty["path"].split("::")[-1])
            ends = tuple(j for j, t2 in b.calls() if (callee_path(t2) or "") in FORGET_ENDS)
            reach = set()
            for s in b.nsucc[i]:
                reach |= b.reachable_from(s, ends)
            cbs = [(j, d) for (j, d) in V.callback_sites(b) if j in reach and not V.is_destructor_site(b, j)]
            if cbs:
                j, d = cbs[0]
                R.violation(key, b, "a %s is held in a ManuallyDrop while user code can run (%s): if that callback panics the value is never dropped, so its allocation and the elements already "
                            "stored in it are leaked although no destructor panicked" % (ty["path"], d), line=line_of(b, bb=j))
                R.inst(key, "destructor switched off across a user callback", "violation", True, where(b, bb=i))
            else:
                R.inst(key, "no user callback between ManuallyDrop::new and into_inner/drop", "ok", True, where(b, bb=i))
    R.info["ManuallyDrop<table-owning value> sites"] = n
    R.inst("scan", "%d bodies scanned for table-owning values wrapped in ManuallyDrop" % len(F.bodies), "ok", n > 0)
    return R


# --------------------------------------------------------------------- R-LOAD-FACTOR

def _lt_const_arms(b):
    """[(T, B, block)] for every `if x < T { B }` whose true arm assigns the constant B to a local"""
    out = []
    for i in b.normal:
        t = b.term(i)
        if t["k"] != "switch" or t["discr"]["k"] not in ("copy", "move"):
            continue
        d = b.single_def(t["discr"]["p"]["l"])
        if not d or d[0] != "stmt" or d[3]["rv"]["k"] != "binop" or d[3]["rv"]["op"] != "Lt":
            continue
        c = d[3]["rv"]["b"]
        if c["k"] != "const" or not isinstance(c.get("val"), int):
            continue
        zero = [x for v, x in t["targets"] if v == 0]
        for x in b.nsucc[i]:
            if x in zero:
                continue
            consts = [s["rv"]["op"]["val"] for s in b.blocks[x]["stmts"] if s["k"] == "assign" and s["rv"]["k"] == "use" and s["rv"]["op"]["k"] == "const"
                      and isinstance(s["rv"]["op"].get("val"), int) and s["rv"]["op"].get("t") == "usize"]
            out.append((int(c["val"]), consts[0] if consts else None, i, zero[0] if zero else None))
    return out


def r_load_factor(F, V):
    """Constant relations of the load-factor arithmetic (no arithmetic is evaluated on run-time values): the capacity of a table
    is strictly less than its bucket count (at least one EMPTY byte always ends a probe), and capacity_to_buckets is the
    inverse of bucket_mask_to_capacity (the buckets chosen for n elements have capacity >= n)."""
    R = Result("R-LOAD-FACTOR", F.cfg)
    cb, tb = F.bodies.get("raw::bucket_mask_to_capacity"), F.bodies.get("raw::capacity_to_buckets")
    if cb is None or tb is None:
        R.undec("bucket_mask_to_capacity / capacity_to_buckets not found")
        return R
    anchor = cb
    D = M = None
    for i, k, s in cb.stmts():
        if s["k"] == "assign" and s["rv"]["k"] == "binop":
            op = s["rv"]["op"].replace("WithOverflow", "").replace("Unchecked", "")
            c = s["rv"]["b"]
            if op == "Div" and c["k"] == "const":
                D = int(c["val"])
            if op == "Mul" and c["k"] == "const":
                M = int(c["val"])
    small = _lt_const_arms(cb)
    checks = []
    n = 0
    if D is None or M is None:
        R.inst("bucket_mask_to_capacity|shape", "not of the form (mask + 1) / D * M: not judged", "exempt", False, where(cb))
    else:
        n += 1
        checks.append(("bucket_mask_to_capacity: load factor M/D < 1", M < D, "M=%d D=%d" % (M, D), cb))
        for T, B, blk, _ in small:
            checks.append(("bucket_mask_to_capacity: the small-table arm (mask < T returns mask) ends where whole groups of D buckets begin", T <= D, "T=%d D=%d" % (T, D), cb))
    # inverse constants
    Dc = Mc = None
    for i, t in tb.calls():
        if (callee_path(t) or "").endswith("checked_mul") and len(t["args"]) > 1 and t["args"][1]["k"] == "const":
            Dc = int(t["args"][1]["val"])
    for i, k, s in tb.stmts():
        if s["k"] == "assign" and s["rv"]["k"] == "binop" and s["rv"]["op"] == "Div" and s["rv"]["b"]["k"] == "const":
            Mc = int(s["rv"]["b"]["val"])
    if Dc is None or Mc is None:
        R.inst("capacity_to_buckets|shape", "large arm not of the form cap.checked_mul(D)? / M: not judged", "exempt", False, where(tb))
    elif D is not None:
        n += 1
        checks.append(("capacity_to_buckets inverts the load factor (cap * D / M with the same D, M)", Dc * M >= D * Mc and Dc > Mc, "cap*%d/%d vs buckets/%d*%d" % (Dc, Mc, D, M), tb))
    # small arms of capacity_to_buckets: cap < T -> B buckets needs capacity(B) = B - 1 >= T - 1
    arms = _lt_const_arms(tb)
    outer = [a for a in arms if a[1] is None]
    L = max([a[0] for a in outer], default=None)
    inner = [a for a in arms if a[1] is not None]
    Tsmall = small[0][0] if small else None

    def cap_of(B):
        if D is None or M is None or Tsmall is None:
            return B - 1
        return (B - 1) if (B - 1) < Tsmall else (B // D) * M
    for T, B, blk, _ in inner:
        n += 1
        checks.append(("capacity_to_buckets: cap < %d gets %d buckets, whose capacity %d covers it" % (T, B, cap_of(B)), cap_of(B) >= T - 1, "T=%d B=%d" % (T, B), tb))
    # the last small arm and the minimum capacities
    lastB = None
    allB = [s["rv"]["op"]["val"] for i, k, s in tb.stmts() if s["k"] == "assign" and s["rv"]["k"] == "use" and s["rv"]["op"]["k"] == "const"
            and isinstance(s["rv"]["op"].get("val"), int) and s["rv"]["op"].get("t") == "usize"]
    if inner and L is not None:
        biggest = max(x for x in allB if x in (4, 8, 16, 32, 64)) if [x for x in allB if x in (4, 8, 16, 32, 64)] else None
        if biggest is not None:
            n += 1
            checks.append(("capacity_to_buckets: the largest small-table size %d (capacity %d) covers every cap < %d handled by the small arm" % (biggest, cap_of(biggest), L), cap_of(biggest) >= L - 1, "L=%d" % L, tb))
    for name, ok, detail, body in checks:
        if ok:
            R.inst(name, "%s (%s)" % (name, detail), "ok", True, where(body))
        else:
            R.violation("load-factor|" + name.split(":")[0] + "|" + detail.split(" ")[0], body, "load-factor constant relation violated: %s (%s): either a table can fill up completely (no EMPTY byte: a probe for an absent key "
                        "never terminates) or the buckets chosen for n elements cannot hold n elements (reserve(n) / with_capacity(n) promise broken)" % (name, detail))
    R.floor("load-factor relations judged", n, 4)
    return R


# --------------------------------------------------------------------- R-ERASE-WINDOW

def _fold_key(k):
    """value of an expr_key made of integer constants and + - * only (None otherwise)"""
    import re as _re
    k = k[:-2] if k.endswith(".0") else k
    m = _re.match(r"^c:(\d+):[iu](size|\d+)$", k)
    if m:
        return int(m.group(1))
    sp = _split_top(k)
    if sp and sp[0] in ("Add", "Sub", "Mul") and len(sp[1]) == 2:
        a, b = _fold_key(sp[1][0]), _fold_key(sp[1][1])
        if a is None or b is None:
            return None
        return {"Add": a + b, "Sub": a - b, "Mul": a * b}[sp[0]]
    return None


def r_erase_window(F, V):
    """erase() may turn the slot back into EMPTY only if no probe sequence can have passed over it while it was full, i.e. if
    the run of non-EMPTY bytes around it is shorter than a group: DELETED exactly when
    leading_zeros(match_empty(group before)) + trailing_zeros(match_empty(group at index)) >= Group::WIDTH."""
    from rules.arith import cls
    R = Result("R-ERASE-WINDOW", F.cfg)
    b = F.bodies.get("raw::RawTableInner::erase")
    if b is None:
        R.undec("raw::RawTableInner::erase not found")
        return R
    W = None
    for p, v in F.consts.items():
        if p.endswith("Group::WIDTH"):
            W = int(v["val"])
    key = "raw::RawTableInner::erase|deleted-iff-window-full"
    # the block that selects the DELETED tag
    del_blocks = [i for i, k, s in b.stmts() if s["k"] == "assign" and s["rv"]["k"] == "use" and s["rv"]["op"]["k"] == "const"
                  and s["rv"]["op"].get("t") == "control::tag::Tag" and s["rv"]["op"].get("val") == 128]
    emp_blocks = [i for i, k, s in b.stmts() if s["k"] == "assign" and s["rv"]["k"] == "use" and s["rv"]["op"]["k"] == "const"
                  and s["rv"]["op"].get("t") == "control::tag::Tag" and s["rv"]["op"].get("val") == 255]
    if not del_blocks or not emp_blocks or W is None:
        R.undec("erase: DELETED / EMPTY selection or Group::WIDTH not found")
        return R
    probs = []
    found = False
    for i in b.normal:
        t = b.term(i)
        if t["k"] != "switch" or t["discr"]["k"] not in ("copy", "move"):
            continue
        d = b.single_def(t["discr"]["p"]["l"])
        for _ in range(6):   # look through plain copies (e.g. the return slot of an inlined helper)
            if d and d[0] == "stmt" and d[3]["rv"]["k"] == "use" and d[3]["rv"]["op"]["k"] in ("copy", "move") and not d[3]["rv"]["op"]["p"].get("proj"):
                d = b.single_def(d[3]["rv"]["op"]["p"]["l"])
            else:
                break
        if not d or d[0] != "stmt" or d[3]["rv"]["k"] != "binop" or d[3]["rv"]["op"] not in ("Ge", "Gt", "Le", "Lt"):
            continue
        rv = d[3]["rv"]
        cside = [q for q, o in enumerate((rv["a"], rv["b"])) if o["k"] == "const" and isinstance(o.get("val"), int)]
        if len(cside) != 1:
            continue
        C = int((rv["a"], rv["b"])[cside[0]]["val"])
        other = (rv["a"], rv["b"])[1 - cside[0]]
        # the other side is leading_zeros(..) + trailing_zeros(..)
        od = b.single_def(other["p"]["l"]) if other["k"] in ("copy", "move") else None
        while od and od[0] == "stmt" and od[3]["rv"]["k"] == "use" and od[3]["rv"]["op"]["k"] in ("copy", "move"):
            od = b.single_def(od[3]["rv"]["op"]["p"]["l"])
        if not od or od[0] != "stmt" or od[3]["rv"]["k"] != "binop" or not od[3]["rv"]["op"].startswith("Add"):
            continue
        parts = []
        idx_keys = []
        for o in (od[3]["rv"]["a"], od[3]["rv"]["b"]):
            pd = b.single_def(o["p"]["l"]) if o["k"] in ("copy", "move") else None
            parts.append((callee_path(pd[3]) or "").split("::")[-1] if pd and pd[0] == "call" else "?")
            # which group does it look at?
            if pd and pd[0] == "call":
                idx = None
                cur = pd[3]["args"][0]
                for _ in range(12):
                    if cur["k"] not in ("copy", "move"):
                        break
                    dd = b.single_def(b.root_of_place(cur["p"])[0])
                    if not dd:
                        break
                    if dd[0] == "call":
                        if (callee_path(dd[3]) or "").endswith("RawTableInner::ctrl"):
                            idx = cls(b, dd[3]["args"][1])
                            idx_keys.append((parts[-1] if isinstance(parts[-1], str) else parts[-1][0], expr_key(b, dd[3]["args"][1])))
                            break
                        if not dd[3]["args"]:
                            break
                        cur = dd[3]["args"][0]
                    else:
                        ops = rv_operands(dd[3]["rv"])
                        if not ops:
                            break
                        cur = ops[0]
                parts[-1] = (parts[-1], idx)
        found = True
        # normalise to `sum OP C` holding on the edge to the DELETED block
        op = rv["op"]
        if cside[0] == 0:
            op = {"Ge": "Le", "Gt": "Lt", "Le": "Ge", "Lt": "Gt"}[op]
        zero = [x for v, x in t["targets"] if v == 0]
        for s_ in b.nsucc[i]:
            truth = s_ not in zero
            rel = op if truth else {"Ge": "Lt", "Gt": "Le", "Le": "Gt", "Lt": "Ge"}[op]
            to_del = any(db == s_ or db in b.reachable_from(s_, tuple(emp_blocks)) for db in del_blocks) and not any(eb == s_ for eb in emp_blocks)
            if to_del and s_ in del_blocks:
                # DELETED when sum rel C: must be equivalent to sum >= W
                okrel = (rel == "Ge" and C == W) or (rel == "Gt" and C == W - 1)
                if not okrel:
                    probs.append("the slot becomes DELETED when the run of non-EMPTY bytes `%s %d` instead of `>= %d` (Group::WIDTH): with a run of exactly one group width a probe may have passed over the slot, "
                                 "so marking it EMPTY cuts that probe chain (a present key is reported absent)" % ({"Ge": ">=", "Gt": ">", "Le": "<=", "Lt": "<"}[rel], C, W))
        # the group before starts exactly one group width earlier: (index - WIDTH) & bucket_mask
        import re as _re
        for nm_, kx in idx_keys:
            if nm_ == "leading_zeros":
                m_ = _re.match(r"^BitAnd\((?:[A-Za-z_:]*wrapping_sub|Sub)\((a\d+),c:(\d+):usize\)(?:\.0)?,[^,()]*bucket_mask\)$", kx)
                if not m_:
                    # the distance written as a constant expression (e.g. WIDTH + 1): fold it
                    sp_ = _split_top(kx)
                    if sp_ and sp_[0] == "BitAnd" and len(sp_[1]) == 2:
                        inner_ = _split_top(sp_[1][0])
                        if inner_ and (inner_[0].endswith("wrapping_sub") or inner_[0] == "Sub") and len(inner_[1]) == 2:
                            dist = _fold_key(inner_[1][1])
                            if dist is not None and dist != W:
                                probs.append("the group inspected before the slot starts %d positions earlier instead of Group::WIDTH (%d): the run of non-EMPTY bytes around the slot is mis-measured, "
                                             "so a slot inside a full window can be marked EMPTY (cutting a probe chain)" % (dist, W))
                if m_ and int(m_.group(2)) != W:
                    probs.append("the group inspected before the slot starts %s positions earlier instead of Group::WIDTH (%d): the run of non-EMPTY bytes around the slot is mis-measured, "
                                 "so a slot inside a full window can be marked EMPTY (cutting a probe chain)" % (m_.group(2), W))
        names = sorted(str(x) for x in parts)
        lz = [x for x in parts if isinstance(x, tuple) and x[0] == "leading_zeros"]
        tz = [x for x in parts if isinstance(x, tuple) and x[0] == "trailing_zeros"]
        if len(lz) != 1 or len(tz) != 1:
            probs.append("the run length is not leading_zeros(..) + trailing_zeros(..) (found %s)" % names)
        else:
            if lz[0][1] != "MASKED":
                probs.append("leading_zeros is applied to the group at index class %s, not to the group BEFORE the slot ((index - WIDTH) & mask): empties are counted on the wrong side" % lz[0][1])
            if not str(tz[0][1]).startswith("PARAM"):
                probs.append("trailing_zeros is applied to the group at index class %s, not to the group starting AT the slot" % tz[0][1])
    if not found:
        R.undec("erase: the comparison of the non-EMPTY run length against Group::WIDTH was not found")
    elif probs:
        R.violation(key, b, "; ".join(sorted(set(probs))))
        R.inst(key, "; ".join(sorted(set(probs))), "violation", True, where(b))
    else:
        R.inst(key, "DELETED iff leading_zeros(empties before) + trailing_zeros(empties at) >= Group::WIDTH (%d)" % W, "ok", True, where(b))
    return R


# --------------------------------------------------------------------- R-PROBE-INDEX

def _split_top(s):
    """split 'f(a,b,..)suffix' into (f, [args], suffix) at the top level; None if s is not a call-shaped key"""
    i = s.find("(")
    if i <= 0 or not s.rstrip(".0123456789abcdefghijklmnopqrstuvwxyz_").endswith(")"):
        return None
    depth = 0
    args, cur = [], ""
    end = None
    for j in range(i, len(s)):
        ch = s[j]
        if ch == "(":
            depth += 1
            if depth == 1:
                continue
        elif ch == ")":
            depth -= 1
            if depth == 0:
                args.append(cur)
                end = j
                break
        elif ch == "," and depth == 1:
            args.append(cur)
            cur = ""
            continue
        cur += ch
    if end is None:
        return None
    return s[:i], args, s[end + 1:]


def _add_leaves(key):
    sp = _split_top(key)
    if sp and (sp[0] in ("Add", "core::num::usize::wrapping_add") or sp[0].endswith("::wrapping_add")) and len(sp[1]) == 2 and sp[2] in ("", ".0"):
        return _add_leaves(sp[1][0]) + _add_leaves(sp[1][1])
    return [key]


PROBE_INDEXERS = ("raw::RawTableInner::find_inner", "raw::RawTableInner::find_insert_slot_in_group",
                  "raw::RawTableInner::find_or_find_insert_slot_inner", "raw::<RawIterHashInner as Iterator>::next")


def r_probe_index(F, V):
    """Sibling agreement of the four places that turn 'bit b of the group at probe position p' into a bucket index: the index
    is (p + b) & bucket_mask - exactly the probe position plus the bit index, reduced by the table's own mask."""
    R = Result("R-PROBE-INDEX", F.cfg)
    n = 0
    for p in PROBE_INDEXERS:
        b = F.bodies.get(p)
        if b is None:
            R.undec("%s not found" % p)
            continue
        masked = []
        for i, k, s in b.stmts():
            if s["k"] == "assign" and s["rv"]["k"] == "binop" and s["rv"]["op"] == "BitAnd":
                ka, kb = expr_key(b, s["rv"]["a"]), expr_key(b, s["rv"]["b"])
                if ka.endswith(".bucket_mask") or kb.endswith(".bucket_mask"):
                    val_ = kb if ka.endswith(".bucket_mask") else ka
                    # the advance of the probe position itself (`pos = (pos + stride) & mask`, ProbeSeq::move_next possibly
                    # inlined here) is R-PROBE-STEP's business, not an index computation
                    lfp = last_field(s["p"])
                    if (lfp and lfp.get("name") == "pos") or ".stride" in val_:
                        continue
                    masked.append((s, val_, ka if ka.endswith(".bucket_mask") else kb))
        key = p + "|index"
        if not masked:
            R.violation(key, b, "%s does not reduce its bucket index by `& self.bucket_mask`" % p)
            R.inst(key, "no masked index", "violation", True, where(b))
            continue
        n += 1
        probs = []
        for s, val, mask in masked:
            leaves = _add_leaves(val)
            pos = [x for x in leaves if x.endswith(".pos")]
            bit = [x for x in leaves if "BitMaskIter as Iterator>::next" in x or "lowest_set_bit" in x]
            # a bit index held in a local that is assigned in several places (`let mut next = bitmask.next(); while next.is_none() { ..
            # next = bitmask.next() }`): a bit index if every definition is one
            import re as _re5
            for x in leaves:
                m5 = _re5.match(r"^l(\d+)(\.downcast)?(\.0)?$", x)
                if m5 and x not in bit:
                    ds5 = b.whole_defs(int(m5.group(1)))
                    def _is_bit_def(d5):
                        if d5[0] == "stmt" and d5[3]["k"] == "assign" and d5[3]["rv"]["k"] == "use" and d5[3]["rv"]["op"]["k"] in ("copy", "move") and not d5[3]["rv"]["op"]["p"].get("proj"):
                            d5 = b.single_def(d5[3]["rv"]["op"]["p"]["l"])
                        return bool(d5) and d5[0] == "call" and ("BitMaskIter as Iterator>::next" in (callee_path(d5[3]) or "") or (callee_path(d5[3]) or "").endswith("lowest_set_bit"))
                    if len(ds5) >= 2 and all(_is_bit_def(d5) for d5 in ds5):
                        bit.append(x)
            rest = [x for x in leaves if x not in pos and x not in bit]
            if len(pos) != 1 or len(bit) != 1 or rest:
                probs.append("the masked value is not exactly probe position + bit index (terms: %s)" % [x[:50] for x in leaves])
            if _split_top(mask) is not None:
                probs.append("the mask is not the plain bucket_mask field (%s)" % mask[:60])
        if probs:
            R.violation(key, b, "%s: %s: the bucket examined / returned is not the one the matched control byte belongs to" % (p, "; ".join(sorted(set(probs)))), line=line_of(b, stmt=masked[0][0]))
            R.inst(key, "; ".join(sorted(set(probs))), "violation", True, where(b))
        else:
            R.inst(key, "index = (probe_seq.pos + bit) & bucket_mask", "ok", True, where(b, stmt=masked[0][0]))
    # the group examined at a probe step is the one AT the probe position: Group::load(ctrl(probe_seq.pos))
    for p in PROBE_INDEXERS + ("raw::RawTableInner::find_insert_slot",):
        b = F.bodies.get(p)
        if b is None:
            continue
        loads = [(i, t) for i, t in b.calls() if "Group::load" in (callee_path(t) or "")]
        if not loads:
            continue
        key = p + "|group-at-pos"
        bad = []
        for i, t in loads:
            idx = None
            cur = t["args"][0] if t["args"] else None
            for _ in range(10):
                if cur is None or cur["k"] not in ("copy", "move"):
                    break
                dd = b.single_def(b.root_of_place(cur["p"])[0])
                if not dd:
                    break
                if dd[0] == "call":
                    if (callee_path(dd[3]) or "").endswith("RawTableInner::ctrl") and len(dd[3]["args"]) > 1:
                        idx = expr_key(b, dd[3]["args"][1])
                        break
                    if (callee_path(dd[3]) or "").endswith("T::add") and len(dd[3]["args"]) > 1 and ".ctrl" in expr_key(b, dd[3]["args"][0]):
                        idx = expr_key(b, dd[3]["args"][1])   # hand-written ctrl(index): self.ctrl.as_ptr().add(index)
                        break
                    cur = dd[3]["args"][0] if dd[3]["args"] else None
                else:
                    ops = rv_operands(dd[3]["rv"])
                    cur = ops[0] if ops else None
            if idx is not None and not idx.endswith(".pos"):
                bad.append(idx)
        if bad:
            R.violation(key, b, "%s loads the control group at index `%s` instead of at the probe position (probe_seq.pos): the bits found there are then attributed to the buckets at pos + bit, "
                        "i.e. to other buckets than the ones whose control bytes were read" % (p, bad[0][-50:]))
            R.inst(key, "group not loaded at the probe position", "violation", True, where(b))
        else:
            R.inst(key, "groups are loaded at ctrl(probe_seq.pos)", "ok", True, where(b))
    # iter_hash keeps (group, bitmask) as state: a freshly loaded group is the one its bitmask is computed from
    ib = F.bodies.get("raw::<RawIterHashInner as Iterator>::next")
    if ib is not None:
        key = "raw::<RawIterHashInner as Iterator>::next|bitmask-of-fresh-group"
        gstores = [i for i, k, s in ib.stmts() if s["k"] == "assign" and (last_field(s["p"]) or {}).get("name") == "group" and ib.root_of_place(s["p"])[0] == 1]
        tags = [i for i, t in ib.calls() if (callee_path(t) or "").endswith("Group::match_tag")]
        if not gstores or not tags:
            R.undec("RawIterHashInner::next: store of self.group (%d) / match_tag (%d) not found" % (len(gstores), len(tags)))
        elif all(any(ib.dominates(g, c) or g == c for c in tags) for g in gstores) or \
                all(c not in ib.reachable_from_entry_flags(tuple(gstores)) for c in tags):
            # (second form: the load sits in an inlined helper that reports through a boolean whether it loaded - every feasible
            # path to the refill passes the load)
            R.inst(key, "the tag match that refills self.bitmask is computed after (dominated by) the load that refills self.group", "ok", True, where(ib, bb=gstores[0]))
        else:
            R.violation(key, ib, "self.bitmask is refilled from the group of the PREVIOUS probe step (the load into self.group does not precede the match_tag): iter_hash replays the first group's matches "
                        "at later positions and never yields matches of later groups", line=line_of(ib, bb=gstores[0]))
            R.inst(key, "bitmask computed from the stale group", "violation", True, where(ib, bb=gstores[0]))
    # the same for every other method of the hash cursor that produces indices (a `fold` of its own, ..): matches come from the
    # stored bitmask until a new group has been loaded; re-matching the stored group replays what next() already handed out
    for pth, ob in F.bodies.items():
        if pth.startswith("raw::<RawIterHashInner as Iterator>::") and pth != "raw::<RawIterHashInner as Iterator>::next" and "{closure" not in pth:
            tg = [i for i, t in ob.calls() if (callee_path(t) or "").endswith("Group::match_tag")]
            gs = [i for i, k, s in ob.stmts() if s["k"] == "assign" and (last_field(s["p"]) or {}).get("name") == "group" and ob.root_of_place(s["p"])[0] == 1]
            if not tg:
                continue
            key = pth + "|bitmask-of-fresh-group"
            early = [c for c in tg if c in ob.reachable_from_entry_flags(tuple(gs))]
            if early:
                R.violation(key, ob, "%s computes tag matches of the stored group before any new group has been loaded: the bits that next() already consumed from self.bitmask are produced again "
                            "(iter_hash yields elements twice; iter_hash_mut hands out the same &mut twice)" % pth.split("::")[-1], line=line_of(ob, bb=early[0]))
                R.inst(key, "stored group re-matched", "violation", True, where(ob, bb=early[0]))
            else:
                R.inst(key, "tag matches are only computed for freshly loaded groups; the stored bitmask is continued", "ok", True, where(ob, bb=tg[0]))
    R.floor("probe index sites", n, 4)
    return R


# --------------------------------------------------------------------- R-CTRL-GEOMETRY

def _agg_fields(b, adt):
    for i, k, s in b.stmts():
        if s["k"] == "assign" and s["rv"]["k"] == "aggregate" and s["rv"].get("adt") == adt:
            return s, dict(zip(s["rv"]["fields"], [expr_key(b, o) for o in s["rv"]["ops"]]))
    return None, {}


def r_ctrl_geometry(F, V):
    """Shape of the control-byte array and of the walkers' initial state, as constant / expression relations:
    num_ctrl_bytes = bucket_mask + 1 + WIDTH (the mirrored tail); a new table has bucket_mask = buckets - 1, growth_left =
    bucket_mask_to_capacity(buckets - 1), items = 0; the group walkers start with next_ctrl = ctrl + WIDTH, end = ctrl + len,
    and FullBucketsIndices advances its pointer and its base index by the same WIDTH."""
    R = Result("R-CTRL-GEOMETRY", F.cfg)
    W = None
    for p, v in F.consts.items():
        if p.endswith("Group::WIDTH"):
            W = int(v["val"])
    if W is None:
        R.undec("Group::WIDTH not found")
        return R
    n = 0
    checks = []
    b = F.bodies.get("raw::RawTableInner::num_ctrl_bytes")
    if b is not None:
        n += 1
        k = expr_key(b, {"k": "copy", "p": {"l": 0}})
        leaves = sorted(_add_leaves(k.replace(").0", ")")))
        import re as _re2
        consts_ = [int(_re2.match(r"^c:(\d+):usize$", x).group(1)) for x in leaves if _re2.match(r"^c:(\d+):usize$", x)]
        others_ = [x for x in leaves if not _re2.match(r"^c:(\d+):usize$", x)]
        # allocated: buckets + WIDTH = bucket_mask + 1 + WIDTH bytes; the very last one (index buckets + WIDTH - 1) is written by
        # the mirror but never read by any group load, so bucket_mask + WIDTH is observably equivalent; anything smaller leaves
        # readable mirror bytes stale, anything larger overruns the allocation
        total = sum(consts_)
        checks.append(("num_ctrl_bytes covers the mirrored tail without overrunning it (bucket_mask + WIDTH .. bucket_mask + 1 + WIDTH)",
                       others_ == ["a1.deref.bucket_mask"] and W <= total <= W + 1, "terms %s" % leaves, b,
                       "the control array has buckets + WIDTH bytes (the first group mirrored after the last bucket): a smaller count makes bulk operations (fill, copy, clone) leave readable mirror bytes stale, a larger one overruns the block"))
    b = F.bodies.get("raw::RawTableInner::new_uninitialized")
    if b is not None:
        st, f = _agg_fields(b, "raw::RawTableInner")
        if f:
            n += 1
            bm = f.get("bucket_mask", "")
            checks.append(("new table: bucket_mask = buckets - 1", bm.startswith("Sub(") and bm.rstrip(".0").endswith(",c:1:usize)") and "a3" in bm, bm[:60], b, "bucket_mask must be buckets - 1 for `& bucket_mask` to be `mod buckets`"))
            gl = f.get("growth_left", "")
            checks.append(("new table: growth_left = bucket_mask_to_capacity(bucket_mask)", gl == "raw::bucket_mask_to_capacity(%s)" % bm, gl[:80], b, "a fresh table must start with its full (7/8) capacity as free room, computed from the same mask"))
            checks.append(("new table: items = 0", f.get("items") == "c:0:usize", f.get("items", "")[:40], b, "a fresh table holds no elements"))
    b = F.bodies.get("raw::RawIterRange::new")
    if b is not None:
        st, f = _agg_fields(b, "raw::RawIterRange")
        if f:
            n += 1
            nc, en = f.get("next_ctrl", ""), f.get("end", "")
            # the parameters are identified by their (pairwise distinct) types, not by position
            pc = param_of_type(b, "*const u8") or param_named(b, "ctrl", "*const u8")
            pd, pl = param_of_type(b, "raw::Bucket<"), param_of_type(b, "usize")
            pe = param_named(b, "end", "*const u8") if pl is None else None
            if pc is None or pd is None or (pl is None and pe is None):
                R.undec("raw::RawIterRange::new: cannot identify the ctrl / data / len (or end) parameters (%s)" % [(b.locals[q].get("name"), b.locals[q]["ty"]["s"]) for q in range(1, b.arg_count + 1)])
                return R
            checks.append(("RawIterRange::new: next_ctrl = ctrl + Group::WIDTH", nc.endswith("::add(a%d,c:%d:usize)" % (pc, W)), nc[-60:], b, "the first group is loaded from ctrl, the next one lies exactly one group further"))
            if pl is not None:
                checks.append(("RawIterRange::new: end = ctrl + len", en.endswith("::add(a%d,a%d)" % (pc, pl)), en[-60:], b, "the range ends len control bytes after its start"))
            else:
                # the end pointer is handed in: it is stored as given, and every caller derives it from a control pointer of the same
                # table (the start plus a count, or the end of the range being split)
                checks.append(("RawIterRange::new: end = the end pointer argument", en == "a%d" % pe, en[-60:], b, "the range ends where the caller says"))
                for cpth, cb_ in F.bodies.items():
                    for ci, ct in cb_.calls():
                        if callee_path(ct) == "raw::RawIterRange::new" and len(ct["args"]) >= max(pc, pe):
                            ke, kc = expr_key(cb_, ct["args"][pe - 1]), expr_key(cb_, ct["args"][pc - 1])
                            base = kc.split("::add(")[-1].split(",")[0] if "::add(" in kc else kc
                            okc = ("::add(%s," % kc) in ke or ke.endswith(".end") or ("::add(%s," % base) in ke or (base and ke.startswith(base))
                            checks.append(("RawIterRange::new call in %s: end derives from the same control pointer as ctrl" % cpth.split("::")[-1], bool(okc), "%s / %s" % (kc[-40:], ke[-40:]), cb_, "start and end of the walked range must belong to one control array"))
            checks.append(("RawIterRange::new: data = the data pointer argument", f.get("data") == "a%d" % pd, f.get("data", "")[:40], b, "bit i of the first group belongs to data.next_n(i)"))
    b = F.bodies.get("raw::FullBucketsIndices::next_impl")
    if b is not None:
        steps = {}
        for i, k, s in b.stmts():
            if s["k"] == "assign" and s["p"].get("proj") and s["rv"]["k"] in ("use", "binop"):
                nm = [e.get("name") for e in s["p"]["proj"] if e["k"] == "field"]
                if nm and nm[-1] in ("group_first_index", "ctrl"):
                    kk = expr_key(b, s["rv"]["op"]) if s["rv"]["k"] == "use" else "%s(%s,%s)" % (s["rv"]["op"], expr_key(b, s["rv"]["a"]), expr_key(b, s["rv"]["b"]))
                    import re as _re
                    m = _re.search(r"c:(\d+):usize", kk)
                    steps[nm[-1]] = int(m.group(1)) if m else None
        if steps:
            n += 1
            checks.append(("FullBucketsIndices: pointer and base index advance by Group::WIDTH together", steps.get("group_first_index") == W and steps.get("ctrl") == W, str(steps), b,
                           "the indices yielded are base + bit: a base that advances differently from the pointer reports wrong bucket indices during resize"))
    for name, ok, detail, body, why in checks:
        if ok:
            R.inst(name, "%s (%s)" % (name, detail), "ok", True, where(body))
        else:
            R.violation("geometry|" + name.split(":")[0].split(" =")[0], body, "control-array geometry relation violated: %s (%s): %s" % (name, detail, why))
    R.floor("geometry sites judged", n, 3)
    return R


# --------------------------------------------------------------------- R-GUARD-STALE-COUNT

def _reads_items(body):
    """blocks of `body` whose behaviour depends on an element count: the field `items` of a RawTableInner is read (other than
    to initialise the `items` field of a RawIter being constructed - that count only matters if the RawIter's own
    count-bounded methods are used, which read RawIter.items and are found on their own), or RawIter.items is read"""
    out = []

    def has(o):
        if isinstance(o, dict):
            if o.get("k") in ("copy", "move") and isinstance(o.get("p"), dict):
                lf = last_field(o["p"])
                if lf and lf["name"] == "items" and ((lf.get("adt") or "").endswith("RawTableInner") or (lf.get("adt") or "") == "raw::RawIter"):
                    return True
            return any(has(v) for k, v in o.items() if k not in ("sp", "p") or o.get("k") in ("copy", "move", "ref"))
        if isinstance(o, list):
            return any(has(v) for v in o)
        return False

    def feeds_rawiter_only(l):
        uses = [(i, k, s) for i, k, s in body.stmts() if s["k"] == "assign" and any(o.get("k") in ("copy", "move") and o["p"]["l"] == l for o in rv_operands(s["rv"]))]
        return bool(uses) and all(s["rv"]["k"] == "aggregate" and s["rv"].get("adt") == "raw::RawIter" for i, k, s in uses) \
            and not any(a.get("k") in ("copy", "move") and a["p"]["l"] == l for _, t in body.calls() for a in t["args"])
    for i, k, s in body.stmts():
        if s["k"] == "assign" and has(s["rv"]):
            if s["rv"]["k"] == "aggregate" and s["rv"].get("adt") == "raw::RawIter":
                continue
            if not s["p"].get("proj") and s["rv"]["k"] == "use" and feeds_rawiter_only(s["p"]["l"]):
                continue
            out.append(i)
    for i, t in body.calls():
        if has(t["args"]):
            out.append(i)
    return out


def _adaptor_targets(F, body):
    """bodies of the Iterator-family impls of crate types that appear inside the receiver type of a call to a core iterator
    method (`<Take<RawIter<T>> as Iterator>::next` runs `<RawIter<T> as Iterator>::next`)"""
    out = []

    def adts(ty, acc):
        if isinstance(ty, dict):
            if ty.get("k") == "adt" and ty.get("path") in F.adts:
                acc.add(ty["path"])
            for a in ty.get("args", []) or []:
                adts(a, acc)
            for key in ("inner", "elem"):
                if isinstance(ty.get(key), dict):
                    adts(ty[key], acc)
    for i, t in body.calls():
        f = t["f"]
        if f["k"] != "fn" or f.get("local") or not (f.get("trait") or f.get("path", "")).startswith("core::iter::"):
            continue
        acc = set()
        adts(f.get("self_ty"), acc)
        for a in t["args"][:1]:
            if a["k"] in ("copy", "move"):
                adts(body.locals[a["p"]["l"]]["ty"], acc)
        for X in acc:
            for im in F.impls:
                if (im.get("trait") or "").startswith("core::iter::") and im["self_ty"].get("k") == "adt" and im["self_ty"]["path"] == X:
                    for it in im["items"]:
                        if it["kind"] == "fn" and it["path"] in F.bodies and it["path"] not in out:
                            out.append(it["path"])
    return out


def r_guard_stale_count(F, V):
    """An unwind guard runs at a point the creating function does not control. If that function brings the table's element
    count up to date only *after* the work the guard protects (clone_from_impl stores `items` once every element is
    cloned), the guard's clean-up must not depend on the count - neither directly nor through an iterator that is
    bounded by it (`RawTable::iter()` stops after `items` elements): it would skip elements that are already there."""
    from rules.accounting import guard_defs, guard_disarms
    R = Result("R-GUARD-STALE-COUNT", F.cfg)
    n = 0
    for p, b in F.bodies.items():
        if not p.startswith("raw::") or "{closure" in p:
            continue
        for g in guard_defs(b):
            cp = g["closure"]
            if not cp or cp not in F.bodies:
                continue
            n += 1
            key = "%s|guard@%s" % (p, cp.rsplit("::", 1)[-1])
            # stores of `items` in the creating body after the guard was armed
            after = set()
            # (also after it is defused: a count that is stored once the protected work has succeeded was not yet valid
            # at any point where the guard could have run)
            for sx in b.nsucc[g["bb"]]:
                after |= b.reachable_from(sx)
            late = [i for i, k, s in b.stmts() if i in after and s["k"] == "assign" and (last_field(s["p"]) or {}).get("name") == "items"
                    and ((last_field(s["p"]) or {}).get("adt") or "").endswith("RawTableInner")]
            if not late:
                R.inst(key, "the creating function does not store `items` after arming the guard", "ok", False, where(b, bb=g["bb"]))
                continue
            readers = []
            scope = [cp] + sorted(x for x in F.reachable_fns(cp) if x.startswith("raw::") and x in F.bodies)
            # iterator adaptors of core (`.take(n)`, `.by_ref()`, ..) call back into the Iterator impl of the crate type they wrap
            for q in list(scope):
                for x in _adaptor_targets(F, F.bodies[q]):
                    if x not in scope:
                        scope.append(x)
                        scope.extend(y for y in sorted(F.reachable_fns(x)) if y.startswith("raw::") and y in F.bodies and y not in scope)
            for q in scope:
                if _reads_items(F.bodies[q]):
                    readers.append(q)
            if readers:
                R.violation(key, b, "the unwind guard's clean-up depends on the table's element count (read in %s) although %s stores `items` only later, while the guard is armed: on unwinding the count is stale, so the clean-up "
                            "(e.g. an iterator bounded by `items`) skips elements that were already written - they are leaked, or left behind marked as present" % (readers[0], p), line=line_of(b, bb=g["bb"]))
                R.inst(key, "guard depends on a count that is stored later", "violation", True, where(b, bb=g["bb"]))
            else:
                R.inst(key, "`items` is stored after the guard is armed, and the guard's clean-up does not read it", "ok", True, where(b, bb=g["bb"]))
    R.floor("scope guards in the raw module", n, 3)
    return R
