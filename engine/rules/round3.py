"""Rules added after the third round of independent mutations (DESIGN.md 12.8)."""
from core import callee_path, last_field, rv_operands
from cond import sources, branch_sources, controlling_sources, expr_key
from rules.base import Result, where, line_of
from rules.accounting import deep_root, operand_deep_root


# --------------------------------------------------------------------- R-HINT-LOWER

RESERVERS = ("::reserve", "::try_reserve", "::with_capacity", "::with_capacity_and_hasher", "::with_capacity_in", "::with_capacity_and_hasher_in",
             "::reserve_rehash", "::shrink_to")


def _is_iter_size_hint(t):
    f = t["f"]
    if f["k"] != "fn":
        return False
    cp = callee_path(t) or ""
    return (f.get("method") == "size_hint" and "Iterator" in (f.get("trait") or "")) or cp.endswith("Iterator::size_hint")


def _hint_fields(body, operand):
    """which components (0 = lower bound, 1 = upper bound) of an Iterator::size_hint() result the operand's value is computed from
    (full backward slice through temporaries and call arguments); returns set of (field, block_of_size_hint_call)"""
    out = set()
    seen = set()

    def go_place(p):
        l = p["l"]
        proj = p.get("proj", [])
        ds = body.defs.get(l, ())
        hint_defs = [d for d in ds if d[0] == "call" and _is_iter_size_hint(d[3])]
        if hint_defs:
            fld = None
            for e in proj:
                if e["k"] == "field":
                    fld = e.get("name") if e.get("name") is not None else str(e.get("idx"))
                    break
            for d in hint_defs:
                out.add((str(fld) if fld is not None else "whole", d[1]))
            return
        for e in proj:
            if e["k"] == "index":
                go_place({"l": e["local"]})
        if l in seen or body.is_arg(l):
            return
        seen.add(l)
        for d in ds:
            if d[0] == "call":
                for a in d[3]["args"]:
                    go_op(a)
            elif d[3]["k"] == "assign":
                for o in rv_operands(d[3]["rv"]):
                    go_op(o)
                rv = d[3]["rv"]
                if rv["k"] in ("ref", "rawptr", "discriminant", "len"):
                    go_place(rv["p"])

    def go_op(o):
        if o["k"] in ("copy", "move"):
            go_place(o["p"])
    go_op(operand)
    return out


def _self_dep(body, operand):
    from rules.round2 import _dep_args
    deps = _dep_args(body, operand)
    return any(body.locals[l].get("name") == "self" for l in deps)


def r_hint_lower(F, V):
    """Space reserved ahead of a bulk insertion is sized from the *lower* bound of the iterator's size_hint only.  The upper
    bound of an honest iterator may be arbitrarily loose (`(0..usize::MAX).take_while(..)`, `filter`, `flat_map`): reserving it makes
    extend/from_iter panic with a capacity overflow (or abort on allocation failure) for an input whose elements all fit."""
    R = Result("R-HINT-LOWER", F.cfg)
    n = 0
    for p, body in F.bodies.items():
        hints = [i for i, t in body.calls() if _is_iter_size_hint(t)]
        if not hints:
            continue
        if p.startswith("raw::") and "Iter" in p:
            continue
        for i, t in body.calls():
            cp = callee_path(t) or ""
            if not any(cp.endswith(sfx) for sfx in RESERVERS):
                continue
            if not (cp.startswith("map::") or cp.startswith("set::") or cp.startswith("table::") or cp.startswith("raw::")):
                continue
            for q, a in enumerate(t["args"]):
                if a["k"] not in ("copy", "move"):
                    continue
                if body.local_ty(a["p"]["l"])["s"] != "usize":
                    continue
                flds = _hint_fields(body, a)
                if not flds:
                    continue
                n += 1
                key = "%s|%s" % (p, cp.split("::")[-1])
                upper = sorted(f for f, _ in flds if f != "0")
                if upper:
                    R.violation(key, body, "the amount passed to %s is computed from the %s of Iterator::size_hint(): only the lower bound is a promise about how many elements will arrive - "
                                "an honest iterator with a loose upper bound makes this call panic (capacity overflow) or abort although every element would fit"
                                % (cp, "upper bound (.1)" if upper == ["1"] else "whole tuple / component %s" % upper), line=line_of(body, bb=i))
                    R.inst(key, "reserve sized from the upper bound", "violation", True, where(body, bb=i))
                elif _self_dep(body, a):
                    R.violation(key + "|additional", body, "the amount passed to %s is computed from the collection's own state (len/capacity of `self`) as well as the size hint: reserve() takes the number of "
                                "ADDITIONAL elements - adding the current length asks for room that is not needed, so extending by keys that fit in the spare capacity re-allocates" % cp, line=line_of(body, bb=i))
                    R.inst(key, "reserve amount includes the current length", "violation", True, where(body, bb=i))
                else:
                    R.inst(key, "amount derives from size_hint().0 only", "ok", True, where(body, bb=i))
    R.floor("reserve-from-size_hint sites", n, 2)
    return R


# --------------------------------------------------------------------- R-TRY-WRAPPERS

TRY_WRAPPERS = ("map::HashMap::try_reserve", "set::HashSet::try_reserve", "table::HashTable::try_reserve")


def r_try_wrappers(F, V):
    """The public try_reserve wrappers of HashMap / HashSet / HashTable add nothing that can panic or abort to the raw
    fallible reservation: (a) they reach raw::RawTable::try_reserve; (b) they reach no body that passes the constant
    Fallibility::Infallible (e.g. the panicking sibling `reserve`); (c) they do no arithmetic of their own on the requested
    amount (an overflow check would panic in debug builds, a wrapping add would answer Ok without reserving)."""
    from rules.fallible import callee_fall_param_positions, fall_arg_kind, fall_params, closure_fall_upvars, FALL_FNS
    R = Result("R-TRY-WRAPPERS", F.cfg)
    # bodies that inject the constant Infallible
    inf_roots = {}
    for p, body in F.bodies.items():
        if fall_params(body) or closure_fall_upvars(body):
            continue
        for i, t in body.calls():
            cp = callee_path(t)
            if cp is None:
                continue
            for q in callee_fall_param_positions(F, cp):
                if q < len(t["args"]) and fall_arg_kind(F, body, t["args"][q]) == ("const", "Infallible"):
                    inf_roots[p] = i
    n = 0
    for w in TRY_WRAPPERS:
        b = F.bodies.get(w)
        if b is None:
            R.undec("%s not found" % w)
            continue
        n += 1
        reach = F.reachable_fns(w)
        key = w + "|fallible-only"
        probs = []
        if "raw::RawTable::try_reserve" not in reach:
            probs.append(("does not reach raw::RawTable::try_reserve: the request is not handled by the fallible reservation at all", None))
        for p in sorted(reach):
            if p in inf_roots:
                probs.append(("reaches %s, which passes Fallibility::Infallible: an unsatisfiable request panics (capacity overflow) or aborts (allocation failure) instead of returning Err" % p, None))
        # (c) arithmetic on the request inside the wrapper itself (and in non-raw helpers it calls directly)
        for i in b.normal:
            t = b.term(i)
            if t["k"] == "assert":
                probs.append(("contains a checked arithmetic/bounds assertion: a panic site inside try_reserve", i))
        addl = [l for l in range(1, b.arg_count + 1) if b.locals[l]["ty"]["s"] == "usize"]
        for i, k, s in b.stmts():
            if s["k"] == "assign" and s["rv"]["k"] == "binop" and s["rv"]["op"].replace("WithOverflow", "").replace("Unchecked", "") in ("Add", "Sub", "Mul", "Shl"):
                from rules.round2 import _dep_args
                deps = _dep_args(b, s["rv"]["a"]) | _dep_args(b, s["rv"]["b"])
                if deps & set(addl):
                    probs.append(("does arithmetic (%s) on the requested amount before handing it to the raw table: it overflows for requests near usize::MAX "
                                  "(debug: panic; release: wraps, so Ok(()) may be returned with nothing reserved)" % s["rv"]["op"], i))
        if probs:
            msg, blk = probs[0]
            R.violation(key, b, "%s %s" % (w, "; ".join(sorted(set(m for m, _ in probs)))), line=line_of(b, bb=blk) if blk is not None else None)
            R.inst(key, "; ".join(sorted(set(m for m, _ in probs))), "violation", True, where(b))
        else:
            R.inst(key, "forwards the untouched request to raw::RawTable::try_reserve; %d reachable bodies, none passes Infallible" % len(reach), "ok", True, where(b))
    R.info["bodies passing the constant Infallible"] = len(inf_roots)
    R.floor("public try_reserve wrappers", n, 3)
    R.floor("bodies passing the constant Infallible", len(inf_roots), 3)
    return R


# --------------------------------------------------------------------- R-CAP-WRAPPERS

CAP_WRAPPERS = {
    "reserve": ("reserve",), "shrink_to": ("shrink_to",), "shrink_to_fit": ("shrink_to", "shrink_to_fit"),
    "capacity": ("capacity",), "allocation_size": ("allocation_size",), "clear": ("clear",),
}
LOWER_LAYER = ("raw::RawTable::", "map::HashMap::", "table::HashTable::")


def r_cap_wrappers(F, V):
    """Sibling agreement of the capacity API across the layers (HashSet -> HashMap -> RawTable, HashTable -> RawTable): each
    wrapper hands its request to the same-named operation of the layer below, untouched; shrink requests are not filtered by
    capacity()/growth_left (which tombstones reduce); capacity()/allocation_size() return the lower layer's answer as is."""
    R = Result("R-CAP-WRAPPERS", F.cfg)
    n = 0
    for layer in ("map::HashMap", "set::HashSet", "table::HashTable"):
        for m, targets in CAP_WRAPPERS.items():
            p = "%s::%s" % (layer, m)
            b = F.bodies.get(p)
            if b is None:
                continue
            n += 1
            key = p + "|forwards"
            core = [(i, t) for i, t in b.calls() if (callee_path(t) or "").startswith(LOWER_LAYER) and (callee_path(t) or "").rsplit("::", 1)[1] in targets
                    and (callee_path(t) or "") != p]
            probs = []
            if not core:
                probs.append("does not call %s of the layer below" % "/".join(targets))
            for i, t in core:
                cp = callee_path(t)
                if m in ("shrink_to", "shrink_to_fit"):
                    for (bb, s, S) in controlling_sources(b, i):
                        if S.has_call("::capacity") or S.has_load("growth_left"):
                            probs.append("only forwards the shrink request when a condition on capacity() holds: capacity() is reduced by every tombstone, so a table saturated "
                                         "with removed-slot markers (capacity() close to len() although the bucket array is large) is never shrunk / freed")
                if m in ("reserve", "shrink_to"):
                    own = [l for l in range(1, b.arg_count + 1) if b.locals[l]["ty"]["s"] == "usize"]
                    for a in t["args"]:
                        if a["k"] in ("copy", "move") and b.local_ty(a["p"]["l"])["s"] == "usize":
                            ek = expr_key(b, a)
                            if own and ek != "a%d" % own[0]:
                                probs.append("passes a modified amount (%s) to %s instead of its own argument" % (ek[:60], cp))
                        elif a["k"] == "const" and a.get("t") == "usize":
                            probs.append("passes a constant amount to %s instead of its own argument" % cp)
                if m in ("capacity", "allocation_size"):
                    from rules.derived import _result_defs
                    for val, blk in _result_defs(b):
                        if val != "call" or blk != i:
                            probs.append("returns something other than the unmodified result of %s" % cp)
            if probs:
                R.violation(key, b, "%s %s" % (p, "; ".join(sorted(set(probs)))))
                R.inst(key, "; ".join(sorted(set(probs))), "violation", True, where(b))
            else:
                R.inst(key, "forwards to %s" % sorted(set(callee_path(t) for _, t in core)), "ok", True, where(b))
    R.floor("capacity wrappers", n, 12)
    return R


# --------------------------------------------------------------------- R-SIBLING-FORWARD

LAYER_BELOW = {"set::HashSet": ("map::HashMap", "map"), "map::HashMap": ("raw::RawTable", "raw"), "table::HashTable": ("raw::RawTable", "raw")}
# wrappers that deliberately use a differently named operation of the layer below although a same-named one exists
# (each confirmed by reading; one line of reason per exception)
SIBLING_EXCEPTIONS = {
    "set::HashSet::iter": "a set iterates the keys of its map (HashMap::keys); HashMap::iter would yield pairs",
    "set::HashSet::get": "returns the stored element, i.e. the key of the map entry: HashMap::get_key_value(..).0 (HashMap::get returns the unit value)",
    "map::HashMap::insert": "one search with find_or_find_insert_slot, then insert_in_slot / replace in place (RawTable::insert would not look for an existing key)",
    "table::HashTable::find": "returns &T: RawTable::get is RawTable::find + as_ref",
}


def r_sibling_forward(F, V):
    """Deviant forwarding between the layers (HashSet -> HashMap -> RawTable <- HashTable): when the layer below has an
    operation with the SAME NAME as the wrapper (or implements the same trait method) the wrapper uses it.  A wrapper that
    bypasses its namesake for a sibling (try_reserve -> reserve, clone_from -> the table's clone_from, shrink_to_fit ->
    something else) silently drops what the namesake adds (fallibility, the hasher copy, ...)."""
    R = Result("R-SIBLING-FORWARD", F.cfg)
    methods = {}
    for p in F.bodies:
        if "::{closure" in p:
            continue
        a, _, m = p.rpartition("::")
        methods.setdefault(a, set()).add(m)
    n = 0
    for X, (Y, ymod) in LAYER_BELOW.items():
        xmod, xname = X.split("::")
        yname = Y.split("::")[1]
        for p, b in F.bodies.items():
            if "::{closure" in p:
                continue
            owner, _, m = p.rpartition("::")
            if owner == X:
                namesake = "%s::%s" % (Y, m)
                has_namesake = m in methods.get(Y, ())
            elif owner.startswith("%s::<%s as " % (xmod, xname)):
                tr = owner[len("%s::<%s as " % (xmod, xname)):]
                yowner = "%s::<%s as %s" % (ymod, yname, tr)
                # trait generic arguments mention the type itself: compare on the trait name only
                trname = tr.split("<")[0].rstrip(">")
                cands = [o for o in methods if o.startswith("%s::<%s as %s" % (ymod, yname, trname)) and m in methods[o]]
                has_namesake = bool(cands)
                namesake = (cands[0] + "::" + m) if cands else None
            else:
                continue
            reach = [p] + [c for c in F.bodies if c.startswith(p + "::{closure")]
            called = set()
            for q in reach:
                for i, t in F.bodies[q].calls():
                    cp = callee_path(t) or ""
                    if cp.startswith(Y + "::") or cp.startswith("%s::<%s as " % (ymod, yname)):
                        called.add(cp)
            if not called or not has_namesake:
                continue
            n += 1
            key = p + "|namesake"
            names = set(c.rpartition("::")[2] for c in called)
            if m in names:
                R.inst(key, "uses its namesake %s" % namesake, "ok", True, where(b))
            elif p in SIBLING_EXCEPTIONS:
                R.inst(key, "listed exception: %s" % SIBLING_EXCEPTIONS[p], "exempt", False, where(b))
            else:
                R.violation(key, b, "%s calls %s of the layer below but not its namesake %s, which exists: whatever the namesake adds (error reporting instead of panicking, copying the hasher "
                            "together with the table, the empty/zero special cases, ...) is bypassed" % (p, sorted(called), namesake))
                R.inst(key, "namesake bypassed", "violation", True, where(b))
    R.floor("wrappers with a namesake below", n, 40)
    return R
