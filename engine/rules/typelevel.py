"""Type-level rules (DESIGN.md 4.G): R-AUTO, R-VARIANCE, R-SIG-REGION,
R-MUT-FROM-MUT, R-RAW-ESCAPE. Decided from rustc's trait solver, variance
inference and resolved signatures; no code is executed."""
import json
import os
import re

from rules.base import Result, _rel

VERIF = os.path.dirname(os.path.dirname(os.path.dirname(os.path.abspath(__file__))))


def load_table():
    with open(os.path.join(VERIF, "tables", "auto_traits.json")) as f:
        return json.load(f)


REQ = {
    # class -> (Send requirement, Sync requirement); requirement = list of alternatives (any one suffices)
    "OWN": (["Send"], ["Sync"]),
    "SHARED": (["Sync"], ["Sync"]),
    "MUT": (["Send"], ["Sync"]),
    "EXCL": (["Send", "Sync"], ["Sync"]),
    "NOACCESS": ([], []),
}


class FakeBody:
    """violation anchor for items that are not MIR bodies"""

    def __init__(self, path, sp):
        self.path = path
        self._sp = sp

    def file(self):
        return self._sp["f"]

    def line(self):
        return self._sp["l"]


def _derive_classes(F, rows, a):
    """{type parameter: set of access classes} of an unclassified ADT, from its fields: a classified ADT passes on the class it has
    for the argument in that position; `&P..` is SHARED, `&mut P..` is MUT, an owned P (by value, in a tuple / array / std
    container / PhantomData of one of these shapes) is OWN. None if a field holds a raw pointer / NonNull / an unclassified
    crate type / a function pointer mentioning a parameter - then the fields do not say what the type may do."""
    out = {}
    api_needed = []

    def add(p, c):
        out.setdefault(p, set()).add(c)

    def params_of(ty, acc):
        k = ty.get("k")
        if k == "param":
            acc.add(ty.get("name") or ty.get("s"))
        for key in ("inner", "elem"):
            if isinstance(ty.get(key), dict):
                params_of(ty[key], acc)
        for x in (ty.get("args") or []) + (ty.get("elems") or []):
            if isinstance(x, dict):
                params_of(x, acc)
        return acc

    def go(ty, ctx):
        k = ty.get("k")
        if k == "param":
            add(ty.get("name") or ty.get("s"), ctx)
            return True
        if k == "ref":
            inner_ctx = "MUT" if ty.get("mut") and ctx in ("OWN", "MUT") else "SHARED"
            return go(ty["inner"], inner_ctx)
        if k in ("ptr", "rawptr", "fnptr", "fndef", "dyn", "closure", "alias", "opaque"):
            return not params_of(ty, set())
        if k in ("tuple",):
            return all(go(e, ctx) for e in ty.get("elems", []))
        if k in ("array", "slice"):
            return go(ty.get("inner") or ty.get("elem"), ctx)
        if k == "adt":
            pth = ty.get("path", "")
            args = ty.get("args", [])
            if pth in F.adts:
                r_ = rows.get(pth)
                if r_ is None:
                    if any(params_of(x, set()) for x in args):
                        # an unclassified crate-internal type (a raw cursor): what the new type can do with the parameters is then
                        # read off its own public surface (associated types and method results), see below
                        api_needed.append(pth)
                    return True
                tps = [g for g in F.adts[pth]["generics"] if not g.startswith("'")]
                ok = True
                for g, x in zip(tps, args):
                    c = r_.get(g)
                    if c is None or c not in REQ:
                        if params_of(x, set()):
                            return False
                        continue
                    if c == "NOACCESS":
                        continue
                    # through a shared reference everything is at most shared
                    c2 = "SHARED" if ctx == "SHARED" else c
                    ok = go(x, c2) and ok
                return ok
            if "NonNull" in pth or "UnsafeCell" in pth or pth.startswith("core::cell::"):
                return not any(params_of(x, set()) for x in args)
            # std / core containers and PhantomData: the argument is held the way the container is
            return all(go(x, ctx) for x in args)
        return True
    for v in a["variants"]:
        for f in v["fields"]:
            if not go(f["ty"], "OWN"):
                return None
    if api_needed:
        X = a.get("path") or [k_ for k_, v_ in F.adts.items() if v_ is a][0]
        seen_api = 0
        for im in F.impls:
            if im.get("self_ty", {}).get("k") == "adt" and im["self_ty"].get("path") == X:
                for it in im.get("items", []):
                    if it.get("kind") == "type" and isinstance(it.get("ty"), dict):
                        seen_api += 1
                        if not go(it["ty"], "OWN"):
                            return None
        for fn in F.fns.values():
            imp = fn.get("impl") or {}
            if imp.get("self_ty", {}).get("k") == "adt" and imp["self_ty"].get("path") == X and isinstance(fn.get("output"), dict):
                seen_api += 1
                o = fn["output"]
                if o.get("k") == "adt" and o.get("path") == X:
                    continue
                if not go(o, "OWN"):
                    return None
        if not seen_api:
            return None
    for g in a["generics"]:
        if not g.startswith("'"):
            out.setdefault(g, set())
    return out


def r_auto(F, V):
    R = Result("R-AUTO", F.cfg)
    tab = load_table()
    n = 0
    nq = 0
    rows = dict(tab["classes"])
    rows.update({k: v for k, v in tab["internal"].items() if not k.startswith("_")})
    for path, a in sorted(F.adts.items()):
        internal = path in tab["internal"]
        if not a["reachable"] and not internal:
            continue
        anchor = FakeBody(path, a["sp"])
        row = rows.get(path)
        derived = None
        if row is None:
            # a type added after the table was written: if it is put together from classified types, references and owned values
            # (no raw pointers of its own), its access classes follow from its fields and every one of them is checked
            derived = _derive_classes(F, rows, a)
            if derived is None:
                R.undec("public type %s has no access-class row in tables/auto_traits.json and holds raw pointers / unclassified types: a new public type of that kind needs a verdict" % path)
                continue
            row = {"_why": "derived from the fields"}
        n += 1
        tparams = [g for g in a["generics"] if not g.startswith("'")]
        if derived is not None:
            for trait_i, trait in enumerate(("Send", "Sync")):
                au = a["auto"][trait]
                nq += au.get("queries", 0)
                if not au["full"]:
                    R.inst("%s|%s" % (path, trait), "%s is never %s (stricter than any class)" % (path, trait), "ok", True)
                    continue
                need = set((x[0], x[1]) for x in au["need"])
                bad = []
                for tp in tparams:
                    for cls in sorted(derived.get(tp, ())):
                        alts = REQ[cls][trait_i]
                        if alts and not any((tp, alt) in need for alt in alts):
                            bad.append((tp, cls, alts))
                if bad:
                    for (tp, cls, alts) in bad:
                        R.violation("%s|%s|%s" % (path, trait, tp), anchor,
                                    "`%s: %s` holds without requiring `%s: %s` although the (new) type gives %s access to `%s` through one of its fields: it can be %s another thread with contents that do not allow it"
                                    % (path, trait, tp, " or ".join(alts), cls, tp, "sent to" if trait == "Send" else "shared with"),
                                    required=" or ".join("%s: %s" % (tp, x) for x in alts), implemented_bounds=sorted("%s: %s" % x for x in need))
                    R.inst("%s|%s" % (path, trait), "bounds %s" % sorted(need), "violation", True)
                else:
                    R.inst("%s|%s" % (path, trait), "new type, classes derived from its fields (%s): %s requires %s; satisfied" % (
                        ", ".join("%s: %s" % (k_, "/".join(sorted(v_))) for k_, v_ in sorted(derived.items())), trait, sorted("%s: %s" % x for x in need)), "ok", True)
            continue
        for tp in tparams:
            if tp not in row:
                R.undec("type %s: parameter %s has no access class in tables/auto_traits.json" % (path, tp))
        for trait_i, trait in enumerate(("Send", "Sync")):
            au = a["auto"][trait]
            nq += au.get("queries", 0)
            if not au["full"]:
                R.inst("%s|%s" % (path, trait), "%s is never %s (stricter than any class)" % (path, trait), "ok", True)
                continue
            need = set((x[0], x[1]) for x in au["need"])
            bad = []
            for tp in tparams:
                cls = row.get(tp)
                if cls is None or cls not in REQ:
                    continue
                alts = REQ[cls][trait_i]
                if not alts:
                    continue
                if not any((tp, alt) in need for alt in alts):
                    bad.append((tp, cls, alts))
            if bad:
                for (tp, cls, alts) in bad:
                    R.violation("%s|%s|%s" % (path, trait, tp), anchor,
                                "`%s: %s` holds without requiring `%s: %s` although the type has access class %s(%s) (%s): it can be %s another thread with contents that do not allow it"
                                % (path, trait, tp, " or ".join(alts), cls, tp, row.get("_why", ""), "sent to" if trait == "Send" else "shared with"),
                                required=" or ".join("%s: %s" % (tp, x) for x in alts), implemented_bounds=sorted("%s: %s" % x for x in need))
                R.inst("%s|%s" % (path, trait), "bounds %s" % sorted(need), "violation", True)
            else:
                R.inst("%s|%s" % (path, trait), "%s: %s requires exactly %s; class requirements satisfied" % (path, trait, sorted("%s: %s" % x for x in need)), "ok", True)
    R.info["solver_queries"] = nq
    R.info["types"] = n
    R.floor("public ADTs with auto-trait facts", n, 30)
    return R


# --------------------------------------------------------------- type walking helpers

_LATE = re.compile(r"ReLateParam\(DefId\([^~]*~ [^)]*?::([^:)]+)\), [A-Za-z]+\(DefId\([^~]*~ [^)]*?::([^:)]+)\)\)\)")


def norm_region(r):
    m = _LATE.search(r)
    if m:
        return "late:" + m.group(2)
    if r.startswith("ReLateParam") or r.startswith("'{") or "BrAnon" in r or "Anon" in r:
        return "late:" + re.sub(r"[^A-Za-z0-9_#']", "", r)[-24:]
    return r


def walk(ty, fn, under=()):
    """call fn(node, under) for every type node; `under` = tuple of enclosing nodes (outermost first)."""
    fn(ty, under)
    u2 = under + (ty,)
    k = ty.get("k")
    if k == "adt":
        for a in ty.get("args", []):
            walk(a, fn, u2)
    elif k in ("ref", "ptr", "array", "slice"):
        walk(ty["inner"], fn, u2)
    elif k == "tuple":
        for e in ty.get("elems", []):
            walk(e, fn, u2)
    elif k == "closure":
        for e in ty.get("upvars", []):
            walk(e, fn, u2)


def regions_of(ty):
    out = set()

    def f(n, under):
        if n.get("k") == "ref":
            out.add(norm_region(n["region"]))
        elif n.get("k") == "adt":
            for r in n.get("regions", []):
                out.add(norm_region(r))
    walk(ty, f)
    return out


def params_in(ty):
    out = set()

    def f(n, under):
        if n.get("k") == "param":
            out.add(n["name"])
        elif n.get("k") in ("alias", "deep", "prim", "fnptr", "dyn") and n.get("param"):
            for m in re.findall(r"\b([A-Z][A-Za-z0-9]*)\b", n.get("s", "")):
                out.add(m)
    walk(ty, f)
    return out


def public_sigs(F):
    """effectively-public fns and methods (including trait-impl methods of public types)."""
    for p, f in F.fns.items():
        if not f["has_body"] and not f["reachable"]:
            continue
        if f["reachable"]:
            yield p, f
            continue
        imp = f.get("impl")
        if imp and imp.get("of_trait"):
            st = imp["self_ty"]
            head = st
            while head.get("k") == "ref":
                head = head["inner"]
            if head.get("k") == "adt" and F.adts.get(head["path"], {}).get("reachable"):
                # trait impl method of a public type (callable through the trait)
                tr = imp.get("trait", "")
                if not tr.startswith("raw::") and not tr.startswith("control::") and "::Sealed" not in tr:
                    if _trait_is_public(F, tr):
                        yield p, f


def _trait_is_public(F, tr):
    for t in F.j.get("traits", []):
        if t["path"] == tr:
            return t["reachable"]
    return True  # external trait


# --------------------------------------------------------------- R-SIG-REGION

def r_sig_region(F, V):
    R = Result("R-SIG-REGION", F.cfg)
    n = 0
    for p, f in public_sigs(F):
        n += 1
        if f["name"] == "default" and (f.get("impl") or {}).get("trait") == "core::default::Default":
            R.inst(p, "Default::default (emptiness is R-DEFAULT-EMPTY)", "exempt", False)
            continue
        outr = regions_of(f["output"])
        outr.discard("'static")
        outr.discard("'erased")
        if not outr:
            R.inst(p, "no borrowed region in the output", "ok", False)
            continue
        inr = set()
        for t in f["inputs"]:
            inr |= regions_of(t)
        # regions of the impl's self type are in scope for by-value `self`
        free = [r for r in outr if r not in inr]
        # outlives bounds `'a: 'b` let a longer input region justify a shorter output region
        if free:
            for pr in f["predicates"]:
                m = re.match(r"^('[A-Za-z_0-9]+): ('[A-Za-z_0-9]+)$", pr.strip())
                if m and m.group(1) in inr and m.group(2) in free:
                    free.remove(m.group(2))
        anchor = FakeBody(p, f["sp"])
        if free:
            R.violation("%s|%s" % (p, ",".join(sorted(free))), anchor,
                        "the returned type carries lifetime %s that is tied to no argument: the result does not borrow the collection it came from" % ", ".join(sorted(free)),
                        output=f["output"]["s"], inputs=[t["s"] for t in f["inputs"]])
            R.inst(p, "free output region", "violation", True)
        else:
            R.inst(p, "output regions %s all occur in the inputs" % sorted(outr), "ok", True)
        # 'static in a public output is unexpected
        if "'static" in regions_of(f["output"]) and f["reachable"]:
            if not p.endswith("::fmt"):
                R.inst(p + "|static", "'static in public output", "ok", False)
    R.floor("public signatures", n, 200)
    return R


# --------------------------------------------------------------- R-MUT-FROM-MUT

ITERATOR_TRAITS = (
    "core::iter::traits::iterator::Iterator",
    "core::iter::traits::double_ended::DoubleEndedIterator",
    "core::iter::traits::exact_size::ExactSizeIterator",
    "rayon::iter::ParallelIterator",
    "rayon::iter::plumbing::UnindexedProducer",
    "rayon::iter::plumbing::Producer",
)


def mut_class_types(F):
    """ADTs with a lifetime parameter that give mutable/owning access to the collection they borrow."""
    tab = load_table()
    out = set()
    for path, row in tab["classes"].items():
        a = F.adts.get(path)
        if not a:
            continue
        if not any(g.startswith("'") for g in a["generics"]):
            continue
        if any(c in ("MUT", "OWN", "EXCL") for k, c in row.items() if not k.startswith("_")):
            out.add(path)
    return out


def carrier_lifetimes(F, path, _seen=None):
    """indices (among the lifetime parameters) of the lifetimes of ADT `path` through which mutable
    access flows: the only one if there is exactly one; otherwise those that appear as the region of
    a `&mut` in a field (also inside PhantomData) or in a carrier position of a nested ADT; all if none found."""
    a = F.adts[path]
    lts = [g for g in a["generics"] if g.startswith("'")]
    if len(lts) <= 1:
        return set(range(len(lts)))
    _seen = _seen or set()
    if path in _seen:
        return set(range(len(lts)))
    _seen = _seen | {path}
    found = set()

    def f(n, under):
        if n.get("k") == "ref" and n.get("mut") and n["region"] in lts:
            found.add(lts.index(n["region"]))
        elif n.get("k") == "adt" and n["path"] in F.adts and n.get("regions"):
            inner = carrier_lifetimes(F, n["path"], _seen)
            for i, r in enumerate(n["regions"]):
                if i in inner and r in lts and _has_mut_access(F, n["path"]):
                    found.add(lts.index(r))
    for v in a["variants"]:
        for fld in v["fields"]:
            walk(fld["ty"], f)
    return found or set(range(len(lts)))


def _has_mut_access(F, path):
    tab = load_table()
    row = tab["classes"].get(path)
    if row is None:
        return True
    return any(c in ("MUT", "OWN", "EXCL") for k, c in row.items() if not k.startswith("_"))


def _carriers(ty, mutset, F=None):
    """(region, description, top_level_by_value) for every mutable-access carrier in ty."""
    out = []

    def f(n, under):
        by_value = not any(u.get("k") in ("ref", "ptr") for u in under)
        if n.get("k") == "ref" and n.get("mut"):
            out.append((norm_region(n["region"]), "&mut " + n["inner"]["s"], by_value, n))
        elif n.get("k") == "adt" and n["path"] in mutset:
            idx = carrier_lifetimes(F, n["path"]) if F is not None else None
            for i, r in enumerate(n.get("regions", [])):
                if idx is None or i in idx:
                    out.append((norm_region(r), n["s"], by_value, n))
    walk(ty, f)
    return out


def r_mut_from_mut(F, V):
    R = Result("R-MUT-FROM-MUT", F.cfg)
    mutset = mut_class_types(F)
    n = 0
    for p, f in public_sigs(F):
        outc = _carriers(f["output"], mutset, F)
        outc = [c for c in outc if c[0] not in ("'static", "'erased")]
        if not outc:
            continue
        n += 1
        imp = f.get("impl") or {}
        if imp.get("trait") in ITERATOR_TRAITS:
            R.inst(p, "cursor-advancing trait method (%s): exactly-once delivery is C09/C19's R-ITEMS-GUARD/R-PAR-LINEAR" % imp["trait"].split("::")[-1], "exempt", False)
            continue
        if f["name"] == "default" and imp.get("trait") == "core::default::Default":
            continue
        # justification: an input that is `&r mut _` with exactly region r (at top level / by value position),
        # or a by-value mutable-class ADT carrying r
        just = set()
        for t in f["inputs"]:
            for (r, desc, by_value, node) in _carriers(t, mutset, F):
                if by_value:
                    just.add(r)
        bad = [(r, d) for (r, d, bv, node) in outc if r not in just]
        anchor = FakeBody(p, f["sp"])
        if bad:
            r0, d0 = bad[0]
            R.violation("%s|%s" % (p, d0.split("<")[0]), anchor,
                        "returns mutable/owning access `%s` with lifetime %s, but no argument is an exclusive borrow (`&%s mut`) or by-value mutable handle with that lifetime: "
                        "the result can coexist with other access to the same elements" % (d0, r0, r0),
                        output=f["output"]["s"], inputs=[t["s"] for t in f["inputs"]])
            R.inst(p, "mutable access not derived from exclusive access", "violation", True)
        else:
            R.inst(p, "mutable access %s derived from exclusive input" % sorted(set(d for _, d, _, _ in outc))[:2], "ok", True)
    R.floor("signatures returning mutable access", n, 40)
    return R


# --------------------------------------------------------------- R-REBORROW

def r_reborrow(F, V):
    """A handle type X<'a, ..> that carries mutable/owning access to the collection for 'a (entries, IterMut,
    Drain, ..) may be *re-borrowed* through `&self` / `&mut self` only for the receiver's own (shorter) borrow:
    an output that mentions the carrier lifetime 'a while the handle itself stays usable gives a reference that
    outlives the re-borrow - it coexists with the handle's later insert/remove/next (dangling or aliased)."""
    R = Result("R-REBORROW", F.cfg)
    mutset = mut_class_types(F)
    n = 0
    for p, f in public_sigs(F):
        if not f["inputs"]:
            continue
        recv = f["inputs"][0]
        if recv.get("k") != "ref":
            continue
        head = recv["inner"]
        if head.get("k") != "adt" or head["path"] not in mutset:
            continue
        imp = f.get("impl") or {}
        st = imp.get("self_ty") or {}
        if st.get("k") != "adt" or st.get("path") != head["path"]:
            continue
        idx = carrier_lifetimes(F, head["path"])
        carr = set(norm_region(r) for i, r in enumerate(head.get("regions", [])) if i in idx)
        carr.discard("'static")
        if not carr:
            continue
        if imp.get("trait") in ITERATOR_TRAITS:
            R.inst(p, "cursor-advancing trait method (%s): each call hands out a different element, exactly-once delivery is R-ITEMS-GUARD / R-PAR-LINEAR" % imp["trait"].split("::")[-1], "exempt", False)
            continue
        n += 1
        hits = []

        def visit(nd, under):
            if nd.get("k") == "ref" and norm_region(nd["region"]) in carr:
                hits.append(nd["s"])
            elif nd.get("k") == "adt" and nd["path"] in F.adts:
                for r in nd.get("regions", []):
                    if norm_region(r) in carr:
                        hits.append(nd["s"])
        walk(f["output"], visit)
        anchor = FakeBody(p, f["sp"])
        if hits:
            R.violation("%s|%s" % (p, hits[0].split("<")[0]), anchor,
                        "`%s` takes the handle by reference (`%s`) but returns `%s`, which carries the handle's own collection lifetime %s: the result outlives the re-borrow and "
                        "coexists with the handle's later mutations (insert/remove/next), i.e. a dangling or aliased reference from safe code"
                        % (p, recv["s"], hits[0], sorted(carr)[0]), output=f["output"]["s"], receiver=recv["s"])
            R.inst(p, "output carries the carrier lifetime of a by-reference receiver", "violation", True)
        else:
            R.inst(p, "output of by-reference method on %s does not mention its carrier lifetime %s" % (head["path"], sorted(carr)), "ok", True)
    R.floor("by-reference methods on mutable-access handles", n, 40)
    return R


# --------------------------------------------------------------- R-VARIANCE

def r_variance(F, V):
    """A type that can yield `&'x mut U` (or a type already in the set) with one of its OWN
    lifetime parameters must be invariant in the type parameters occurring in U."""
    R = Result("R-VARIANCE", F.cfg)
    # need[X] = set of X's type params that must be invariant, with a reason
    need = {}
    sources = []  # (X adt path, impl self_ty json, yielded type json, via)
    for p, f in F.fns.items():
        imp = f.get("impl")
        if not imp or "self_ty" not in imp:
            continue
        st = imp["self_ty"]
        if st.get("k") != "adt" or st["path"] not in F.adts:
            continue
        if not F.adts[st["path"]]["reachable"]:
            continue
        if not (f["reachable"] or imp.get("of_trait")):
            continue
        sources.append((st["path"], st, f["output"], p))
    for im in F.impls:
        st = im["self_ty"]
        if st.get("k") != "adt" or st["path"] not in F.adts or not F.adts[st["path"]]["reachable"]:
            continue
        for it in im["items"]:
            if it["kind"] == "type" and "ty" in it:
                sources.append((st["path"], st, it["ty"], im["path"] + "::" + it["name"]))
    # public fields (enum variants are always public)
    for path, a in F.adts.items():
        if not a["reachable"]:
            continue
        ident = {"k": "adt", "path": path, "regions": [g for g in a["generics"] if g.startswith("'")],
                 "args": [{"k": "param", "name": g, "s": g, "param": True} for g in a["generics"] if not g.startswith("'")], "s": path}
        for v in a["variants"]:
            for fld in v["fields"]:
                if a["kind"] == "enum" or fld["pub"]:
                    sources.append((path, ident, fld["ty"], "%s::%s.%s" % (path, v["name"], fld["name"])))

    def x_params_for(st, names):
        """which of X's type-parameter names (declaration names) are instantiated with types mentioning `names`"""
        a = F.adts[st["path"]]
        decl = [g for g in a["generics"] if not g.startswith("'")]
        out = set()
        for i, arg in enumerate(st.get("args", [])):
            if i < len(decl) and (params_in(arg) & names):
                out.add(decl[i])
        return out

    changed = True
    rounds = 0
    while changed and rounds < 10:
        changed = False
        rounds += 1
        for (X, st, ty, via) in sources:
            own = set(norm_region(r) for r in st.get("regions", []))
            if not own:
                continue

            def visit(n, under):
                nonlocal changed
                names = set()
                if n.get("k") == "ref" and n.get("mut") and norm_region(n["region"]) in own:
                    names = params_in(n["inner"])
                    why = "yields &%s mut %s via %s" % (n["region"], n["inner"]["s"], via)
                elif n.get("k") == "adt" and n["path"] in need and (set(norm_region(r) for r in n.get("regions", [])) & own):
                    a2 = F.adts[n["path"]]
                    decl2 = [g for g in a2["generics"] if not g.startswith("'")]
                    for i, arg in enumerate(n.get("args", [])):
                        if i < len(decl2) and decl2[i] in need[n["path"]]:
                            names |= params_in(arg)
                    why = "yields %s (which must be invariant) via %s" % (n["s"], via)
                if names:
                    for xp in x_params_for(st, names):
                        d = need.setdefault(X, {})
                        if xp not in d:
                            d[xp] = why
                            changed = True
            walk(ty, visit)
    n = 0
    for X, d in sorted(need.items()):
        a = F.adts[X]
        n += 1
        var = dict(zip(a["generics"], a["variances"]))
        bad = [(p, why) for p, why in d.items() if var.get(p) != "o"]
        anchor = FakeBody(X, a["sp"])
        if bad:
            for (p, why) in bad:
                R.violation("%s|%s" % (X, p), anchor,
                            "%s is %s in `%s` but %s: a longer-lived value can be replaced by a shorter-lived one through the mutable access"
                            % (X, {"+": "covariant", "-": "contravariant", "*": "bivariant"}.get(var.get(p), var.get(p)), p, why),
                            variances="".join(a["variances"]), generics=a["generics"])
            R.inst(X, "variance %s" % "".join(a["variances"]), "violation", True)
        else:
            R.inst(X, "invariant in %s as required (variances %s)" % (sorted(d), "".join(a["variances"])), "ok", True)
    R.floor("types handing out mutable access with their own lifetime", n, 8)
    return R


# --------------------------------------------------------------- R-RAW-ESCAPE

RAW_PREFIXES = ("raw::", "control::", "scopeguard::")


def r_raw_escape(F, V):
    R = Result("R-RAW-ESCAPE", F.cfg)
    n = 0
    for p, f in F.fns.items():
        if not f["reachable"]:
            continue
        n += 1
        hit = []

        def chk(node, under):
            if node.get("k") == "adt" and node["path"].startswith(RAW_PREFIXES) and not node["path"].startswith("raw::alloc"):
                hit.append(node["path"])
        for t in f["inputs"] + [f["output"]]:
            walk(t, chk)
        if hit:
            R.violation("%s|%s" % (p, hit[0]), FakeBody(p, f["sp"]),
                        "effectively-public signature mentions the internal raw type %s: unsafe raw handles escape the safe API" % hit[0])
            R.inst(p, "raw type in public signature", "violation", False)
    R.inst("all", "%d effectively-public signatures scanned, none mentions raw::/control:: types" % n, "ok", True)
    R.floor("effectively-public fns", n, 200)
    return R


# --------------------------------------------------------------- R-DROPCK

def r_dropck(F, V):
    """A destructor that goes through a raw pointer to a *borrowed* table must belong to a type that carries the borrow's
    lifetime: drop-check only keeps the referent alive for lifetimes that appear in the type that implements Drop. A
    lifetime-free helper struct (`ResetOnDrop<T, A> { table: NonNull<RawTable<T, A>> }`) with a Drop impl, used as a field of
    a borrowing handle, lets the collection be dropped before the handle - whose destructor then writes into freed memory."""
    R = Result("R-DROPCK", F.cfg)
    n = 0
    TABLES = ("raw::RawTable", "raw::RawTableInner", "map::HashMap", "set::HashSet", "table::HashTable")

    def points_to_table(ty):
        hit = []

        def f(nd, under):
            if nd.get("k") == "adt" and nd.get("path") in TABLES and any(u.get("k") in ("ptr", "rawptr") or (u.get("k") == "adt" and "NonNull" in (u.get("path") or "")) for u in under):
                hit.append(nd["path"])
        walk(ty, f)
        return hit
    for im in F.impls:
        if im.get("trait") != "core::ops::drop::Drop" or im["self_ty"].get("k") != "adt":
            continue
        X = im["self_ty"]["path"]
        a = F.adts.get(X)
        if not a:
            continue
        ptr_fields = [(f["name"], points_to_table(f["ty"])) for v in a["variants"] for f in v["fields"]]
        ptr_fields = [(nm, h) for nm, h in ptr_fields if h]
        if not ptr_fields:
            continue
        n += 1
        key = "%s|drop-through-raw-pointer" % X
        lifetimes = [g for g in a["generics"] if g.startswith("'")]
        owns = any("alloc" in f["name"].lower() or f["name"] in ("allocation",) for v in a["variants"] for f in v["fields"])
        if lifetimes or owns:
            R.inst(key, "has a destructor and a raw pointer to a table, and carries %s" % ("the lifetime(s) %s of the borrow" % ", ".join(lifetimes) if lifetimes else "the allocation it owns"), "ok", True)
        else:
            R.violation(key, FakeBody(X, a["sp"]), "%s implements Drop and reaches a table through the raw pointer field `%s`, but has no lifetime parameter: drop-check does not require the table to outlive a value "
                        "containing it, so the collection can be dropped first and the destructor then writes into freed memory (a `par_drain()` / guard declared before its collection compiles)" % (X, ptr_fields[0][0]))
            R.inst(key, "lifetime-free destructor over a borrowed table", "violation", True)
    R.info["types with Drop and a raw table pointer"] = n
    R.inst("scan", "%d Drop impls scanned" % len([im for im in F.impls if im.get("trait") == "core::ops::drop::Drop"]), "ok", True)
    return R
