"""Rules of DESIGN.md 4.H: sets, Clone/==, rayon, serde.
R-SET-DELEGATION, R-SET-EQUIV-ASSERT, R-EQ-LEN, R-CLONE-VIA-CLONE, R-CLONE-SAME-BUCKETS,
R-KEEP-KEY, R-HASH-SOURCE, R-PAR-LINEAR, R-SPLIT-ABUT, R-PAR-DELEGATION,
R-SERDE-CAUTIOUS, R-SERDE-INSERT."""
from core import callee_path, last_field, rv_operands
from cond import sources, branch_sources, controlling_sources
from rules.base import Result, where, line_of, param_of_type, param_named
from rules.accounting import deep_root, operand_deep_root
from rules.iters import _is_exhaustion_branch


from cond import TRANSPARENT_PREFIX as _TP0
_TP_PTR = _TP0 + ("core::ptr::", "raw::offset_from")


def _reach_after(body, b):
    out = set()
    for s in body.nsucc[b]:
        out |= body.reachable_from(s)
    return out


def _arg_root(body, t, q):
    if q >= len(t["args"]) or t["args"][q]["k"] not in ("copy", "move"):
        return None, []
    return deep_root(body, t["args"][q]["p"])


def _closure_bodies(F, V, body):
    out = []
    for i, k, s in body.stmts():
        if s["k"] == "assign" and s["rv"]["k"] == "aggregate" and s["rv"]["kind"] == "closure" and s["rv"]["closure"] in F.bodies:
            out.append((s, F.bodies[s["rv"]["closure"]]))
    return out


# --------------------------------------------------------------------- R-SET-DELEGATION

OPS = {
    "BitOr": ("bitor", "union"),
    "BitAnd": ("bitand", "intersection"),
    "BitXor": ("bitxor", "symmetric_difference"),
    "Sub": ("sub", "difference"),
}


def r_set_delegation(F, V):
    R = Result("R-SET-DELEGATION", F.cfg)
    n = 0
    for p, body in F.bodies.items():
        if not p.startswith("set::<&HashSet as "):
            continue
        for tr, (m, target) in OPS.items():
            if ("as %s<" % tr) in p and p.endswith("::" + m):
                n += 1
                key = "%s|->%s" % (p.split(" as ")[1].split("<")[0], target)
                hit = None
                for i, t in body.calls():
                    if (callee_path(t) or "") == "set::HashSet::" + target:
                        r0, _ = _arg_root(body, t, 0)
                        r1, _ = _arg_root(body, t, 1)
                        hit = (i, r0, r1)
                if hit is None:
                    R.violation(key, body, "the operator `%s` for &HashSet does not call HashSet::%s: operator form and method can disagree" % (tr, target))
                    R.inst(key, "operator does not delegate", "violation", True, where(body))
                elif (hit[1], hit[2]) != (1, 2):
                    R.violation(key, body, "the operator `%s` for &HashSet calls %s with its operands %s: a - b would compute b - a" % (tr, target, "swapped" if (hit[1], hit[2]) == (2, 1) else "not (self, rhs)"), line=line_of(body, bb=hit[0]))
                    R.inst(key, "operands not (self, rhs)", "violation", True, where(body, bb=hit[0]))
                else:
                    R.inst(key, "operator delegates to %s(self, rhs)" % target, "ok", True, where(body, bb=hit[0]))
    # predicates
    b = F.bodies.get("set::HashSet::is_superset")
    if b is not None:
        n += 1
        ok = False
        for i, t in b.calls():
            if (callee_path(t) or "") == "set::HashSet::is_subset":
                if (_arg_root(b, t, 0)[0], _arg_root(b, t, 1)[0]) == (2, 1):
                    ok = True
        if ok:
            R.inst("set::HashSet::is_superset", "is_superset(a, b) = is_subset(b, a)", "ok", True, where(b))
        else:
            R.violation("set::HashSet::is_superset|args", b, "is_superset does not call is_subset with the operands swapped")
    b = F.bodies.get("set::HashSet::symmetric_difference")
    if b is not None:
        n += 1
        pairs = []
        for i, t in b.calls():
            if (callee_path(t) or "") == "set::HashSet::difference":
                pairs.append((_arg_root(b, t, 0)[0], _arg_root(b, t, 1)[0]))
        if sorted(pairs) == [(1, 2), (2, 1)]:
            R.inst("set::HashSet::symmetric_difference", "chains a.difference(b) with b.difference(a)", "ok", True, where(b))
        else:
            R.violation("set::HashSet::symmetric_difference|args", b, "symmetric_difference is not a.difference(b) chained with b.difference(a) (found %s)" % pairs)
    for m, inner in (("union", "difference"), ("intersection", None), ("difference", None)):
        b = F.bodies.get("set::HashSet::" + m)
        if b is None:
            continue
        n += 1
        # the probe set of the filtering iterator is the *other* operand than the one iterated
        for i, k, s in b.stmts():
            if s["k"] == "assign" and s["rv"]["k"] == "aggregate" and s["rv"].get("adt") in ("set::Intersection", "set::Difference"):
                rv = s["rv"]
                it = rv["ops"][rv["fields"].index("iter")]
                ot = rv["ops"][rv["fields"].index("other")]
                S_it = sources(b, it)
                it_roots = set()
                for cp, lst in S_it.calls.items():
                    for bb, t in lst:
                        r_, p_ = _arg_root(b, t, 0)
                        it_roots.add((r_, tuple(x for x in p_ if x not in ("*", "&"))))
                ot_root = None
                if ot["k"] in ("copy", "move"):
                    r_, p_ = deep_root(b, ot["p"])
                    ot_root = (r_, tuple(x for x in p_ if x not in ("*", "&")))
                key = "set::HashSet::%s|iter-vs-other" % m
                phi_ok = True
                if it_roots and ot_root is not None and not (it_roots - {ot_root}):
                    phi_ok = False
                # (iterated, probed) pairs chosen by a size comparison: each pair must name two different operands
                for i2, k2, s2 in b.stmts():
                    if s2["k"] == "assign" and s2["rv"]["k"] == "aggregate" and s2["rv"]["kind"] == "tuple" and len(s2["rv"]["ops"]) == 2:
                        rr = [deep_root(b, o["p"]) if o["k"] in ("copy", "move") else None for o in s2["rv"]["ops"]]
                        if None not in rr and all(b.is_arg(r[0]) for r in rr) and (rr[0][0], tuple(rr[0][1])) == (rr[1][0], tuple(rr[1][1])):
                            phi_ok = False
                if not phi_ok:
                    R.violation(key, b, "%s builds its iterator over the same set it probes against: every element is trivially found (or the other set is ignored)" % m, line=line_of(b, stmt=s))
                else:
                    R.inst(key, "iterated set and probed set are different operands", "ok", True, where(b, stmt=s))
    # forwarding of the basic set operations to the map with the same key operand
    for m, target in (("insert", "map::HashMap::insert"), ("remove", "map::HashMap::remove"), ("contains", "map::HashMap::contains_key"), ("take", "map::HashMap::remove_entry"),
                      ("get", "map::HashMap::get_key_value"), ("clear", "map::HashMap::clear"), ("retain", "map::HashMap::retain"), ("drain", "map::HashMap::drain")):
        b = F.bodies.get("set::HashSet::" + m)
        if b is None:
            continue
        n += 1
        hit = [i for i, t in b.calls() if (callee_path(t) or "") == target]
        if hit:
            R.inst("set::HashSet::%s" % m, "forwards to %s" % target, "ok", False, where(b, bb=hit[0]))
        else:
            R.violation("set::HashSet::%s|forward" % m, b, "HashSet::%s does not forward to %s" % (m, target))
    R.floor("set delegation sites", n, {"posctl": 0}.get(F.cfg, 12))
    return R


# --------------------------------------------------------------------- R-SET-EQUIV-ASSERT

def r_set_equiv_assert(F, V):
    R = Result("R-SET-EQUIV-ASSERT", F.cfg)
    b = F.bodies.get("set::HashSet::get_or_insert_with")
    if b is None:
        R.undec("set::HashSet::get_or_insert_with not found")
        return R
    ins = [i for i, t in b.calls() if (callee_path(t) or "").endswith("insert_in_slot") or (callee_path(t) or "").endswith("RawTable::insert")]
    eqv = [(i, t) for i, t in b.calls() if t["f"].get("method") == "equivalent"]
    key = "set::HashSet::get_or_insert_with|assert-before-insert"
    if not ins or not eqv:
        R.violation(key, b, "get_or_insert_with must check `value.equivalent(&new)` before storing the new value (equivalent calls: %d, insert calls: %d)" % (len(eqv), len(ins)))
        return R
    ok = True
    why = ""
    for c in ins:
        guarded = False
        for (bb, s, S) in controlling_sources(b, c):
            if any(x == e for e, _ in eqv for x in [q for lst in S.calls.values() for q, _ in lst]) or (S.indirect and any(b.dominates(e, c) for e, _ in eqv)):
                tt = b.term(bb)
                zero = [x for v, x in tt["targets"] if v == 0]
                other = [x for x in b.nsucc[bb] if x != s]
                # the other arm diverges
                if all(not b.can_reach_return(x) for x in other):
                    guarded = True
        if not guarded:
            ok = False
            why = "the insertion is not control-dependent on the success arm of the equivalence check (whose other arm must panic)"
        if not any(b.dominates(e, c) for e, _ in eqv):
            ok = False
            why = "the value is stored before `equivalent` is evaluated"
    if ok:
        R.inst(key, "insert_in_slot is dominated by the success arm of value.equivalent(&new); the other arm diverges", "ok", True, where(b, bb=ins[0]))
    else:
        R.violation(key, b, "get_or_insert_with: %s: a refused (non-equivalent) value ends up in the set, filed under the probe's hash" % why, line=line_of(b, bb=ins[0]))
        R.inst(key, why, "violation", True, where(b, bb=ins[0]))
    return R


# --------------------------------------------------------------------- R-EQ-LEN

def _result_defs(b, local=0, _seen=None):
    """[(kind, block)] for every definition reaching the return place: 'true'/'false' constants, 'call', or a description."""
    _seen = _seen if _seen is not None else set()
    if local in _seen:
        return []
    _seen.add(local)
    out = []
    for d in b.defs.get(local, ()):
        if d[0] == "call":
            out.append(("call", d[1]))
            continue
        st = d[3]
        if st["k"] != "assign":
            out.append(("setdiscr", d[1]))
            continue
        rv = st["rv"]
        if rv["k"] == "use" and rv["op"]["k"] == "const":
            v = str(rv["op"].get("val"))
            out.append(("true" if v in ("1", "true") else "false" if v in ("0", "false") else "const " + v, d[1]))
        elif rv["k"] == "use" and rv["op"]["k"] in ("copy", "move") and not rv["op"]["p"].get("proj"):
            out.extend(_result_defs(b, rv["op"]["p"]["l"], _seen))
        else:
            out.append((rv["k"] + " expression", d[1]))
    return out


def _map_or_default_problems(F, V, b):
    """in the element-wise comparison `other.get(k).map_or(DEFAULT, |v| ..)` a key missing from `other` must answer false"""
    out = []
    for q in [b.path] + [c for c in F.bodies if c.startswith(b.path + "::{closure")]:
        qb = F.bodies[q]
        for i, t in qb.calls():
            cp = callee_path(t) or ""
            if cp.endswith("Option::map_or") and len(t["args"]) > 1:
                dflt = t["args"][1]
                if dflt["k"] == "const" and dflt.get("val") in (1, True):
                    out.append("a key that is missing from the other map counts as EQUAL (map_or(true, ..)): maps with different key sets of the same size compare equal")
                elif dflt["k"] != "const":
                    out.append("the answer for a key missing from the other map is not the constant false")
            if cp.endswith("Option::is_none_or"):
                out.append("a key that is missing from the other map counts as equal (is_none_or)")
    return out


def r_eq_len(F, V):
    R = Result("R-EQ-LEN", F.cfg)
    n = 0
    for p, look in (("map::<HashMap as PartialEq<map::HashMap<K, V, S, A>>>::eq", ("map::HashMap::get", "map::HashMap::get_key_value", "map::HashMap::contains_key")),
                    ("set::<HashSet as PartialEq<set::HashSet<T, S, A>>>::eq", ("set::HashSet::contains", "set::HashSet::get", "set::HashSet::is_subset"))):
        b = F.bodies.get(p)
        if b is None:
            R.undec("%s not found" % p)
            continue
        n += 1
        key = "%s|len-then-lookup" % p.split("::")[0]
        scan = [i for i, t in b.calls() if t["f"].get("method") in ("all", "any", "fold", "try_fold") or (callee_path(t) or "").endswith("::all")]
        problems = []
        loop_scan = None
        subset_scan = [i for i, t in b.calls() if (callee_path(t) or "").endswith("HashSet::is_subset") and len(t["args"]) >= 2
                       and _arg_root(b, t, 0)[0] == 1 and _arg_root(b, t, 1)[0] == 2]
        if not scan and subset_scan:
            scan = subset_scan      # `self.len() == other.len() && self.is_subset(other)`: is_subset is the element scan
        if not scan:
            # the scan written as an explicit loop: `for x in self.iter() { if !member(x) { return false } } true`
            for h, blocks in b.natural_loops():
                nx = [i for i in blocks if b.term(i)["k"] == "call" and (b.term(i)["f"].get("method") == "next" or (callee_path(b.term(i)) or "").endswith("::next"))]
                lk = [i for i in blocks if b.term(i)["k"] == "call" and (callee_path(b.term(i)) or "") in look]
                if nx and lk:
                    loop_scan = (h, blocks, nx)
            if loop_scan is None:
                problems.append("no element scan found")
            else:
                scan = [loop_scan[0]]
        for sc in scan:
            ok = False
            weaker = []
            for (bb, s, S) in controlling_sources(b, sc):
                lens = [c for c in S.calls if c.endswith("::len")]
                if lens and ("Ne" in S.binops or "Eq" in S.binops):
                    # both operands' len
                    roots = set()
                    for c in lens:
                        for blk, t in S.calls[c]:
                            roots.add(_arg_root(b, t, 0)[0])
                    if roots >= {1, 2}:
                        ok = True
                elif lens:
                    weaker.append(sorted(S.binops))
            if not ok and weaker:
                # (a `<=` test next to the `==` one - e.g. inside a shared "is every entry of a in b" helper - is implied by it)
                problems.append("the lengths are compared with %s instead of == / !=: a strict sub-map compares equal in one direction (== is not symmetric)" % weaker[0])
            if not ok and not problems:
                problems.append("the element scan is not guarded by equality of the two len() values")
        # membership through other's own lookup
        found = False
        wrong_recv = False
        for st_, cb in [(None, b)] + list(_closure_bodies(F, V, b)):
            for i, t in cb.calls():
                if (callee_path(t) or "") in look:
                    found = True
                    # the receiver of the lookup is `other` (argument 2), the elements come from `self`
                    r_, path_ = _arg_root(cb, t, 0)
                    recv = None
                    if cb is b:
                        recv = r_
                    elif st_ is not None and r_ == 1:
                        idx_ = [x for x in path_ if x.isdigit()]
                        ops_ = st_["rv"]["ops"]
                        if idx_ and int(idx_[0]) < len(ops_) and ops_[int(idx_[0])]["k"] in ("copy", "move"):
                            recv = deep_root(b, ops_[int(idx_[0])]["p"])[0]
                    if recv == 1 and not (cb is b and i in subset_scan):
                        wrong_recv = True
        if wrong_recv:
            problems.append("membership is tested in `self` instead of in `other` (self.%s of an element of self is always true): any two collections of the same length compare equal" % look[0].split("::")[-1])
        if not found:
            problems.append("membership in `other` is not tested through other's own lookup (%s)" % "/".join(x.split("::")[-1] for x in look))
        # the verdict `true` can only come out of the element scan: every definition of the return value is
        # the constant false or the scan's own result (an identity / pointer-equality shortcut answers `true`
        # for a map holding a value with non-reflexive ==, e.g. NaN, which the element-wise definition rejects)
        for val, blk in _result_defs(b):
            if val == "true" and loop_scan is not None:
                # `true` only after the loop has run to exhaustion: with the None edges of the loop's next() removed the
                # block that sets it is unreachable
                h_, blocks_, nx_ = loop_scan
                cut = set()
                for j in blocks_:
                    if _is_exhaustion_branch(b, j):
                        tj = b.term(j)
                        vals = [v for v, _ in tj["targets"]]
                        for v, x in tj["targets"]:
                            if v == 0:
                                cut.add((j, x))
                        if 0 not in vals and 1 in vals and tj.get("otherwise") is not None:
                            cut.add((j, tj["otherwise"]))
                seen_, work_ = {0}, [0]
                while work_:
                    x = work_.pop()
                    for y in b.nsucc[x]:
                        if (x, y) in cut or y in seen_:
                            continue
                        seen_.add(y)
                        work_.append(y)
                if blk in seen_ or not cut:
                    problems.append("eq returns `true` on a path that does not come out of the element-by-element scan (a shortcut): == must be decided by the keys and values alone")
                continue
            if val == "true":
                problems.append("eq returns `true` on a path that does not come out of the element-by-element scan (a shortcut): == must be decided by the keys and values alone")
            elif val == "call":
                t = b.term(blk)
                if blk not in scan:
                    problems.append("eq returns the result of %s instead of the element scan" % (callee_path(t) or "an indirect call"))
            elif val not in ("false",):
                problems.append("eq returns a value that is neither `false` nor the element scan's result (%s)" % val)
        problems += _map_or_default_problems(F, V, b)
        if problems:
            R.violation(key, b, "; ".join(sorted(set(problems))))
            R.inst(key, "; ".join(sorted(set(problems))), "violation", True, where(b))
        else:
            R.inst(key, "scan guarded by len() equality; membership via other's own hasher; `true` only from the scan", "ok", True, where(b))
    # the parallel counterparts decide a missing key the same way
    for pp_ in ("external_trait_impls::rayon::map::HashMap::par_eq",):
        pb = F.bodies.get(pp_)
        if pb is None:
            continue
        n += 1
        pr = _map_or_default_problems(F, V, pb)
        # ... and only maps of equal length can be equal: the parallel scan (`all`) is guarded by `self.len() == other.len()`
        scans = [i for i, t in pb.calls() if t["f"]["k"] == "fn" and (t["f"].get("method") in ("all", "any") or (callee_path(t) or "").endswith("ParallelIterator::all"))]
        len_ok = False
        len_bad = None
        for sc in scans:
            for (bb, s_, S) in controlling_sources(pb, sc):
                lens = [c for c in S.calls if c.endswith("::len")]
                if lens and ({"Eq", "Ne"} & S.binops):
                    len_ok = True
                elif lens:
                    len_bad = sorted(S.binops)
        # `a.len() == b.len() && scan`: the comparison may also be a conjunct of the result instead of a branch
        for i, k, st in pb.stmts():
            if st["k"] == "assign" and st["rv"]["k"] == "binop" and st["rv"]["op"] in ("Eq", "Ne"):
                Sx = sources(pb, st["rv"]["a"])
                Sy = sources(pb, st["rv"]["b"])
                if any(c.endswith("::len") for c in Sx.calls) and any(c.endswith("::len") for c in Sy.calls):
                    len_ok = True
        if scans and len_bad and not len_ok:
            pr.append("the lengths are compared with %s instead of ==: a strict sub-map is reported equal to its super-map (par_eq is not symmetric and disagrees with ==)" % len_bad)
        elif scans and not len_ok:
            pr.append("the parallel element scan is not guarded by equality of the two len() values: a strict sub-map is reported equal to its super-map")
        if pr:
            R.violation(pp_ + "|missing-key", pb, "; ".join(sorted(set(pr))))
            R.inst(pp_ + "|missing-key", "; ".join(sorted(set(pr))), "violation", True, where(pb))
        else:
            R.inst(pp_ + "|missing-key", "a key missing from the other map makes the comparison false", "ok", True, where(pb))
    R.floor("PartialEq impls", n, {"posctl": 0}.get(F.cfg, 2))
    return R


# --------------------------------------------------------------------- R-CLONE-VIA-CLONE / R-CLONE-SAME-BUCKETS

def r_clone_shape(F, V):
    R = Result("R-CLONE-SHAPE", F.cfg)
    b = F.bodies.get("raw::RawTable::clone_from_impl")
    if b is None:
        R.undec("raw::RawTable::clone_from_impl not found")
        return R
    n = 0
    for i, t in b.calls():
        if (callee_path(t) or "") == "raw::Bucket::write":
            n += 1
            S = sources(b, t["args"][1]) if len(t["args"]) > 1 else None
            if S and any(c.endswith("Clone::clone") or c.endswith("::clone") for c in S.calls):
                R.inst("clone_from_impl|write", "every slot is written with a Clone::clone result (independently owned)", "ok", True, where(b, bb=i))
            else:
                R.violation("raw::RawTable::clone_from_impl|write", b, "clone_from_impl writes a slot with something that is not the result of T::clone: the clone would share ownership with the source (double drop)", line=line_of(b, bb=i))
    if n == 0:
        R.violation("raw::RawTable::clone_from_impl|no-write", b, "clone_from_impl does not write elements with Bucket::write(T::clone(..)) (bit-wise copy of the data part would duplicate ownership)")
    for i, t in b.calls():
        cp = callee_path(t) or ""
        if ("copy" in cp and "ptr" in cp) and not any(s == "control::tag::Tag" for s in t["f"].get("substs", [])):
            R.violation("raw::RawTable::clone_from_impl|memcpy", b, "clone_from_impl copies memory that is not control bytes (%s): elements must be cloned, not copied" % cp, line=line_of(b, bb=i))
    # the clone's control bytes end up equal to the source's: copied wholesale, or - if the control array is rebuilt slot by slot -
    # with the source's tombstones reproduced too (a DELETED byte that becomes EMPTY in the clone cuts the probe chains that ran
    # over it: elements stored behind it are no longer found in the clone)
    key_c = "raw::RawTable::clone_from_impl|ctrl-bytes"
    bulk = [i for i, t in b.calls() if "copy" in (callee_path(t) or "") and any(s_ == "control::tag::Tag" or s_ == "u8" for s_ in t["f"].get("substs", []))]
    fills = [i for i, t in b.calls() if t["f"].get("method") == "fill_empty" or (callee_path(t) or "").endswith("fill_empty")]
    if bulk:
        R.inst(key_c, "the control bytes of the source are copied wholesale", "ok", True, where(b, bb=bulk[0]))
    elif fills:
        tomb = False
        for i, t in b.calls():
            if (callee_path(t) or "").endswith("RawTableInner::set_ctrl") and len(t["args"]) > 2:
                tg = t["args"][2]
                if tg["k"] == "const" and (tg.get("def") or "").endswith("Tag::DELETED") or any(o[0] == "const" and (o[1].get("def") or "").endswith("Tag::DELETED") for o in b.origins(tg)):
                    # in a loop over all buckets, on the arm where the source's byte is DELETED
                    cs = controlling_sources(b, i)
                    if any(S_.has_call("RawTableInner::ctrl") for (_, _, S_) in cs):
                        tomb = True
        if tomb:
            R.inst(key_c, "the control array is rebuilt: reset to EMPTY, the source's DELETED markers reproduced, FULL tags set as the clones are written", "ok", True, where(b, bb=fills[0]))
        else:
            R.violation(key_c, b, "clone_from_impl rebuilds the control array from EMPTY and sets only the tags of the cloned elements: the source's DELETED markers are lost, so in the clone a probe sequence that has to "
                        "pass such a slot stops early - elements stored behind a tombstone are present in the clone (iter, len) but are not found by lookups", line=line_of(b, bb=fills[0]))
            R.inst(key_c, "tombstones not reproduced in the clone", "violation", True, where(b, bb=fills[0]))
    # clone_from: clone_from_spec runs only when both tables have the same number of buckets
    cf = F.bodies.get("raw::<RawTable as Clone>::clone_from")
    if cf is None:
        R.undec("raw::<RawTable as Clone>::clone_from not found")
    else:
        specs = [i for i, t in cf.calls() if t["f"].get("method") == "clone_from_spec" or (callee_path(t) or "").endswith("clone_from_spec") or (callee_path(t) or "").endswith("clone_from_impl")]
        key = "raw::<RawTable as Clone>::clone_from|same-buckets"
        if not specs:
            R.undec("clone_from: no clone_from_spec call")
        else:
            # a comparison of self.buckets() with source.buckets() decides whether the table is replaced first
            ok = False
            cmp_block = None
            for j in cf.normal:
                tt = cf.term(j)
                if tt["k"] != "switch":
                    continue
                S = branch_sources(cf, j)
                bk = [c for c in S.calls if c.endswith("::buckets")]
                if bk and ({"Ne", "Eq"} & S.binops):
                    roots = set()
                    for c in bk:
                        for blk, t in S.calls[c]:
                            roots.add(_arg_root(cf, t, 0)[0])
                    if len(roots) >= 2:
                        ok = True
                        cmp_block = j
            realloc = [i for i, t in cf.calls() if (callee_path(t) or "").endswith("RawTableInner::new_uninitialized")]
            realloc_ok = False
            for r in realloc:
                t = cf.term(r)
                if len(t["args"]) >= 3:
                    S = sources(cf, t["args"][2])
                    if any(c.endswith("::buckets") for c in S.calls):
                        for c in [c for c in S.calls if c.endswith("::buckets")]:
                            for blk, tt in S.calls[c]:
                                if _arg_root(cf, tt, 0)[0] == 2:
                                    realloc_ok = True
            if ok and realloc_ok:
                R.inst(key, "the target is re-allocated with source.buckets() exactly when self.buckets() != source.buckets(), before the element-wise clone", "ok", True, where(cf, bb=cmp_block))
            else:
                R.violation(key, cf, "clone_from does not decide on `self.buckets() != source.buckets()` whether to re-allocate with source.buckets() (comparison on bucket counts: %s, re-allocation sized by source.buckets(): %s): clone_from_impl copies source.num_ctrl_bytes() control bytes and indexes by the source's bucket count" % (ok, realloc_ok))
                R.inst(key, "bucket-count agreement not established", "violation", True, where(cf))
    R.floor("Bucket::write sites in clone_from_impl", n, 1)
    return R


# --------------------------------------------------------------------- R-KEEP-KEY

def r_keep_key(F, V):
    R = Result("R-KEEP-KEY", F.cfg)
    b = F.bodies.get("map::HashMap::insert")
    n = 0
    if b is None:
        R.undec("map::HashMap::insert not found")
    else:
        n += 1
        # on an existing key only the value component (.1) of the stored tuple is written (by mem::replace, mem::swap,
        # ptr::replace, ptr::write or an assignment), never the key component or the whole tuple
        WRITERS = ("core::mem::replace", "core::mem::swap", "core::ptr::replace", "core::ptr::write", "core::ptr::mut_ptr::*mut T::write", "core::ptr::mut_ptr::*mut T::replace")

        def tail_of(path):
            tail = []
            for x in path:
                if x.startswith("."):
                    tail = []
                elif x not in ("*", "&") and not x.startswith("as "):
                    tail.append(x)
            return tail
        tails = []
        for i, t in b.calls():
            if (callee_path(t) or "") in WRITERS:
                for q in (0, 1) if (callee_path(t) or "") == "core::mem::swap" else (0,):
                    r, path = _arg_root(b, t, q)
                    if any(x == ".as_mut" for x in path):
                        tails.append(tail_of(path))
        for i, k, st in b.stmts():
            if st["k"] == "assign" and any(e["k"] == "deref" for e in st["p"].get("proj", [])):
                r, path = deep_root(b, st["p"])
                if any(x == ".as_mut" for x in path):
                    tails.append(tail_of(path))
        ok = ["1"] in tails
        key_stores = [t_ for t_ in tails if t_ != ["1"]]
        if ok and not key_stores:
            R.inst("map::HashMap::insert|keep-key", "on an existing key only `.1` (the value) of the stored pair is overwritten; the stored key is kept", "ok", True, where(b))
        else:
            R.violation("map::HashMap::insert|keep-key", b, "HashMap::insert does not replace exactly the value component of an existing entry (writes into the stored pair: %s): the originally stored key must be kept" % (tails or "none"))
    b = F.bodies.get("set::HashSet::replace")
    if b is not None:
        n += 1
        repl = [(i, t, b) for i, t in b.calls() if (callee_path(t) or "") == "core::mem::replace"]
        for st_, cb_ in _closure_bodies(F, V, b):
            repl += [(i, t, cb_) for i, t in cb_.calls() if (callee_path(t) or "") == "core::mem::replace"]
        ok = False
        for i, t, b_ in repl:
            tail = []
            for x in _arg_root(b_, t, 0)[1]:
                if x.startswith("."):
                    tail = []
                elif x not in ("*", "&"):
                    tail.append(x)
            if tail == ["0"]:
                ok = True
            # ... or over the whole stored pair `(T, ())` (through the found bucket), which for a set is the element itself
            if tail == [] and any(x.startswith(".as_mut") or x.startswith(".as_ptr") for x in _arg_root(b_, t, 0)[1]):
                S1 = sources(b_, t["args"][1]) if len(t["args"]) > 1 else None
                if S1 is not None and (S1.args - {1}):
                    ok = True
        if ok:
            R.inst("set::HashSet::replace|stores-new", "replace stores the new value into the slot (.0) and returns the old one", "ok", True, where(b))
        else:
            R.violation("set::HashSet::replace|stores-new", b, "HashSet::replace does not store the new value over the existing element")
    for m in ("get_or_insert", "get_or_insert_with"):
        b = F.bodies.get("set::HashSet::" + m)
        if b is None:
            continue
        n += 1
        bad = [i for i, t in b.calls() if (callee_path(t) or "") in ("core::mem::replace", "core::mem::swap", "core::ptr::write", "core::ptr::replace", "raw::Bucket::write")]
        # a plain assignment through the found bucket (`bucket.as_mut().0 = value`) overwrites just the same
        for i, k, st in b.stmts():
            if st["k"] == "assign" and any(e["k"] == "deref" for e in st["p"].get("proj", [])):
                r_, path_ = deep_root(b, st["p"])
                if any(x in (".as_mut", ".as_ptr") for x in path_):
                    bad.append(i)
        if bad:
            R.violation("set::HashSet::%s|keeps-old" % m, b, "HashSet::%s overwrites an existing element (must keep the old one)" % m, line=line_of(b, bb=bad[0]))
        else:
            R.inst("set::HashSet::%s|keeps-old" % m, "existing element is returned untouched", "ok", True, where(b))
    # the entry family: `insert` on an entry that turns out Occupied has the effect of HashMap::insert on a present
    # key - only the value is replaced.  (1) the enum-level insert touches an occupied entry only through its
    # value accessors; (2) <Occupied>::insert writes through get_mut; (3) get_mut is `&mut pair.1`.
    VALUE_ONLY = ("insert", "get", "get_mut", "into_mut", "key", "get_key_value")
    for ep in ("map::Entry::insert", "map::EntryRef::insert", "raw_entry::RawEntryMut::insert", "rustc_entry::RustcEntry::insert"):
        b = F.bodies.get(ep)
        if b is None:
            continue
        n += 1
        key = ep + "|occupied-arm-value-only"
        occ_calls = []
        for i, t in b.calls():
            cp = callee_path(t) or ""
            if "Occupied" in cp.rsplit("::", 1)[0]:
                occ_calls.append((i, cp))
        bad = [(i, cp) for i, cp in occ_calls if cp.rsplit("::", 1)[1] not in VALUE_ONLY]
        direct = [i for i, t in b.calls() if (callee_path(t) or "") in ("core::mem::replace", "core::mem::swap", "core::ptr::write", "raw::Bucket::write")]
        if not occ_calls:
            R.undec("%s: no call on the occupied entry found" % ep)
        elif bad or direct:
            what = bad[0][1] if bad else "a direct write"
            R.violation(key, b, "%s on an occupied entry does more than replace the value (%s): inserting under a present key keeps the stored key, as HashMap::insert does" % (ep, what),
                        line=line_of(b, bb=(bad[0][0] if bad else direct[0])))
            R.inst(key, "occupied arm not value-only", "violation", True, where(b))
        else:
            R.inst(key, "occupied arm only calls %s" % sorted(set(cp.rsplit("::", 1)[1] for _, cp in occ_calls)), "ok", True, where(b))
    for op_ in ("map::OccupiedEntry", "raw_entry::RawOccupiedEntryMut", "rustc_entry::RustcOccupiedEntry"):
        b = F.bodies.get(op_ + "::insert")
        g = F.bodies.get(op_ + "::get_mut")
        if b is None or g is None:
            continue
        n += 1
        key = op_ + "::insert|value-only"
        probs = []
        uses_get_mut = False
        wr = [(i, t) for i, t in b.calls() if (callee_path(t) or "") in ("core::mem::replace", "core::mem::swap", "core::ptr::write", "core::ptr::replace")]
        if not wr:
            probs.append("no mem::replace of the stored value found")
        for i, t in wr:
            r, path = _arg_root(b, t, 0)
            d = b.single_def(r) if r is not None else None
            via_get_mut = bool(d and d[0] == "call" and (callee_path(d[3]) or "") == op_ + "::get_mut" and not [x for x in path if x not in ("*", "&")])
            tl = []
            for x in path:
                if x.startswith("."):
                    tl = []
                elif x not in ("*", "&") and not x.startswith("as "):
                    tl.append(x)
            direct_value = ".as_mut" in path and tl == ["1"]
            if via_get_mut:
                uses_get_mut = True
            elif not direct_value:
                probs.append("the place overwritten is neither the reference returned by get_mut() nor `.1` of the stored pair")
        for i, t in b.calls():
            cp = callee_path(t) or ""
            if cp.startswith(op_ + "::") and cp.rsplit("::", 1)[1] not in VALUE_ONLY:
                probs.append("calls %s" % cp)
        tails = []
        for d in g.defs.get(0, ()):
            if d[0] == "stmt" and d[3]["k"] == "assign":
                rv = d[3]["rv"]
                pl = rv.get("p") if rv["k"] in ("ref", "rawptr") else (rv["op"]["p"] if rv["k"] == "use" and rv["op"]["k"] in ("copy", "move") else None)
                if pl is not None:
                    r, path = deep_root(g, pl)
                    tail = []
                    for x in path:
                        if x.startswith("."):
                            tail = []
                        elif x not in ("*", "&") and not x.startswith("as "):
                            tail.append(x)
                    tails.append(tail)
            else:
                tails.append(["<call>"])
        if uses_get_mut and tails != [["1"]]:
            probs.append("get_mut() does not return `&mut pair.1` of the stored pair (returns %s)" % tails)
        if probs:
            R.violation(key, b, "%s::insert must replace exactly the value of the stored pair: %s" % (op_, "; ".join(sorted(set(probs)))))
            R.inst(key, "; ".join(sorted(set(probs))), "violation", True, where(b))
        else:
            R.inst(key, "insert = mem::replace(self.get_mut(), value) and get_mut = &mut pair.1", "ok", True, where(b))
    R.floor("keep-key bodies", n, {"posctl": 0}.get(F.cfg, 3))
    return R


# --------------------------------------------------------------------- R-HASH-SOURCE

def r_hash_source(F, V):
    """in safe HashMap/HashSet entry points the hash handed to the raw table is make_hash(&self.hash_builder, k)
    of the same k the eq closure compares with"""
    R = Result("R-HASH-SOURCE", F.cfg)
    n = 0
    RAW_OPS = ("raw::RawTable::find", "raw::RawTable::get", "raw::RawTable::get_mut", "raw::RawTable::find_or_find_insert_slot", "raw::RawTable::remove_entry",
               "raw::RawTable::insert", "raw::RawTable::insert_entry", "raw::RawTable::insert_in_slot", "raw::RawTable::insert_no_grow")
    for p, body in F.bodies.items():
        if not (p.startswith("map::HashMap::") or p.startswith("set::HashSet::") or p.startswith("rustc_entry::HashMap::") or p.startswith("raw_entry::RawEntryBuilder") or p.startswith("map::VacantEntry") or p.startswith("map::VacantEntryRef")
                or p.startswith("raw_entry::RawVacantEntryMut::") or p.startswith("raw_entry::RawEntryMut::")):
            continue
        if "hashed_nocheck" in p or "from_hash" in p or "with_hasher" in p or "::{closure" in p or body.unsafe:
            continue
        if any(body.locals[l]["ty"]["s"] == "u64" for l in range(1, body.arg_count + 1)):
            continue  # takes the hash by contract
        for i, t in body.calls():
            cp = callee_path(t) or ""
            if cp not in RAW_OPS and not cp.endswith("HashMap::find_or_find_insert_slot") and not (p.startswith("raw_entry::") and cp in ("raw_entry::RawVacantEntryMut::insert_hashed_nocheck", "raw_entry::RawVacantEntryMut::insert_entry")):
                continue
            hq = None
            cb = F.bodies.get(cp)
            if cb is None:
                continue
            for q in range(cb.arg_count):
                if cb.locals[q + 1]["ty"]["s"] == "u64":
                    hq = q
            if hq is None or hq >= len(t["args"]):
                continue
            n += 1
            key = "%s|hash->%s" % (p, cp.split("::")[-1])
            S = sources(body, t["args"][hq])
            mh = [c for c in S.calls if c.endswith("make_hash") or c.endswith("make_hasher")]
            if not mh and S.has_load("hash") and S.args == {1} and not p.startswith("raw_entry::"):
                R.inst(key, "hash carried in the entry's `hash` field (its construction is checked separately)", "ok", False, where(body, bb=i))
                continue
            if not mh and p.startswith("raw_entry::"):
                # a raw vacant entry may have been found with ANY hash (from_hash / from_key_hashed_nocheck): a hash it carries says
                # nothing about the key that is inserted now
                R.violation(key, body, "a raw vacant entry files the inserted key under a hash that is not make_hash(hash_builder, &key) of that key (e.g. the hash the entry was looked up with): later lookups by key do not find the element", line=line_of(body, bb=i))
                R.inst(key, "inserted key not hashed", "violation", True, where(body, bb=i))
                continue
            if not mh:
                R.violation(key, body, "the hash passed to %s is not make_hash(&self.hash_builder, key): lookups/inserts would use a hash unrelated to the map's hasher" % cp, line=line_of(body, bb=i))
                R.inst(key, "hash not from make_hash", "violation", True, where(body, bb=i))
                continue
            good = True
            for c in mh:
                for blk, tt in S.calls[c]:
                    r0, p0 = _arg_root(body, tt, 0)
                    if "hash_builder" not in p0:
                        good = False
            if good:
                R.inst(key, "hash = make_hash(&self.hash_builder, key)", "ok", True, where(body, bb=i))
            else:
                R.violation(key, body, "make_hash is not applied to the map's own hash_builder", line=line_of(body, bb=i))
    # entries that carry a hash: the stored hash is make_hash(&self.hash_builder, key) of the stored key
    for p, body in F.bodies.items():
        if any(body.locals[l]["ty"]["s"] == "u64" for l in range(1, body.arg_count + 1)) or "hashed_nocheck" in p or "from_hash" in p:
            continue
        for i, k, s in body.stmts():
            if s["k"] == "assign" and s["rv"]["k"] == "aggregate" and s["rv"]["kind"] == "adt" and "hash" in s["rv"].get("fields", []) and s["rv"]["adt"].split("::")[0] in ("map", "rustc_entry", "set"):
                n += 1
                rv = s["rv"]
                S = sources(body, rv["ops"][rv["fields"].index("hash")])
                key = "%s|%s.hash" % (p, rv["adt"].split("::")[-1])
                if any(c.endswith("make_hash") for c in S.calls):
                    R.inst(key, "entry.hash = make_hash(&self.hash_builder, key)", "ok", True, where(body, stmt=s))
                elif S.has_load("hash"):
                    R.inst(key, "hash copied from another entry", "ok", False, where(body, stmt=s))
                else:
                    R.violation(key, body, "an entry is created with a hash that is not make_hash(&self.hash_builder, key): its later insert files the element under an unrelated hash", line=line_of(body, stmt=s))
    R.floor("raw-table operations fed by a computed hash", n, {"posctl": 0}.get(F.cfg, 8))
    return R


# --------------------------------------------------------------------- R-PAR-LINEAR / R-SPLIT-ABUT / R-PAR-DELEGATION

def r_par_linear(F, V):
    R = Result("R-PAR-LINEAR", F.cfg)
    p = "external_trait_impls::rayon::raw::<ParDrainProducer as UnindexedProducer>::fold_with"
    b = F.bodies.get(p)
    if b is None:
        R.undec("%s not found (feature rayon)" % p)
        return R
    forgets = []
    for i, t in b.calls():
        if (callee_path(t) or "") == "core::mem::forget" and t["args"] and t["args"][0]["k"] in ("copy", "move") and b.root_of_place(t["args"][0]["p"])[0] == 1:
            forgets.append(i)
    key = p + "|forget-only-when-exhausted"
    nexts = [i for i, t in b.calls() if t["f"].get("method") == "next" and _arg_root(b, t, 0)[0] == 1 and "iter" in _arg_root(b, t, 0)[1]]
    problems = []
    if not nexts:
        problems.append("the leaf does not iterate `&mut self.iter` in place (elements handed out through another cursor are not accounted for by Drop)")
    if not forgets:
        problems.append("self is never forgotten: elements already consumed would be dropped again by Drop")
    for f in forgets:
        # forget must be reached only through the exhaustion exit (None arm) of self.iter.next()
        ok = False
        for (bb, s, S) in controlling_sources(b, f):
            if _is_exhaustion_branch(b, bb):
                d = b.single_def(b.single_def(b.term(bb)["discr"]["p"]["l"])[3]["rv"]["p"]["l"])
                if d and d[1] in nexts:
                    zero = [x for v, x in b.term(bb)["targets"] if v == 0]
                    if s in zero:
                        ok = True
        if not ok and nexts:
            # loop form: forget reachable from loop head only via the None arm
            heads = [h for h, blocks in b.natural_loops() if any(n in blocks for n in nexts)]
            for h, blocks in b.natural_loops():
                if any(n in blocks for n in nexts) and f not in blocks:
                    exits = [(x, y) for x in blocks for y in b.nsucc[x] if y not in blocks and f in b.reachable_from(y)]
                    if exits and all(_is_exhaustion_branch(b, x) for x, y in exits):
                        ok = True
        if not ok:
            problems.append("mem::forget(self) can be reached while the cursor still holds elements (not only through the exhaustion of self.iter): the elements a full consumer never received are leaked instead of dropped")
    if problems:
        R.violation(key, b, "; ".join(problems), line=line_of(b, bb=forgets[0]) if forgets else None)
        R.inst(key, "; ".join(problems), "violation", True, where(b))
    else:
        R.inst(key, "iterates &mut self.iter in place; mem::forget(self) only after exhaustion; early return leaves the rest to Drop", "ok", True, where(b))
    # Drop iterates the same field
    d = F.bodies.get("external_trait_impls::rayon::raw::<ParDrainProducer as Drop>::drop")
    if d is not None:
        nx = [i for i, t in d.calls() if t["f"].get("method") in ("next", "into_iter") and _arg_root(d, t, 0)[0] == 1 and "iter" in _arg_root(d, t, 0)[1]]
        if nx:
            R.inst("ParDrainProducer::drop|same-cursor", "Drop walks self.iter", "ok", True, where(d))
        else:
            R.violation("external_trait_impls::rayon::raw::<ParDrainProducer as Drop>::drop|cursor", d, "Drop for ParDrainProducer does not walk its own cursor self.iter")
    # into_par_iter: iterator taken before into_allocation
    ip = F.bodies.get("external_trait_impls::rayon::raw::<RawIntoParIter as ParallelIterator>::drive_unindexed")
    if ip is not None:
        it = [i for i, t in ip.calls() if (callee_path(t) or "").endswith("::par_iter") or (callee_path(t) or "").endswith("RawTable::iter")]
        al = [i for i, t in ip.calls() if (callee_path(t) or "").endswith("into_allocation")]
        if it and al and all(any(ip.dominates(a, b_) for a in it) for b_ in al):
            R.inst("RawIntoParIter::drive_unindexed|order", "the iterator is taken before the table is turned into its allocation; the guard frees it", "ok", True, where(ip))
        else:
            R.violation("external_trait_impls::rayon::raw::<RawIntoParIter as ParallelIterator>::drive_unindexed|order", ip, "into_par_iter does not take its iterator before into_allocation()")
    # once the element cursor has been taken out of the table (the storage is then freed / reset by a guard WITHOUT dropping
    # elements), the cursor is handed to a ParDrainProducer - whose Drop drops what no consumer received - on every path
    for fn in ("external_trait_impls::rayon::raw::<RawIntoParIter as ParallelIterator>::drive_unindexed",
               "external_trait_impls::rayon::raw::<RawParDrain as ParallelIterator>::drive_unindexed"):
        db = F.bodies.get(fn)
        if db is None:
            continue
        key2 = fn.split("<")[1].split(" ")[0] + "::drive_unindexed|cursor-owned-on-every-path"
        taken = [i for i, t in db.calls() if (callee_path(t) or "").endswith("RawTable::iter") or (callee_path(t) or "").endswith("::par_iter")]
        prod = [i for i, k, s_ in db.stmts() if s_["k"] == "assign" and s_["rv"]["k"] == "aggregate" and (s_["rv"].get("adt") or "").endswith("ParDrainProducer")]
        if not taken or not prod:
            R.undec("%s: cursor extraction (%d) / ParDrainProducer construction (%d) not found" % (fn, len(taken), len(prod)))
            continue
        reach = set()
        for i in taken:
            for x in db.nsucc[i]:
                reach |= db.reachable_from(x, tuple(prod))
        if any(r in reach for r in db.returns):
            R.violation(key2, db, "after the element cursor has been taken from the table a return is reachable without the cursor having been moved into a ParDrainProducer: the guard then frees / resets "
                        "the storage while the elements no consumer received are never dropped (e.g. an early return for a consumer that is already full)")
            R.inst(key2, "cursor can be abandoned", "violation", True, where(db))
        else:
            R.inst(key2, "every path from taking the cursor to return constructs the ParDrainProducer that owns it", "ok", True, where(db, bb=prod[0]))
    return R


def r_split_abut(F, V):
    R = Result("R-SPLIT-ABUT", F.cfg)
    b = F.bodies.get("raw::RawIterRange::split")
    if b is None:
        R.undec("raw::RawIterRange::split not found (feature rayon)")
        return R
    key = "raw::RawIterRange::split|abut"
    # the tail is constructed by RawIterRange::new(ctrl, data, len) and self.end is stored: both from one `next_ctrl + mid` value
    end_stores = [(i, s) for i, k, s in b.stmts() if s["k"] == "assign" and (last_field(s["p"]) or {}).get("name") == "end" and b.root_of_place(s["p"])[0] == 1]
    news = [(i, t) for i, t in b.calls() if (callee_path(t) or "").endswith("RawIterRange::new")]
    problems = []
    if not end_stores or not news:
        problems.append("split does not both shorten `self.end` and build a tail with RawIterRange::new")
    else:
        i, s = end_stores[0]
        S_end = sources(b, s["rv"]["op"]) if s["rv"]["k"] == "use" else None
        j, t = news[0]
        # the ctrl parameter of RawIterRange::new is identified by its type (`*const u8`), not by position
        nb = F.bodies.get("raw::RawIterRange::new")
        pc = (param_of_type(nb, "*const u8") or param_named(nb, "ctrl", "*const u8")) if nb is not None else 1
        if pc is None or pc > len(t["args"]):
            R.undec("raw::RawIterRange::new: no unique `*const u8` parameter")
            return R
        tail_start = t["args"][pc - 1]
        r_end = b.root_of_place(s["rv"]["op"]["p"])[0] if s["rv"]["k"] == "use" and s["rv"]["op"]["k"] in ("copy", "move") else None
        r_tail = b.root_of_place(tail_start["p"])[0] if tail_start["k"] in ("copy", "move") else None
        if r_end is None or r_end != r_tail:
            # accept two separate but identical expressions next_ctrl.add(mid) (local value numbering)
            from cond import expr_key
            same = s["rv"]["k"] == "use" and expr_key(b, s["rv"]["op"]) == expr_key(b, tail_start)
            if not same:
                problems.append("the new end of the head and the start of the tail are not the same `next_ctrl + mid` value: elements between them are visited twice or never")
        # mid is a multiple of the group width
        S_mid = sources(b, tail_start, transparent=_TP_PTR)
        if not any(bop in S_mid.binops for bop in ("BitAnd", "Shr", "Div", "Mul", "Shl")):
            problems.append("the split point is not rounded to a multiple of Group::WIDTH")
    # a range is only split when something lies beyond the group being walked: the tail construction (RawIterRange::new,
    # which requires len != 0) happens on the edge `end > next_ctrl`, i.e. the early `(self, None)` covers `end <= next_ctrl`
    if news:
        from rules.lookup import _relation
        is_end = lambda S_: S_.has_load("end") and not S_.has_load("next_ctrl")
        is_nc = lambda S_: S_.has_load("next_ctrl") and not S_.has_load("end")
        j, t = news[0]
        rels = [_relation(b, bb, sx, is_end, is_nc) for (bb, sx) in b.control_deps_trans(j, "all")]
        rels = [r for r in rels if r]
        if not rels:
            problems.append("the split is not guarded by a comparison of `end` with `next_ctrl`")
        elif ">" not in rels:
            problems.append("a tail is split off on the edge `end %s next_ctrl` instead of `end > next_ctrl`: when the range ends exactly at the current group's boundary a zero-length tail starting at `end` is built "
                            "(RawIterRange::new requires len != 0): elements are visited twice through out-of-bounds buckets" % rels[0])
    if problems:
        R.violation(key, b, "; ".join(problems))
        R.inst(key, "; ".join(problems), "violation", True, where(b))
    else:
        R.inst(key, "head end and tail start are one value, rounded to a group boundary; split only when end > next_ctrl", "ok", True, where(b))
    return R


PAR_DELEG = [
    ("external_trait_impls::rayon::map::extend", ("Extend::extend", "::extend")),
    ("external_trait_impls::rayon::set::extend", ("Extend::extend", "::extend")),
    ("external_trait_impls::rayon::map::HashMap::par_eq", ("HashMap::get", "HashMap::len")),
    ("external_trait_impls::rayon::set::HashSet::par_is_subset", ("HashSet::contains",)),
    ("external_trait_impls::rayon::set::HashSet::par_is_disjoint", ("HashSet::contains",)),
]


def r_par_delegation(F, V):
    R = Result("R-PAR-DELEGATION", F.cfg)
    n = 0
    for root, needles in PAR_DELEG:
        if root not in F.bodies:
            continue
        n += 1
        reach = F.reachable_fns(root)
        names = set()
        for q in reach:
            for i, t in F.bodies[q].calls():
                names.add(callee_path(t) or "")
                if t["f"]["k"] == "fn":
                    names.add(t["f"]["path"])
        miss = [nd for nd in needles if not any(x.endswith(nd) for x in names)]
        if miss:
            R.violation("%s|delegation" % root, F.bodies[root], "%s does not reach the sequential %s it must agree with" % (root, "/".join(miss)))
        else:
            R.inst(root, "reaches the sequential %s" % "/".join(needles), "ok", True)
    # parallel set algebra: the filter probes the *other* operand
    for p, body in F.bodies.items():
        if not p.startswith("external_trait_impls::rayon::set::<Par") or "drive_unindexed" not in p or "::{closure" in p:
            continue
        st = ((body.j.get("impl") or {}).get("self_ty") or {}).get("path", "")
        if not any(x in st for x in ("ParIntersection", "ParDifference")):
            continue
        n += 1
        # iterated operand: receiver of into_par_iter / par_iter ; probed operand: captured by the filter closure
        it_fields, probe_fields = set(), set()
        for i, t in body.calls():
            if t["f"].get("method") in ("into_par_iter", "par_iter") or (callee_path(t) or "").endswith("into_par_iter"):
                r, path = _arg_root(body, t, 0)
                it_fields |= {x for x in path if x in ("a", "b")}
                S = sources(body, t["args"][0])
                it_fields |= {nm for nm, adt in S.loads if nm in ("a", "b")}
        for s, cb in _closure_bodies(F, V, body):
            for o in s["rv"]["ops"]:
                S = sources(body, o)
                probe_fields |= {nm for nm, adt in S.loads if nm in ("a", "b")}
                if o["k"] in ("copy", "move"):
                    r, path = deep_root(body, o["p"])
                    probe_fields |= {x for x in path if x in ("a", "b")}
        key = "%s|operands" % st
        # (iterated, probed) pairs chosen by a size comparison: every pair must name the two different sets
        pairs = []
        for i2, k2, s2 in body.stmts():
            if s2["k"] == "assign" and s2["rv"]["k"] == "aggregate" and s2["rv"]["kind"] == "tuple" and len(s2["rv"]["ops"]) == 2:
                fs = []
                for o in s2["rv"]["ops"]:
                    S = sources(body, o)
                    f_ = {nm for nm, adt in S.loads if nm in ("a", "b")}
                    fs.append(f_)
                if all(len(f_) == 1 for f_ in fs):
                    pairs.append((sorted(fs[0])[0], sorted(fs[1])[0]))
        if pairs:
            if all(x != y for x, y in pairs):
                R.inst(key, "operand pairs %s each name both sets" % pairs, "ok", True, where(body))
            else:
                R.violation(key, body, "a (iterated, probed) operand pair names the same set twice (%s): the other set is ignored on that arm" % pairs)
                R.inst(key, "operand pair names one set twice", "violation", True, where(body))
            continue
        if it_fields and probe_fields and it_fields.isdisjoint(probe_fields) and len(it_fields) == 1 and len(probe_fields) == 1:
            R.inst(key, "iterates self.%s and probes self.%s" % (sorted(it_fields)[0], sorted(probe_fields)[0]), "ok", True, where(body))
        else:
            R.violation(key, body, "the parallel set operation iterates %s and probes %s: the iterated and the probed operand must be the two different sets, chosen unconditionally" % (sorted(it_fields) or "?", sorted(probe_fields) or "?"))
            R.inst(key, "operand mix-up", "violation", True, where(body))
    R.floor("parallel delegation sites", n, {"posctl": 0}.get(F.cfg, 4))
    return R


# --------------------------------------------------------------------- serde

def _hint_reaches(b, operand, depth=0, seen=None):
    """does a size_hint() result reach this operand without passing through size_hint::cautious? (follows the arguments of every
    other call, e.g. `Vec::len(&buffer)` -> the buffer's construction)"""
    if seen is None:
        seen = set()
    if depth > 5:
        return False
    S = sources(b, operand, transparent=())
    for c, lst in S.calls.items():
        if c.endswith("size_hint::cautious"):
            continue
        if "::size_hint" in c or c.endswith("size_hint"):
            return True
        for bb, t in lst:
            if (bb, c) in seen:
                continue
            seen.add((bb, c))
            for a in t["args"]:
                if _hint_reaches(b, a, depth + 1, seen):
                    return True
    return False


def r_serde(F, V):
    R = Result("R-SERDE", F.cfg)
    visits = [p for p in F.bodies if p.startswith("external_trait_impls::serde::") and (p.endswith("::visit_map") or p.endswith("::visit_seq"))]
    if not visits:
        R.undec("no serde visitor found (feature serde)")
        return R
    n = 0
    for p in visits:
        b = F.bodies[p]
        n += 1
        # (a) size hints reach a capacity argument only through size_hint::cautious
        hints = [i for i, t in b.calls() if t["f"].get("method") == "size_hint"]
        for i, t in b.calls():
            cp = callee_path(t) or ""
            if any(cp.endswith(x) for x in ("with_capacity_and_hasher", "with_capacity", "with_capacity_and_hasher_in", "with_capacity_in", "::reserve", "try_reserve")):
                key = "%s|capacity" % p.split("::", 2)[2]
                capq = None
                cb = F.bodies.get(cp)
                for q, a in enumerate(t["args"]):
                    if a["k"] in ("copy", "move") and b.locals[b.root_of_place(a["p"])[0]]["ty"]["s"] == "usize":
                        capq = q
                if capq is None:
                    continue
                S = sources(b, t["args"][capq], transparent=())
                direct_hint = _hint_reaches(b, t["args"][capq])
                via = any(c.endswith("size_hint::cautious") for c in S.calls)
                if via and not direct_hint:
                    R.inst(key, "pre-reservation = size_hint::cautious(access.size_hint())", "ok", True, where(b, bb=i))
                elif not direct_hint:
                    R.inst(key, "capacity does not depend on the claimed length other than through size_hint::cautious (e.g. the number of elements actually read)", "ok", False, where(b, bb=i))
                else:
                    R.violation(key, b, "the capacity reserved before reading any element depends on the input's claimed size hint without passing through size_hint::cautious (sources: %s): a lying hint forces a huge allocation or a capacity-overflow panic" % sorted(S.calls), line=line_of(b, bb=i))
                    R.inst(key, "uncautious pre-reservation", "violation", True, where(b, bb=i))
        # (b) elements are added with insert (last value wins), not with an unchecked/unique insert or entry().or_insert
        ins = [(i, callee_path(t) or "") for i, t in b.calls() if "insert" in (callee_path(t) or "").split("::")[-1] or (callee_path(t) or "").endswith("::entry")]
        key = "%s|insert" % p.split("::", 2)[2]
        good = [x for _, x in ins if x in ("map::HashMap::insert", "set::HashSet::insert")]
        badi = [x for _, x in ins if x not in ("map::HashMap::insert", "set::HashSet::insert")]
        # `values.extend(iterator)` is the same insertion (Extend inserts element by element, a repeated key keeps the last value) plus a
        # reservation of the iterator's *lower* size bound: the iterator handed over must not report the input's claimed length as
        # its lower bound (a crate-local adaptor's size_hint must start with 0 or go through cautious)
        for i, t in b.calls():
            f_ = t["f"]
            if f_["k"] == "fn" and f_.get("method") == "extend" and (f_.get("trait") or "").endswith("Extend") and len(t["args"]) >= 2:
                rty = b.locals[b.root_of_place(t["args"][0]["p"])[0]]["ty"]["s"] if t["args"][0]["k"] in ("copy", "move") else ""
                if not ("HashSet<" in rty or "HashMap<" in rty):
                    continue
                good.append("Extend::extend")
                ity = b.locals[t["args"][1]["p"]["l"]]["ty"] if t["args"][1]["k"] in ("copy", "move") else {}
                while ity.get("k") == "ref":
                    ity = ity["inner"]
                X = ity.get("path") if ity.get("k") == "adt" else None
                shb = None
                if X:
                    for im in F.impls:
                        if im.get("trait") == "core::iter::traits::iterator::Iterator" and im["self_ty"].get("k") == "adt" and im["self_ty"]["path"] == X:
                            for it in im["items"]:
                                if it["name"] == "size_hint":
                                    shb = F.bodies.get(it["path"])
                if shb is not None:
                    keyh = "%s|extend-lower-bound" % p.split("::", 2)[2]
                    lows = []
                    for j2, k2, s2 in shb.stmts():
                        if s2["k"] == "assign" and s2["rv"]["k"] == "aggregate" and s2["rv"].get("kind") == "tuple" and len(s2["rv"]["ops"]) == 2 and not s2["p"].get("proj") and s2["p"]["l"] == 0:
                            lows.append(s2["rv"]["ops"][0])
                    badl = []
                    for o in lows:
                        if o["k"] == "const" and o.get("val") == 0:
                            continue
                        So = sources(shb, o, transparent=())
                        if any(c.endswith("size_hint::cautious") for c in So.calls) and not any("::size_hint" in c and "cautious" not in c for c in So.calls):
                            continue
                        badl.append(o)
                    if badl or not lows:
                        R.violation(keyh, shb, "the iterator handed to extend() reports a lower size bound that depends on the input's claimed length (not 0, not through size_hint::cautious): extend reserves that many slots before reading any element - a lying hint forces a huge allocation or a capacity-overflow panic")
                        R.inst(keyh, "uncautious lower bound of the extend iterator", "violation", True, where(shb))
                    else:
                        R.inst(keyh, "the iterator handed to extend() promises no elements in advance (lower bound 0 / cautious)", "ok", True, where(shb))
        rev = []
        for i, t in b.calls():
            if (callee_path(t) or "") in ("map::HashMap::insert", "set::HashSet::insert"):
                for a in t["args"][1:]:
                    Sx = sources(b, a)
                    rev += [c for c in Sx.calls if c.endswith("Vec::pop") or c.endswith("::next_back") or c.endswith("::rev") or c.endswith("pop_back")]
        if good and not badi and rev:
            R.violation(key, b, "the visitor inserts buffered elements in reverse input order (taken with %s): for a repeated key the FIRST value of the input wins instead of the last" % sorted(set(rev))[0])
            R.inst(key, "elements inserted in reverse input order", "violation", True, where(b))
        elif good and not badi:
            R.inst(key, "elements are added with %s (repeated keys keep the last value)" % good[0], "ok", True, where(b))
        else:
            R.violation(key, b, "the visitor adds elements with %s instead of HashMap::insert / HashSet::insert: repeated keys would be duplicated or keep the first value" % (sorted(set(badi)) or "nothing"))
            R.inst(key, "wrong insertion primitive", "violation", True, where(b))
        # (c) the in-place visitor clears the target first
        if "deserialize_in_place" in p:
            clr = [i for i, t in b.calls() if (callee_path(t) or "").endswith("::clear")]
            key = "%s|clear" % p.split("::", 2)[2]
            first_ins = [i for i, _ in ins] + [i for i, t in b.calls() if t["f"].get("method") in ("next_element", "next_entry", "next_key", "next_value")]
            if clr and all(any(b.dominates(c, i) for c in clr) for i in first_ins):
                R.inst(key, "deserialize_in_place clears the target before refilling", "ok", True, where(b, bb=clr[0]))
            else:
                R.violation(key, b, "deserialize_in_place does not clear the target before reading/inserting any element: old contents survive (for empty input entirely), so the result is not the deserialised value")
                R.inst(key, "target not cleared", "violation", True, where(b))
    # cautious is min(hint, small constant)
    c = F.bodies.get("external_trait_impls::serde::size_hint::cautious")
    if c is None:
        R.undec("size_hint::cautious not found")
    else:
        LIM = 4096

        def bounded(o, depth=0):
            """every value this operand can take is <= LIM (min with a bounded operand, a small constant, a quotient of one)"""
            if depth > 12:
                return False
            if o["k"] == "const":
                return isinstance(o.get("val"), int) and 0 <= o["val"] <= LIM
            if o["k"] not in ("copy", "move") or o["p"].get("proj"):
                return False
            ds = c.defs.get(o["p"]["l"], [])
            if not ds:
                return False
            for d in ds:
                if d[0] == "call":
                    t = d[3]
                    cp = callee_path(t) or ""
                    if cp.endswith("::min") or t["f"].get("method") == "min":
                        if not any(bounded(a, depth + 1) for a in t["args"]):
                            return False
                    elif cp in ("core::convert::identity",):
                        if not bounded(t["args"][0], depth + 1):
                            return False
                    else:
                        return False
                else:
                    rv = d[3]["rv"]
                    if rv["k"] in ("use", "cast"):
                        if not bounded(rv["op"], depth + 1):
                            return False
                    elif rv["k"] == "binop" and rv["op"] in ("Div", "Shr", "BitAnd", "Rem"):
                        if not (bounded(rv["a"], depth + 1) or (rv["op"] in ("BitAnd", "Rem") and bounded(rv["b"], depth + 1))):
                            return False
                    else:
                        return False
            return True
        rets = []
        for i, t in c.calls():
            if t["dest"]["l"] == 0 and not t["dest"].get("proj"):
                rets.append({"k": "copy", "p": {"l": 0}})
        for i, k, st in c.stmts():
            if st["k"] == "assign" and st["p"]["l"] == 0 and not st["p"].get("proj"):
                rets.append({"k": "copy", "p": {"l": 0}})
        ok = bool(rets) and bounded({"k": "copy", "p": {"l": 0}})
        if ok:
            R.inst("size_hint::cautious", "every value cautious can return is bounded by a constant <= 4096", "ok", True, where(c))
        else:
            R.violation("external_trait_impls::serde::size_hint::cautious|bound", c, "size_hint::cautious does not bound its result by a constant <= 4096 on every path (some path returns the claimed length or a huge limit): a lying size hint forces a huge pre-allocation")
    # Serialize passes self to collect_map / collect_seq; no forget / ManuallyDrop in the module
    for p, b in F.bodies.items():
        if p.startswith("external_trait_impls::serde::") and p.endswith("::serialize"):
            n += 1
            col = [(i, t) for i, t in b.calls() if t["f"].get("method") in ("collect_map", "collect_seq")]
            if col and all(_arg_root(b, t, 1)[0] == 1 for i, t in col):
                R.inst(p.split("::", 2)[2], "Serialize hands `self` to collect_map/collect_seq", "ok", True, where(b))
            else:
                R.violation(p + "|collect", b, "Serialize does not pass the collection itself to collect_map / collect_seq")
        if p.startswith("external_trait_impls::serde::"):
            for i, t in b.calls():
                if (callee_path(t) or "") in ("core::mem::forget", "core::mem::ManuallyDrop::new", "core::mem::manually_drop::ManuallyDrop::new"):
                    R.violation(p + "|forget", b, "mem::forget / ManuallyDrop in the serde module: a deserialisation error would leak the partly built collection", line=line_of(b, bb=i))
    R.floor("serde visitor / serialize bodies", n, {"posctl": 0}.get(F.cfg, 4))
    return R


# --------------------------------------------------------------------- R-SET-ASSIGN

def _callees_in(F, V, body):
    """(block, callee path, body-of-site) for the body and the closures it builds"""
    out = []
    for i, t in body.calls():
        out.append((i, callee_path(t) or "", body, t))
    for s, cb in _closure_bodies(F, V, body):
        for i, t in cb.calls():
            out.append((i, callee_path(t) or "", cb, t))
    return out


def r_set_assign(F, V):
    """the assigning set operators are independent implementations: decide only that each uses contains / insert /
    remove / retain on the right operands (self vs rhs), not their results"""
    R = Result("R-SET-ASSIGN", F.cfg)
    n = 0
    for p, body in F.bodies.items():
        if not p.startswith("set::<HashSet as ") or "::{closure" in p:
            continue
        m = p.rsplit("::", 1)[-1]
        if m not in ("bitor_assign", "bitand_assign", "sub_assign"):
            continue
        n += 1
        sites = _callees_in(F, V, body)
        problems = []

        def roots_of(name):
            out = []
            for i, cp, b_, t in sites:
                if cp == "set::HashSet::" + name:
                    r, path = _arg_root(b_, t, 0)
                    if b_ is not body:
                        # closure: receiver comes from an upvar; map upvar index -> creator operand root
                        idx = [x for x in path if x.isdigit()]
                        for s, cb in _closure_bodies(F, V, body):
                            if cb is b_ and idx and int(idx[0]) < len(s["rv"]["ops"]):
                                o = s["rv"]["ops"][int(idx[0])]
                                if o["k"] in ("copy", "move"):
                                    r = deep_root(body, o["p"])[0]
                    out.append(r)
            return out
        if m == "bitor_assign":
            if 1 not in roots_of("insert"):
                problems.append("|= does not insert into self")
            if roots_of("contains") and 1 not in roots_of("contains"):
                problems.append("|= tests membership in rhs instead of self")
            its = [r for i, cp, b_, t in sites if t["f"].get("method") == "into_iter" for r in [_arg_root(b_, t, 0)[0]]]
            if 2 not in its:
                problems.append("|= does not iterate rhs")
        elif m == "bitand_assign":
            if 1 not in roots_of("retain"):
                problems.append("&= does not retain on self")
            if 2 not in roots_of("contains"):
                problems.append("&= does not test membership in rhs")
        elif m == "sub_assign":
            rem = roots_of("remove")
            ret = roots_of("retain")
            con = roots_of("contains")
            if rem and 1 not in rem:
                problems.append("-= removes from rhs instead of self")
            if ret and 1 not in ret:
                problems.append("-= retains on rhs instead of self")
            if con and 2 not in con:
                problems.append("-= tests membership in self instead of rhs")
            if not rem and not ret:
                problems.append("-= neither removes from nor retains on self")
            # the retain predicate must be the negation of rhs.contains
            for s, cb in _closure_bodies(F, V, body):
                for i, t in cb.calls():
                    if (callee_path(t) or "") == "set::HashSet::contains":
                        neg = False
                        for j, k, st in cb.stmts():
                            if st["k"] == "assign" and st["rv"]["k"] == "unop" and st["rv"]["op"] == "Not" and st["p"]["l"] == 0:
                                neg = True
                        if not neg:
                            problems.append("-= keeps the elements that ARE in rhs (missing negation)")
        key = "%s" % m
        if problems:
            R.violation(key, body, "; ".join(problems))
            R.inst(key, "; ".join(problems), "violation", True, where(body))
        else:
            R.inst(key, "%s uses contains/insert/remove/retain on the right operands" % m, "ok", True, where(body))
    R.floor("assigning set operators", n, {"posctl": 0}.get(F.cfg, 3))
    return R


# --------------------------------------------------------------------- R-HASHER-SOURCE

GROWERS = ("raw::RawTable::insert", "raw::RawTable::insert_entry", "raw::RawTable::reserve", "raw::RawTable::try_reserve", "raw::RawTable::shrink_to",
           "raw::RawTable::find_or_find_insert_slot", "raw::RawTable::resize", "raw::RawTable::reserve_rehash")


def r_hasher_source(F, V):
    """every call from the map/set/entry layers to a raw operation that may re-hash existing elements passes the hasher
    closure made by make_hasher(<the same map's hash_builder>) - the one lookups use"""
    R = Result("R-HASHER-SOURCE", F.cfg)
    n = 0
    for p, body in F.bodies.items():
        mod = p.split("::")[0]
        if mod not in ("map", "set", "raw_entry", "rustc_entry") or "with_hasher" in p or "::{closure" in p:
            continue
        for i, t in body.calls():
            cp = callee_path(t) or ""
            if cp not in GROWERS:
                continue
            cb = F.bodies.get(cp)
            hq = None
            for q in range(cb.arg_count):
                ty = cb.locals[q + 1]["ty"]
                if ty.get("s", "").startswith("impl Fn(") or (ty.get("k") == "param" and "Fn" in ty.get("s", "")):
                    hq = q
            if hq is None or hq >= len(t["args"]):
                continue
            n += 1
            key = "%s|->%s" % (p, cp.split("::")[-1])
            S = sources(body, t["args"][hq])
            mh = [c for c in S.calls if c.endswith("make_hasher")]
            ok = False
            for c in mh:
                for blk, tt in S.calls[c]:
                    r0, p0 = _arg_root(body, tt, 0)
                    if "hash_builder" in p0 and body.is_arg(r0):
                        ok = True
            if ok:
                R.inst(key, "re-hashing closure = make_hasher(&<self>.hash_builder)", "ok", True, where(body, bb=i))
            else:
                R.violation(key, body, "the hasher handed to %s (used to re-place existing elements when the table grows or rehashes) is not make_hasher(&self.hash_builder): after a growth the elements are placed by a different hash than lookups use" % cp, line=line_of(body, bb=i))
                R.inst(key, "foreign re-hashing closure", "violation", True, where(body, bb=i))
    R.floor("calls passing a re-hashing closure", n, {"posctl": 0}.get(F.cfg, 8))
    return R
