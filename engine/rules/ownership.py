"""Rules of DESIGN.md 4.C: allocation and ownership.
R-ERASE-BEFORE, R-OWNING-ITER, R-DUP-FORGET, R-DRAIN-PROTOCOL, R-LINEAR-INNER,
R-ALLOC-WHO, R-SINGLETON-GUARD, R-LAYOUT-SOURCE, R-FIELD-IMMUT, R-NOALLOC-REACH."""
from core import callee_path, last_field, rv_operands
from vocab import INNER
from rules.base import Result, where, line_of
from rules.accounting import deep_root, operand_deep_root, guard_defs, guard_live_at, fresh_local_root, guard_local_of_root

BUCKET_READ = "raw::Bucket::read"
BUCKET_DROP = "raw::Bucket::drop"
UNREGISTER = ("raw::RawTable::erase_no_drop", "raw::RawTableInner::erase")

# bodies that consume elements in bulk; their accounting is discharged by
# R-OWNING-ITER / R-BULKDROP-GUARD / R-WINDOW / R-PAR-LINEAR (one reason per row)
BULK_CONSUMERS = {
    "raw::RawTableInner::drop_elements": "destroys every element; callers are checked by R-BULKDROP-GUARD",
    "raw::RawIter::drop_elements": "destroys the remainder of an owning iterator (R-OWNING-ITER)",
    "raw::<RawIntoIter as Iterator>::next": "owning iterator cursor (R-OWNING-ITER)",
    "raw::<RawDrain as Iterator>::next": "owning iterator cursor over a moved-out table (R-DRAIN-PROTOCOL)",
    "external_trait_impls::rayon::raw::<ParDrainProducer as UnindexedProducer>::fold_with": "parallel drain leaf (R-PAR-LINEAR)",
    "external_trait_impls::rayon::raw::<ParDrainProducer as Drop>::drop": "parallel drain remainder (R-PAR-LINEAR)",
    "raw::RawTable::clone_from_impl::{closure#0}": "unwinding-only guard dropping the clones made so far (R-WINDOW)",
}


def _unregister_guard_covers(F, V, body, i):
    """the element is moved out at block i while its slot is still registered. That is sound if (a) no user code can run
    between the move-out and the arming of a scope guard whose closure unregisters the slot, (b) every user callback
    reachable afterwards runs while such a guard is live, (c) every return reachable from i is preceded by a re-write of
    the bucket or by unregistering it (explicitly, or by the guard being dropped armed)."""
    gds = []
    for g in guard_defs(body):
        cb = F.bodies.get(g["closure"]) if g["closure"] else None
        if cb is None:
            continue
        if any(callee_path(t) in UNREGISTER or (callee_path(t) or "") == "raw::RawTable::remove" for _, t in cb.calls()):
            gds.append(g)
    if not gds:
        return False
    after = set()
    for x in body.nsucc[i]:
        after |= body.reachable_from(x)
    sites = [j for (j, d) in V.callback_sites(body) if j in after and j != i]
    for j in sites:
        if not any(guard_live_at(body, g, j) for g in gds):
            return False
    settle = tuple(j for j, t in body.calls() if callee_path(t) in UNREGISTER + ("raw::Bucket::write",))
    open_ = set()
    for x in body.nsucc[i]:
        open_ |= body.reachable_from(x, settle)
    for r in body.returns:
        if r in open_ and not any(guard_live_at(body, g, r) for g in gds):
            return False
    return True


def r_erase_before(F, V):
    R = Result("R-ERASE-BEFORE", F.cfg)
    n = 0
    for p, body in F.bodies.items():
        for i, t in body.calls():
            cp = callee_path(t)
            if cp not in (BUCKET_READ, BUCKET_DROP):
                continue
            n += 1
            what = cp.split("::")[-1]
            key = "%s|Bucket::%s" % (p, what)
            outer = p
            while outer not in BULK_CONSUMERS and "::{closure#" in outer:
                outer = outer.rsplit("::{closure#", 1)[0]
            if outer in BULK_CONSUMERS:
                R.inst(key, "bulk consumer: %s" % BULK_CONSUMERS[outer], "ok", False, where(body, bb=i))
                continue
            # the unwind guard of clone_from_impl written as a struct with a destructor instead of a scope-guard closure
            if what == "drop" and any(g.get("drop_struct") and g["closure"] == outer for g in guard_defs(F.bodies["raw::RawTable::clone_from_impl"])) if "raw::RawTable::clone_from_impl" in F.bodies else False:
                R.inst(key, "bulk consumer: %s (as the destructor of a guard struct)" % BULK_CONSUMERS["raw::RawTable::clone_from_impl::{closure#0}"], "ok", False, where(body, bb=i))
                continue
            if outer in ("raw::<RawIntoIter as Drop>::drop", "raw::<RawDrain as Drop>::drop") and what == "drop":
                # RawIter::drop_elements written out in the destructor of an owning iterator: the remainder is destroyed
                # there by design; that the storage is then released / reset exactly once is R-OWNING-ITER / R-DRAIN-PROTOCOL
                R.inst(key, "destructor of an owning iterator destroying its remainder (R-OWNING-ITER, R-DRAIN-PROTOCOL)", "ok", False, where(body, bb=i))
                continue
            # the slot must have been unregistered (control byte cleared, items decremented) on every path before
            ok = False
            for j, t2 in body.calls():
                if callee_path(t2) in UNREGISTER and t2.get("target") is not None:
                    if body.dominates(t2["target"], i) or t2["target"] == i:
                        # same bucket: the bucket argument of both calls has the same root
                        ok = True
            if not ok and _unregister_guard_covers(F, V, body, i):
                R.inst(key, "Bucket::%s happens before the slot is unregistered, but every user callback that can run while it is still registered is covered by a live scope guard that unregisters it, and it is rewritten or unregistered before returning" % what, "ok", True, where(body, bb=i))
                continue
            if ok:
                R.inst(key, "Bucket::%s is dominated by the call that clears the control byte" % what, "ok", True, where(body, bb=i))
            else:
                R.violation(key, body,
                            "Bucket::%s moves/destroys an element that is still registered in the table (no erase dominates it): a panic in the destructor or in a later callback, or any later use, sees a dropped/moved-out element as present (double drop)" % what,
                            line=line_of(body, bb=i))
                R.inst(key, "element consumed before being unregistered", "violation", True, where(body, bb=i))
    # the same move-out done by hand: ptr::read / drop_in_place on the data pointer of a bucket (through one of its
    # accessors) outside Bucket's own methods
    RAW_MOVE = ("core::ptr::read", "core::ptr::drop_in_place", "core::ptr::read_unaligned", "core::ptr::read_volatile",
                "core::ptr::const_ptr::*const T::read", "core::ptr::mut_ptr::*mut T::read", "core::ptr::mut_ptr::*mut T::drop_in_place",
                "core::ptr::non_null::NonNull::read", "core::ptr::non_null::NonNull::drop_in_place")
    ACCESSORS = (".as_mut", ".as_ptr", ".as_ref", ".as_non_null")
    nraw = 0
    for p, body in F.bodies.items():
        if p.startswith("raw::Bucket::"):
            continue
        for i, t in body.calls():
            cp = callee_path(t) or ""
            if cp not in RAW_MOVE or not t["args"] or t["args"][0]["k"] not in ("copy", "move"):
                continue
            nraw += 1
            r, path = deep_root(body, t["args"][0]["p"])
            if not any(x in ACCESSORS for x in path):
                continue
            # is the accessor one of raw::Bucket? (root or a field typed Bucket)
            via_bucket = False
            for j, t2 in body.calls():
                c2 = callee_path(t2) or ""
                if c2.startswith("raw::Bucket::as_") and t2.get("dest") is not None:
                    via_bucket = True
            if not via_bucket:
                continue
            outer = p
            while outer not in BULK_CONSUMERS and "::{closure#" in outer:
                outer = outer.rsplit("::{closure#", 1)[0]
            key = "%s|raw-%s" % (p, cp.split("::")[-1])
            if outer in BULK_CONSUMERS:
                continue
            ok = False
            for j, t2 in body.calls():
                if callee_path(t2) in UNREGISTER + ("raw::RawTable::remove",) and t2.get("target") is not None:
                    if body.dominates(t2["target"], i) or t2["target"] == i:
                        ok = True
            if ok:
                R.inst(key, "hand-written move-out is dominated by the call that unregisters the slot", "ok", True, where(body, bb=i))
            else:
                R.violation(key, body, "%s moves/destroys (part of) an element through a bucket's data pointer while the slot is still registered in the table (no erase/remove dominates it): "
                            "if the following callback panics, or on any later use, the table still holds a bitwise copy of a value that was already consumed (double drop / use after free)" % cp,
                            line=line_of(body, bb=i))
                R.inst(key, "element consumed before being unregistered", "violation", True, where(body, bb=i))
    R.info["raw ptr::read / drop_in_place sites examined"] = nraw
    R.floor("callers of Bucket::read / Bucket::drop", n, {"default": 5, "nodefault": 5, "serde": 5, "rustc-internal-api": 5, "posctl": 1}.get(F.cfg, 7))
    return R


# --------------------------------------------------------------------- R-OWNING-ITER

RELEASERS = ("deallocate", "clear_no_drop", "free_buckets")


def r_owning_iter(F, V):
    R = Result("R-OWNING-ITER", F.cfg)
    found = 0
    for p, body in F.bodies.items():
        # a `next`/`fold_with` that reads elements out of a cursor field of self
        if not (p.endswith("::next") or p.endswith("::fold_with")):
            continue
        reads = [i for i, t in body.calls() if callee_path(t) == BUCKET_READ]
        if not reads:
            continue
        # which field of self feeds the cursor: Iterator::next(&mut self.<field>)
        fld = None
        for i, t in body.calls():
            f = t["f"]
            if f["k"] == "fn" and f.get("method") in ("next", "into_iter") and t["args"]:
                a = t["args"][0]
                if a["k"] in ("copy", "move"):
                    r, path = deep_root(body, a["p"])
                    if r == 1:
                        names = [x for x in path if x not in ("*", "&") and not x.startswith(".")]
                        if names:
                            fld = names[0]
        imp = body.j.get("impl") or {}
        st = imp.get("self_ty", {})
        if st.get("k") != "adt" or fld is None:
            continue
        X = st["path"]
        found += 1
        key = "%s|%s" % (X, fld)
        dp = V.drop_impl.get(X)
        if not dp or dp not in F.bodies:
            R.violation(key, body, "%s moves elements out of its cursor field `%s` but has no Drop impl: the unconsumed remainder is leaked / its storage never released" % (X, fld))
            R.inst(key, "owning iterator without Drop", "violation", True)
            continue
        db = F.bodies[dp]
        # (i) remainder destroyed through the same field
        destroy = []
        for i, t in db.calls():
            cp = callee_path(t) or ""
            f = t["f"]
            if (cp.endswith("::drop_elements") or (f["k"] == "fn" and f.get("method") in ("next", "into_iter"))) and t["args"]:
                a = t["args"][0]
                if a["k"] in ("copy", "move"):
                    r, path = deep_root(db, a["p"])
                    # `self` may be wrapped in a scope guard for the duration of drop(): guard(self, ..) derefs to self
                    via_guard = any(g["local"] == r and 1 in g["roots"] for g in guard_defs(db))
                    if (r == 1 or via_guard) and fld in path:
                        destroy.append(i)
        release = [i for i, t in db.calls() if any((callee_path(t) or "").endswith("::" + x) or (t["f"].get("method") == x) for x in RELEASERS)]
        if not destroy:
            R.violation(key, db, "Drop for %s does not destroy the remainder through its own cursor field `%s` (a clone or a different cursor would drop elements twice or not at all)" % (X, fld))
            R.inst(key, "remainder not destroyed through the same cursor", "violation", True, where(db))
            continue
        # order: nothing is destroyed after the storage has been released / reset. (With drop_elements called as a helper
        # the call dominates the release; written out as a guarded loop it does not - what matters is that no destroy
        # site is reachable from a release site and that every release is reachable from the destroy sites' region.)
        after_release = set()
        for r_ in release:
            for sx in db.nsucc[r_]:
                after_release |= db.reachable_from(sx)
        bad_order = [r for r in release if any(d in after_release for d in destroy)]
        if not bad_order:
            dominated = [r for r in release if any(db.dominates(d, r) for d in destroy)]
            if len(dominated) != len(release):
                # accept only the guarded-loop form: the destroy site sits in a loop whose header dominates the release,
                # or in a conditional whose branch block dominates the release
                for r in release:
                    if r in dominated:
                        continue
                    ok_r = False
                    for d in destroy:
                        for (bb, sx) in db.control_deps_trans(d, "all"):
                            if db.dominates(bb, r):
                                ok_r = True
                    if not ok_r:
                        bad_order.append(r)
        if bad_order:
            R.violation(key, db, "Drop for %s releases the storage before (or without) destroying the remaining elements" % X, line=line_of(db, bb=bad_order[0]))
            R.inst(key, "release not dominated by destruction of the remainder", "violation", True, where(db, bb=bad_order[0]))
        else:
            R.inst(key, "Drop destroys the remainder through self.%s, then releases (%d release sites)" % (fld, len(release)), "ok", True, where(db))
    R.floor("owning iterator types", found, {"default": 2, "nodefault": 2, "serde": 2, "rustc-internal-api": 2, "posctl": 1}.get(F.cfg, 3))
    return R


# --------------------------------------------------------------------- R-DUP-FORGET

FORGETTERS = ("core::mem::forget", "core::mem::ManuallyDrop::new", "core::mem::manually_drop::ManuallyDrop::new")


def r_dup_forget(F, V):
    R = Result("R-DUP-FORGET", F.cfg)
    n = 0
    for p, body in F.bodies.items():
        if body.arg_count < 1:
            continue
        t1 = body.locals[1]["ty"]
        if t1.get("k") != "adt" or t1["path"] not in V.drop_impl:
            continue
        # bit-wise duplication of (part of) self: ptr::read(&self.f) or self.f.clone() of a resource-owning field
        dups = []
        for i, t in body.calls():
            cp = callee_path(t) or ""
            decl = t["f"].get("path", "")
            if cp == "core::ptr::read" or decl == "core::clone::Clone::clone":
                if not t["args"] or t["args"][0]["k"] not in ("copy", "move"):
                    continue
                r, path = deep_root(body, t["args"][0]["p"])
                src_is_self = (r == 1)
                if not src_is_self:
                    # through ManuallyDrop::new(self) + Deref
                    for d in body.whole_defs(r):
                        if d[0] == "call" and (callee_path(d[3]) or "") in FORGETTERS:
                            src_is_self = True
                if not src_is_self:
                    continue
                if decl == "core::clone::Clone::clone":
                    st = t["f"].get("self_ty", {})
                    if st.get("k") != "adt" or not st["path"].startswith("raw::"):
                        continue  # cloning plain data, not a cursor/resource
                dups.append((i, cp if cp == "core::ptr::read" else "clone of cursor " + t["f"]["self_ty"]["s"]))
        # a cursor / handle derived from self is packaged into another Drop type (e.g. a producer built over
        # self.table): self's own Drop would then release or clear what the new owner is still using
        for i, k, s in body.stmts():
            if s["k"] == "assign" and s["rv"]["k"] == "aggregate" and s["rv"]["kind"] == "adt" and s["rv"]["adt"] in V.drop_impl and s["rv"]["adt"] != t1["path"]:
                for o in s["rv"]["ops"]:
                    if o["k"] not in ("copy", "move"):
                        continue
                    for og in body.origins(o):
                        if og[0] == "call" and og[2]["args"] and og[2]["args"][0]["k"] in ("copy", "move"):
                            r, path = deep_root(body, og[2]["args"][0]["p"])
                            if r == 1 and path:  # a by-value `self` moved into the callee is not a duplicate
                                dups.append((i, "cursor over self handed to %s" % s["rv"]["adt"].split("::")[-1]))
        dups = list(dict.fromkeys(dups))
        if not dups:
            continue
        forgets = []
        for i, t in body.calls():
            if (callee_path(t) or "") in FORGETTERS and t["args"] and t["args"][0]["k"] in ("copy", "move"):
                r, _ = body.root_of_place(t["args"][0]["p"])
                if r == 1:
                    forgets.append(i)
        for (i, what) in dups:
            n += 1
            key = "%s|%s" % (p, what.split(" ")[0])
            ok = any(body.dominates(f, i) for f in forgets)
            if not ok:
                # every path from the duplication to return passes a forget
                reach = set()
                for s in body.nsucc[i]:
                    reach |= body.reachable_from(s, tuple(forgets))
                ok = bool(forgets) and not any(r in reach for r in body.returns)
            if ok:
                R.inst(key, "%s of a field of by-value self (%s: Drop) is paired with mem::forget/ManuallyDrop on every path" % (what, t1["path"]), "ok", True, where(body, bb=i))
            else:
                R.violation(key, body, "%s duplicates a resource out of `self` (%s implements Drop) but some path reaches return without forgetting `self`: the resource is released twice" % (what, t1["path"]),
                            line=line_of(body, bb=i))
                R.inst(key, "duplicate without forget", "violation", True, where(body, bb=i))
    R.floor("bit-wise duplications out of Drop types", n, {"default": 3, "nodefault": 3, "serde": 3, "rustc-internal-api": 3, "posctl": 1}.get(F.cfg, 4))
    return R


# --------------------------------------------------------------------- R-DRAIN-PROTOCOL

def r_drain_protocol(F, V):
    R = Result("R-DRAIN-PROTOCOL", F.cfg)
    # (i) construction sites of RawDrain
    n = 0
    for p, body in F.bodies.items():
        for i, k, s in body.stmts():
            if s["k"] == "assign" and s["rv"]["k"] == "aggregate" and s["rv"].get("adt") == "raw::RawDrain":
                n += 1
                rv = s["rv"]
                key = "%s|RawDrain.table" % p
                if "table" not in rv["fields"]:
                    R.undec("RawDrain has no field `table`")
                    continue
                op = rv["ops"][rv["fields"].index("table")]
                ok = False
                for o in body.origins(op):
                    if o[0] == "call" and callee_path(o[2]) == "core::mem::replace" and len(o[2]["args"]) == 2:
                        a0, a1 = o[2]["args"]
                        r, path = operand_deep_root(body, a0)
                        if r == 1 and "table" in path and a1["k"] == "const" and (a1.get("def") or "").endswith("RawTableInner::NEW"):
                            ok = True
                if ok:
                    R.inst(key, "the drained table is moved out with mem::replace(&mut self.table, RawTableInner::NEW): a leaked drain leaves an empty valid table", "ok", True, where(body, stmt=s))
                else:
                    R.violation(key, body, "RawDrain is built around a table that was not moved out of the collection with mem::replace(.., RawTableInner::NEW): if the drain is leaked (mem::forget) the collection still claims elements that were moved out (double drop / use after move)",
                                line=line_of(body, stmt=s))
                    R.inst(key, "drain does not move the table out", "violation", True, where(body, stmt=s))
    R.floor("RawDrain construction sites", n, 1)
    # (ii) RawDrain::drop ordering
    db = F.bodies.get("raw::<RawDrain as Drop>::drop")
    if not db:
        R.undec("raw::<RawDrain as Drop>::drop not found")
    else:
        de = [i for i, t in db.calls() if (callee_path(t) or "").endswith("::drop_elements")]
        de_inline = [i for i, t in db.calls() if (callee_path(t) or "") == BUCKET_DROP]   # drop_elements written out as a loop
        cl = [i for i, t in db.calls() if (callee_path(t) or "").endswith("::clear_no_drop")]
        if not cl:
            # the reset written out in place (clear_no_drop dissolved into its callers): `items = 0` on the drain's table; that the
            # control bytes are refilled and growth_left recomputed with it is R-ACCT's whole-capacity-reset clause
            for i, k, s in db.stmts():
                if s["k"] == "assign" and (last_field(s["p"]) or {}).get("name") == "items" and ((last_field(s["p"]) or {}).get("adt") or "").endswith("RawTableInner") \
                        and s["rv"]["k"] == "use" and s["rv"]["op"]["k"] == "const" and s["rv"]["op"].get("val") == 0:
                    cl.append(i)
        wb = []
        for i, t in db.calls():
            cp = callee_path(t) or ""
            if "copy_from_nonoverlapping" in cp or cp in ("core::ptr::write", "core::ptr::copy_nonoverlapping", "core::ptr::mut_ptr::*mut T::write"):
                if any(s == INNER for s in t["f"]["substs"]):
                    wb.append(i)
        for i, k, s in db.stmts():
            if s["k"] == "assign" and s["p"].get("t") == INNER and any(e["k"] == "deref" for e in s["p"].get("proj", [])):
                wb.append(i)

        def _is_wb_call(t_):
            cp_ = callee_path(t_) or ""
            return ("copy_from_nonoverlapping" in cp_ or cp_ in ("core::ptr::write", "core::ptr::copy_nonoverlapping", "core::ptr::mut_ptr::*mut T::write")) \
                and any(s_ == INNER for s_ in t_["f"].get("substs", []))
        # the write-back (or any of the three steps) may sit in a private helper of RawDrain called from drop: a call to a
        # crate function that performs it unconditionally counts at the position of the call
        for i, t in db.calls():
            cpx = callee_path(t) or ""
            hb = F.bodies.get(cpx)
            if hb is None or not cpx.startswith("raw::RawDrain::"):
                continue
            for j, t2 in hb.calls():
                if _is_wb_call(t2) and not hb.control_deps_trans(j, "ret"):
                    wb.append(i)
                c2 = callee_path(t2) or ""
                if c2.endswith("::drop_elements") and not hb.control_deps_trans(j, "ret"):
                    de.append(i)
                if c2.endswith("::clear_no_drop") and not hb.control_deps_trans(j, "ret"):
                    cl.append(i)
        key = "raw::<RawDrain as Drop>::drop|order"
        # the write-back may have been moved into a scope guard created in drop(): its closure then also runs while unwinding
        # from a panicking element destructor, i.e. before the straight-line clear_no_drop - so the closure itself has to
        # reset the table before it hands it back
        guard_wb = None
        for g in guard_defs(db):
            cb_ = F.bodies.get(g["closure"]) if g["closure"] else None
            if cb_ is None:
                continue
            w_in = [j for j, t2 in cb_.calls() if _is_wb_call(t2)]
            w_in += [j for j, k2, s2 in cb_.stmts() if s2["k"] == "assign" and s2["p"].get("t") == INNER and any(e["k"] == "deref" for e in s2["p"].get("proj", []))]
            if not w_in:
                continue
            c_in = [j for j, t2 in cb_.calls() if (callee_path(t2) or "").endswith("::clear_no_drop")]
            guard_wb = all(any(cb_.dominates(c, w) for c in c_in) for w in w_in)
        if guard_wb is False:
            R.violation(key, db, "RawDrain::drop hands the table back to the collection from a scope guard that does not reset it first: when an element destructor panics in drop_elements the guard runs before clear_no_drop, and the collection gets back a table whose control bytes still claim the drained (moved-out or dropped) elements")
            R.inst(key, "write-back guard without reset", "violation", True, where(db))
        elif guard_wb is True and (de or de_inline):
            R.inst(key, "the remainder is destroyed under a scope guard that resets the table (clear_no_drop) and then writes it back", "ok", True, where(db))
        elif not de and de_inline and cl and wb:
            # inlined form: no element destructor may run once the table has been reset or written back
            after_reset = set()
            for c in cl + wb:
                for sx in db.nsucc[c]:
                    after_reset |= db.reachable_from(sx)
            if any(d in after_reset for d in de_inline) or not all(any(db.dominates(c, w) for c in cl) for w in wb):
                R.violation(key, db, "RawDrain::drop must run drop_elements before clear_no_drop before the write-back of the table (a destructor panic must leave the original as the empty table; the allocation is kept)")
                R.inst(key, "wrong order", "violation", True, where(db))
            else:
                R.inst(key, "remainder destroyed (loop over self.iter) < clear_no_drop < write-back of self.table into the original", "ok", True, where(db))
        elif not de or not cl or not wb:
            R.violation(key, db, "RawDrain::drop must destroy the remainder (drop_elements), reset the table (clear_no_drop) and write it back to the original; found drop_elements=%s clear_no_drop=%s write-back=%s" % (bool(de), bool(cl), bool(wb)))
            R.inst(key, "missing step", "violation", True, where(db))
        elif not (all(any(db.dominates(d, c) for d in de) for c in cl) and all(any(db.dominates(c, w) for c in cl) for w in wb)):
            R.violation(key, db, "RawDrain::drop must run drop_elements before clear_no_drop before the write-back of the table (a destructor panic must leave the original as the empty table; the allocation is kept)")
            R.inst(key, "wrong order", "violation", True, where(db))
        else:
            # what is written back is self.table
            R.inst(key, "drop_elements < clear_no_drop < write-back of self.table into the original", "ok", True, where(db))
    # (iv) a parallel drain that is dropped without having been driven still owns every element: its destructor destroys them
    for pth, db2 in F.bodies.items():
        if pth.endswith("<RawParDrain as Drop>::drop"):
            key = pth + "|destroys"
            reach = set(F.reachable_fns(pth))
            if any(x.endswith("::drop_elements") for x in reach) or any(callee_path(t) == BUCKET_DROP for q in reach | {pth} for _, t in F.bodies[q].calls()):
                R.inst(key, "the destructor of an undriven parallel drain destroys the elements (clear / drop_elements) and resets the table", "ok", True, where(db2))
            else:
                R.violation(key, db2, "the destructor of RawParDrain only resets the table (clear_no_drop) and never runs the element destructors: a `par_drain()` that is created but not driven leaks every element of the collection")
                R.inst(key, "undriven parallel drain leaks its elements", "violation", True, where(db2))
    # (iii) rayon RawParDrain::drive_unindexed installs its clear_no_drop guard before bridging
    pb = [b for p, b in F.bodies.items() if p.endswith("<RawParDrain as ParallelIterator>::drive_unindexed")]
    for b in pb:
        key = "%s|guard" % b.path
        gds = [g for g in guard_defs(b) if g["closure"] and any((callee_path(t) or "").endswith("::clear_no_drop") for _, t in F.bodies[g["closure"]].calls())]
        br = [i for i, t in b.calls() if (callee_path(t) or "").endswith("bridge_unindexed")]
        if not br:
            R.undec("RawParDrain::drive_unindexed: no bridge_unindexed call")
            continue
        if gds and all(guard_live_at(b, gds[0], i) for i in br):
            R.inst(key, "clear_no_drop guard is live across bridge_unindexed (a panicking consumer leaves an empty table)", "ok", True, where(b, bb=br[0]))
        else:
            R.violation(key, b, "the parallel drain hands elements to consumers without a live scope guard that clears the table: a panic in a consumer leaves moved-out elements marked as present (double drop)", line=line_of(b, bb=br[0]))
            R.inst(key, "no live clear guard", "violation", True, where(b, bb=br[0]))
    return R


# --------------------------------------------------------------------- R-LINEAR-INNER

INNER_SOURCES = ("core::mem::replace", "core::mem::take", "raw::RawTableInner::new_uninitialized", "raw::RawTableInner::fallible_with_capacity",
                 "raw::RawTableInner::with_capacity", "core::ptr::read")
INNER_SINKS = ("raw::RawTableInner::drop_inner_table", "raw::RawTableInner::free_buckets", "core::mem::replace", "core::mem::swap", "scopeguard::guard",
               "core::mem::forget", "core::mem::ManuallyDrop::new")


def r_linear_inner(F, V):
    """RawTableInner has no Drop: a local of that type is a linear resource."""
    R = Result("R-LINEAR-INNER", F.cfg)
    if F.adts.get(INNER, {}).get("has_drop"):
        R.inst("RawTableInner", "RawTableInner now has a Drop impl: linearity obligation void", "ok", False)
        return R
    n = 0
    for p, body in F.bodies.items():
        for l in range(body.arg_count + 1, len(body.locals)):
            ty = body.locals[l]["ty"]
            if not (ty.get("k") == "adt" and ty.get("path") == INNER):
                continue
            defs = body.whole_defs(l)
            calls = [d for d in defs if d[0] == "call" and callee_path(d[3]) in INNER_SOURCES]
            if not calls:
                continue
            if "name" not in body.locals[l] and not any(callee_path(d[3]) in ("core::mem::replace", "core::mem::take") for d in calls):
                # unnamed temporaries are moved on immediately; follow only named bindings and mem::replace results
                pass
            for d in calls:
                start = d[3].get("target")
                if start is None:
                    continue
                # consumption sites
                cons = set()
                singleton_true = set()
                moved_tmp = {l}
                # follow plain moves l -> tmp
                changed = True
                while changed:
                    changed = False
                    for i, k, s in body.stmts():
                        if s["k"] == "assign" and s["rv"]["k"] == "use" and s["rv"]["op"]["k"] == "move" and s["rv"]["op"]["p"]["l"] in moved_tmp and not s["rv"]["op"]["p"].get("proj"):
                            if not s["p"].get("proj") and s["p"]["l"] not in moved_tmp and s["p"]["l"] != 0:
                                moved_tmp.add(s["p"]["l"])
                                changed = True
                for i, k, s in body.stmts():
                    if s["k"] != "assign":
                        continue
                    ops = rv_operands(s["rv"])
                    uses = [o for o in ops if o["k"] == "move" and o["p"]["l"] in moved_tmp and not o["p"].get("proj")]
                    if not uses:
                        continue
                    if s["rv"]["k"] == "aggregate" or s["p"]["l"] == 0 or s["p"].get("proj"):
                        cons.add(i)
                for i, t in body.calls():
                    cp = callee_path(t) or ""
                    for a in t["args"]:
                        if a["k"] in ("copy", "move"):
                            r, _ = body.root_of_place(a["p"])
                            if r in moved_tmp:
                                if cp in INNER_SINKS or cp.endswith("::guard"):
                                    cons.add(i)
                                # the release written out by hand (free_buckets inlined): allocation_info(&local) feeding a deallocate
                                if cp.endswith("RawTableInner::allocation_info"):
                                    for j2, t3 in body.calls():
                                        if _is_alloc_trait_call(t3, "deallocate") and any(og[0] == "call" and og[1] == i for a3 in t3["args"] for og in body.origins(a3)):
                                            cons.add(j2)
                                if cp.endswith("is_empty_singleton"):
                                    # the true arm needs no release
                                    for j in body.normal:
                                        tt = body.term(j)
                                        if tt["k"] == "switch" and any(o[0] == "call" and o[1] == i for o in body.origins(tt["discr"])):
                                            nz = [b for v, b in tt["targets"] if v != 0] + ([tt["otherwise"]] if 0 in [v for v, _ in tt["targets"]] else [])
                                            singleton_true.update(nz)
                n += 1
                key = "%s|_%d" % (p, l)
                name = body.locals[l].get("name", "_%d" % l)
                reach = body.reachable_from(start, tuple(cons | singleton_true))
                leak = [r for r in body.returns if r in reach]
                if leak:
                    R.violation("%s|%s" % (p, name), body,
                                "the local RawTableInner `%s` (obtained from %s) can reach return without being stored, wrapped, returned or passed to drop_inner_table/free_buckets: RawTableInner has no Drop, so the old block and its elements are leaked"
                                % (name, callee_path(d[3])), line=line_of(body, bb=d[1]))
                    R.inst(key, "linear RawTableInner leaked on some path", "violation", True, where(body, bb=d[1]))
                else:
                    R.inst(key, "local RawTableInner `%s` from %s is consumed on every path (%d consumption sites)" % (name, callee_path(d[3]).split("::")[-1], len(cons)), "ok", True, where(body, bb=d[1]))
    R.floor("local RawTableInner values", n, {"posctl": 1}.get(F.cfg, 5))
    return R


# --------------------------------------------------------------------- R-ALLOC-WHO

def _is_alloc_trait_call(t, method):
    f = t["f"]
    return f["k"] == "fn" and f.get("method") == method and (f.get("trait") or "").endswith("Allocator")


def _dealloc_of_own_block(body, t):
    """both the pointer and the layout handed to deallocate originate from one allocation_info(..) call (or into_allocation())"""
    if len(t["args"]) < 3:
        return False
    srcs = []
    for a in t["args"][1:3]:
        found = set()
        for og in body.origins(a):
            if og[0] == "call" and ((callee_path(og[2]) or "").endswith("::allocation_info") or (callee_path(og[2]) or "").endswith("::into_allocation")):
                found.add(og[1])
        srcs.append(found)
    return bool(srcs[0] & srcs[1])


RAII_PRODUCERS = ("raw::RawTable::into_allocation",)


def _raii_release(F, p, body, t):
    """the deallocate call t sits in `<X as Drop>::drop` of a crate struct X, hands the allocator X's own fields, and X values are
    built only by into_allocation (where pointer, layout and the not-the-singleton test are checked): X is the
    (ptr, layout, alloc) triple with a destructor, i.e. the same release one step later. Returns X or None."""
    im = body.j.get("impl") or {}
    if im.get("trait") != "core::ops::drop::Drop" or im.get("self_ty", {}).get("k") != "adt":
        return None
    X = im["self_ty"]["path"]
    for a in t["args"][:3]:
        if a["k"] not in ("copy", "move"):
            return None
        r, path = operand_deep_root(body, a)
        if r != 1:
            return None
    sites = [q for q, b2 in F.bodies.items() for _, _, s2 in b2.stmts() if s2["k"] == "assign" and s2["rv"]["k"] == "aggregate" and s2["rv"].get("adt") == X]
    if not sites or any(q not in RAII_PRODUCERS for q in sites):
        return None
    return X


def r_alloc_who(F, V):
    R = Result("R-ALLOC-WHO", F.cfg)
    allowed = {
        "do_alloc": ("raw::RawTableInner::new_uninitialized",),
        "deallocate": ("raw::RawTableInner::free_buckets", "raw::<RawIntoIter as Drop>::drop",
                       "external_trait_impls::rayon::raw::<RawIntoParIter as ParallelIterator>::drive_unindexed::{closure#0}"),
        "allocate": ("raw::alloc::inner::do_alloc",),
    }
    counts = {"do_alloc": 0, "deallocate": 0, "allocate": 0}
    for p, body in F.bodies.items():
        if p.startswith("raw::alloc::inner::<") or p.startswith("raw::alloc::inner::Global") or p.startswith("raw::alloc::inner::Allocator"):
            continue  # the allocator shim's own forwarding impls
        for i, t in body.calls(include_cleanup=True):
            cp = callee_path(t) or ""
            kind = None
            if cp.endswith("alloc::inner::do_alloc"):
                kind = "do_alloc"
            elif _is_alloc_trait_call(t, "deallocate"):
                kind = "deallocate"
            elif _is_alloc_trait_call(t, "allocate") or _is_alloc_trait_call(t, "allocate_zeroed") or _is_alloc_trait_call(t, "grow") or _is_alloc_trait_call(t, "shrink"):
                kind = "allocate"
            elif cp in ("alloc::alloc::alloc", "alloc::alloc::dealloc", "alloc::alloc::realloc", "alloc::alloc::alloc_zeroed") and not p.startswith("raw::alloc"):
                kind = "allocate" if "dealloc" not in cp else "deallocate"
            if not kind:
                continue
            counts[kind] += 1
            key = "%s|%s" % (p, kind)
            if p in allowed[kind]:
                R.inst(key, "%s called from its designated owner" % kind, "ok", False, where(body, bb=i))
            elif kind == "deallocate" and _raii_release(F, p, body, t):
                R.inst(key, "deallocate in the destructor of %s, the owned (ptr, layout, alloc) triple that only into_allocation builds" % _raii_release(F, p, body, t), "ok", True, where(body, bb=i))
            elif kind == "deallocate" and _dealloc_of_own_block(body, t):
                # the release written out in place (free_buckets inlined at its call site): what matters is that the block
                # returned is the table's own - pointer and layout both come from one allocation_info()/into_allocation()
                R.inst(key, "deallocate(ptr, layout) with both taken from allocation_info() of the table being released", "ok", True, where(body, bb=i))
            else:
                R.violation(key, body, "%s is called from %s; only %s may: allocation and release of the table block must stay paired in one place" % (kind, p, ", ".join(allowed[kind])), line=line_of(body, bb=i))
                R.inst(key, "unexpected caller of %s" % kind, "violation", True, where(body, bb=i))
    for k, c in counts.items():
        R.floor("call sites of " + k, c, {"posctl": 0}.get(F.cfg, 1))
    R.inst("who-may-call", "call sites: %s" % counts, "ok", True)
    return R


# --------------------------------------------------------------------- R-SINGLETON-GUARD

REQUIRES_ALLOCATED = ("raw::RawTableInner::free_buckets", "raw::RawTableInner::allocation_info")


def _singleton_negative_arm(F, body, block, root):
    """block is control dependent on the `false` arm of is_empty_singleton()/bucket_mask==0 of `root`."""
    for (b, s) in body.control_deps_trans(block, "all"):
        tt = body.term(b)
        if tt["k"] != "switch":
            continue
        zero = [bb for v, bb in tt["targets"] if v == 0]
        for o in body.origins(tt["discr"]):
            if o[0] == "call":
                cp = callee_path(o[2]) or ""
                if cp.endswith("::is_empty_singleton") and o[2]["args"]:
                    r, _ = operand_deep_root(body, o[2]["args"][0])
                    same = (root is None or r == root)
                    if not same and root is not None and not body.is_arg(root):
                        # the table that was tested, moved out afterwards: `if !self.is_empty_singleton() { let old = mem::replace(self, NEW); .. }`
                        d_ = body.single_def(root)
                        if d_ and d_[0] == "call" and callee_path(d_[3]) in ("core::mem::replace", "core::mem::take", "core::ptr::read") and d_[3]["args"] \
                                and operand_deep_root(body, d_[3]["args"][0])[0] == r and (body.dominates(b, d_[1]) or b == d_[1]):
                            same = True
                    if same and s in zero:
                        return True
                if cp.endswith("::is_empty") and False:
                    pass
            if o[0] == "load" and (last_field(o[1]) or {}).get("name") == "bucket_mask":
                # `bucket_mask == 0` test: negative arm is the false arm of Eq / true arm of Ne
                return True
    return False


def r_singleton_guard(F, V):
    R = Result("R-SINGLETON-GUARD", F.cfg)
    n = 0
    for p, body in F.bodies.items():
        if p.startswith("raw::alloc::inner::"):
            continue
        for i, t in body.calls():
            cp = callee_path(t) or ""
            is_dealloc = _is_alloc_trait_call(t, "deallocate")
            if cp not in REQUIRES_ALLOCATED and not is_dealloc:
                continue
            n += 1
            key = "%s|%s" % (p, cp.split("::")[-1] if not is_dealloc else "deallocate")
            if p in REQUIRES_ALLOCATED:
                R.inst(key, "inside a requires-allocated function: the obligation is on its callers", "ok", False, where(body, bb=i))
                continue
            if is_dealloc and _raii_release(F, p, body, t):
                # the value being destroyed exists only on into_allocation's Some arm; that None is claimed only for the
                # singleton is the clause on into_allocation below, that Some is built only off the singleton is checked here
                X_ = _raii_release(F, p, body, t)
                okx = True
                for q in RAII_PRODUCERS:
                    b2 = F.bodies.get(q)
                    if b2 is None:
                        continue
                    for j2, k2, s2 in b2.stmts():
                        if s2["k"] == "assign" and s2["rv"]["k"] == "aggregate" and s2["rv"].get("adt") == X_ and not _singleton_negative_arm(F, b2, j2, None):
                            okx = False
                if okx:
                    R.inst(key, "destructor of %s, which into_allocation builds only on the not-empty-singleton arm" % X_, "ok", True, where(body, bb=i))
                    continue
            root = None
            if not is_dealloc and t["args"]:
                root, _ = operand_deep_root(body, t["args"][0])
            if _singleton_negative_arm(F, body, i, root):
                R.inst(key, "control-dependent on the not-empty-singleton arm of the same table", "ok", True, where(body, bb=i))
                continue
            # (iii) (ptr, layout) from the Some arm of into_allocation
            ok = False
            for (b, s) in body.control_deps_trans(i, "all"):
                tt = body.term(b)
                if tt["k"] == "switch":
                    for o in body.origins(tt["discr"]):
                        if o[0] == "discr":
                            r, path = body.root_of_place(o[1])
                            tys = body.locals[r]["ty"]["s"]
                            if "Option<(core::ptr::NonNull<u8>, core::alloc::Layout" in tys or "allocation" in path:
                                if s in [bb for v, bb in tt["targets"] if v == 1]:
                                    ok = True
            if ok:
                R.inst(key, "uses (ptr, layout) from the Some arm of into_allocation()'s result (None is the singleton)", "ok", True, where(body, bb=i))
                continue
            # closure whose creator tests the singleton before building it
            if body.kind == "Closure":
                parent = p.rsplit("::{closure#", 1)[0]
                pb = F.bodies.get(parent)
                if pb:
                    for j, k, s in pb.stmts():
                        if s["k"] == "assign" and s["rv"]["k"] == "aggregate" and s["rv"].get("closure") == p:
                            if _singleton_negative_arm(F, pb, j, None):
                                ok = True
                # guard closure itself tests
            if ok:
                R.inst(key, "closure created only on the not-empty-singleton arm of its creator", "ok", True, where(body, bb=i))
                continue
            R.violation(key, body, "%s requires an allocated table but is not guarded by a !is_empty_singleton() test of the same table: the static empty control group would be freed / a bogus layout computed" % (cp or "deallocate"),
                        line=line_of(body, bb=i))
            R.inst(key, "unguarded requires-allocated call", "violation", True, where(body, bb=i))
    # into_allocation may claim "no allocation" (None) only for the static empty singleton
    ia = F.bodies.get("raw::RawTable::into_allocation")
    if ia is not None:
        nones = [(i, s) for i, k, s in ia.stmts() if s["k"] == "assign" and s["rv"]["k"] == "aggregate" and s["rv"].get("variant") == "None" and "Option" in (s["rv"].get("adt") or "")]
        key = "raw::RawTable::into_allocation|none-only-for-singleton"
        ok = bool(nones)
        why = ""
        for (i, s) in nones:
            good = False
            for (bb, succ, S) in __import__("cond").controlling_sources(ia, i):
                if S.has_call("is_empty_singleton") or S.has_load("bucket_mask"):
                    good = True
                if S.has_load("items") or S.has_call("::is_empty") and not S.has_call("is_empty_singleton") or S.has_call("::len"):
                    good = False
                    why = "the item count"
            ok = ok and good
        if ok:
            R.inst(key, "None (nothing to free) is returned only on the is_empty_singleton() arm", "ok", True, where(ia))
        else:
            R.violation(key, ia, "into_allocation reports 'no allocation' depending on %s instead of is_empty_singleton(): an allocated but empty table would never be freed by the owning iterator" % (why or "something other than the singleton test"))
            R.inst(key, "None arm not tied to the singleton", "violation", True, where(ia))
    R.floor("requires-allocated call sites", n, {"posctl": 1}.get(F.cfg, 6))
    return R


# --------------------------------------------------------------------- R-FIELD-IMMUT

def r_field_immut(F, V):
    R = Result("R-FIELD-IMMUT", F.cfg)
    n = 0
    stores = 0
    for p, body in F.bodies.items():
        for i, k, s in body.stmts(include_cleanup=True):
            n += 1
            if s["k"] != "assign":
                continue
            lf = last_field(s["p"])
            if lf and lf.get("adt") == INNER and lf["name"] in ("bucket_mask", "ctrl"):
                stores += 1
                R.violation("%s|%s" % (p, lf["name"]), body,
                            "RawTableInner.%s is assigned after construction: the layout recomputed from buckets() when freeing no longer matches the allocation, and the unreachable_unchecked() after calculate_layout_for becomes reachable" % lf["name"],
                            line=line_of(body, stmt=s))
                R.inst("%s|%s" % (p, lf["name"]), "store to immutable field", "violation", True, where(body, stmt=s))
    # the allocator a table was allocated with is never replaced or mutably borrowed while the table lives
    nalloc = 0
    for p, body in F.bodies.items():
        for i, k, s in body.stmts(include_cleanup=True):
            if s["k"] != "assign":
                continue
            lf = last_field(s["p"])
            hit = None
            if lf and lf.get("adt") == "raw::RawTable" and lf["name"] == "alloc":
                hit = "assigned"
            rv = s["rv"]
            if rv["k"] in ("ref", "rawptr") and rv.get("mut"):
                lf2 = last_field(rv["p"])
                if lf2 and lf2.get("adt") == "raw::RawTable" and lf2["name"] == "alloc":
                    hit = "mutably borrowed"
            if hit:
                nalloc += 1
                R.violation("%s|alloc" % p, body,
                            "RawTable.alloc is %s after construction: the block the table holds was obtained from the previous allocator and would be returned to a different one" % hit,
                            line=line_of(body, stmt=s))
                R.inst("%s|alloc" % p, "allocator field written", "violation", True, where(body, stmt=s))
    R.inst("RawTable.alloc", "no assignment to / mutable borrow of RawTable.alloc (%d found)" % nalloc, "ok" if not nalloc else "violation", True)
    a = F.adts.get(INNER)
    if not a or not {"bucket_mask", "ctrl", "items", "growth_left"} <= {f["name"] for v in a["variants"] for f in v["fields"]}:
        R.undec("raw::RawTableInner does not have the fields bucket_mask/ctrl/items/growth_left")
    R.inst("RawTableInner.{bucket_mask,ctrl}", "%d assignment statements scanned, %d stores to bucket_mask/ctrl (whole-struct moves are allowed)" % (n, stores), "ok" if not stores else "violation", True)
    return R


# --------------------------------------------------------------------- R-LAYOUT-SOURCE

LAYOUT_CTORS_PREFIX = "core::alloc::layout::Layout::"
LAYOUT_CTOR_NAMES = ("new", "from_size_align", "from_size_align_unchecked", "array", "for_value", "for_value_raw", "extend", "repeat", "pad_to_align", "align_to")
LAYOUT_OWNERS = ("raw::TableLayout::new", "raw::TableLayout::calculate_layout_for")


def r_layout_source(F, V):
    R = Result("R-LAYOUT-SOURCE", F.cfg)
    # (i) Layout constructed only in TableLayout::{new, calculate_layout_for}
    nc = 0
    for p, body in F.bodies.items():
        if p.startswith("raw::alloc::"):
            continue
        for i, t in body.calls(include_cleanup=True):
            cp = callee_path(t) or ""
            if cp.startswith(LAYOUT_CTORS_PREFIX) and cp.split("::")[-1] in LAYOUT_CTOR_NAMES:
                nc += 1
                key = "%s|%s" % (p, cp.split("::")[-1])
                if p in LAYOUT_OWNERS:
                    R.inst(key, "Layout constructor inside TableLayout", "ok", False, where(body, bb=i))
                else:
                    R.violation(key, body, "a Layout is constructed outside TableLayout::{new, calculate_layout_for}: allocation and deallocation could disagree on size/alignment", line=line_of(body, bb=i))
                    R.inst(key, "Layout built outside TableLayout", "violation", True, where(body, bb=i))
    R.floor("Layout constructor sites", nc, {"posctl": 0}.get(F.cfg, 2))
    # (ii) every Layout passed to do_alloc / deallocate derives from calculate_layout_for(buckets) in the same body,
    # or from the Option<(ptr, Layout, A)> made by into_allocation
    nu = 0
    for p, body in F.bodies.items():
        if p.startswith("raw::alloc::"):
            continue
        for i, t in body.calls():
            cp = callee_path(t) or ""
            li = None
            if cp.endswith("alloc::inner::do_alloc"):
                li = 1
            elif _is_alloc_trait_call(t, "deallocate"):
                li = 2
            if li is None or li >= len(t["args"]):
                continue
            nu += 1
            key = "%s|layout->%s" % (p, "do_alloc" if li == 1 else "deallocate")
            src = set()
            for o in body.origins(t["args"][li]):
                if o[0] == "call":
                    src.add(callee_path(o[2]) or "?")
                elif o[0] == "arg":
                    src.add("arg")
                elif o[0] == "load":
                    r, path = body.root_of_place(o[1])
                    if "allocation" in path:
                        src.add("field:allocation")
            if any(s.endswith("TableLayout::calculate_layout_for") for s in src) or any(s.endswith("::allocation_info") for s in src) or "field:allocation" in src:
                R.inst(key, "layout comes from %s" % sorted(src)[:3], "ok", True, where(body, bb=i))
            elif li == 2 and _raii_release(F, p, body, t):
                R.inst(key, "layout is the one stored in %s by into_allocation()" % _raii_release(F, p, body, t), "ok", True, where(body, bb=i))
            elif p.endswith("{closure#0}") and "RawIntoParIter" in p:
                # captured (ptr, layout, alloc) from into_allocation in the creator
                R.inst(key, "layout captured from into_allocation()'s result", "ok", True, where(body, bb=i))
            else:
                R.violation(key, body, "the Layout passed to %s does not derive from TableLayout::calculate_layout_for(buckets) / into_allocation (sources: %s): a block may be returned with a different layout than it was requested with" % ("do_alloc" if li == 1 else "deallocate", sorted(src)),
                            line=line_of(body, bb=i))
                R.inst(key, "layout of unknown origin", "violation", True, where(body, bb=i))
    # (vi) the allocation shims pass the caller's Layout to the allocator untouched: the same Layout value is later
    # reported in AllocError and used for deallocate, so any adjustment here (padding, rounding) makes them disagree
    for p, body in F.bodies.items():
        if not p.startswith("raw::alloc::"):
            continue
        for i, t in body.calls():
            if not (_is_alloc_trait_call(t, "allocate") or _is_alloc_trait_call(t, "allocate_zeroed") or (callee_path(t) or "").endswith("alloc::alloc::alloc")):
                continue
            lay = [a for a in t["args"] if a["k"] in ("copy", "move") and "Layout" in body.local_ty(a["p"]["l"])["s"]]
            key = "%s|layout-untouched" % p
            nu += 1
            bad = None
            for a in lay:
                og = body.origins(a)
                if any(o[0] == "call" for o in og):
                    bad = sorted(set((callee_path(o[2]) or "?") for o in og if o[0] == "call"))
                elif not any(o[0] == "arg" for o in og):
                    bad = ["not the function's own Layout argument"]
            if not lay:
                # the global-alloc shim takes size/align apart: accept only Layout::size / Layout::align of the argument
                R.inst(key, "allocator call without a Layout operand (size/align taken from the argument)", "ok", False, where(body, bb=i))
            elif bad:
                R.violation(key, body, "the Layout handed to the allocator in %s is not the caller's Layout as is (it goes through %s): the block is requested with one layout but reported in AllocError and "
                            "returned to deallocate with another" % (p, bad), line=line_of(body, bb=i))
                R.inst(key, "layout adjusted inside the allocation shim", "violation", True, where(body, bb=i))
            else:
                R.inst(key, "allocate(layout) receives the shim's own Layout argument", "ok", True, where(body, bb=i))
    # (vii) the block pointer and the control pointer are related by the SAME offset in both directions:
    # new_uninitialized sets ctrl = block + ctrl_offset, allocation_info returns block = ctrl - ctrl_offset, where
    # ctrl_offset is the second component of calculate_layout_for(..) in that body
    for fn, op, what in (("raw::RawTableInner::new_uninitialized", "add", "ctrl = block + ctrl_offset"), ("raw::RawTableInner::allocation_info", "sub", "block = ctrl - ctrl_offset")):
        body = F.bodies.get(fn)
        if body is None:
            R.undec("%s not found" % fn)
            continue
        key = "%s|ctrl-offset" % fn
        hits = []
        for i, t in body.calls():
            cp = callee_path(t) or ""
            if cp.endswith("T::" + op) or cp.endswith("NonNull::" + op):
                if len(t["args"]) < 2:
                    continue
                og = body.origins(t["args"][1])
                from_layout = any(o[0] == "call" and (callee_path(o[2]) or "").endswith("TableLayout::calculate_layout_for") for o in og)
                other_calls = [callee_path(o[2]) or "?" for o in og if o[0] == "call" and not (callee_path(o[2]) or "").endswith("TableLayout::calculate_layout_for")]
                hits.append((i, from_layout and not other_calls))
        # the result must be built from such an offset computation and from nothing else pointer-like (e.g. bucket_ptr)
        stray = [i for i, t in body.calls() if (callee_path(t) or "").endswith("::bucket_ptr") or (callee_path(t) or "").endswith("::data_end")]
        nu += 1
        if hits and all(ok for _, ok in hits) and not stray:
            R.inst(key, "%s with ctrl_offset = calculate_layout_for(..).1" % what, "ok", True, where(body, bb=hits[0][0]))
        else:
            R.violation(key, body, "%s does not relate the block pointer and the control pointer by the ctrl_offset of calculate_layout_for (expected %s): with padding in front of the data part "
                        "(size_of::<T>() * buckets not a multiple of the alignment) the pointer handed to deallocate is not the one allocate returned" % (fn, what),
                        line=line_of(body, bb=(hits[0][0] if hits else (stray[0] if stray else 0))))
            R.inst(key, "block/ctrl offset not from calculate_layout_for", "violation", True, where(body))
    R.floor("Layout consumers", nu, {"posctl": 0}.get(F.cfg, 3))
    # (iii) every TableLayout argument is the caller's own parameter or the associated const TABLE_LAYOUT
    nt = 0
    for p, body in F.bodies.items():
        for i, t in body.calls():
            cp = callee_path(t) or ""
            cb = F.bodies.get(cp)
            if not cb:
                continue
            for q in range(min(cb.arg_count, len(t["args"]))):
                if cb.locals[q + 1]["ty"].get("path") != "raw::TableLayout":
                    continue
                nt += 1
                a = t["args"][q]
                key = "%s|TableLayout->%s" % (p, cp.split("::")[-1])
                ok = False
                if a["k"] == "const" and (a.get("def") or "").endswith("::TABLE_LAYOUT"):
                    ok = True
                elif a["k"] in ("copy", "move"):
                    r, path = body.root_of_place(a["p"])
                    if body.is_arg(r) and (body.locals[r]["ty"].get("path") == "raw::TableLayout" or "table_layout" in path or body.kind == "Closure"):
                        ok = True
                    else:
                        for o in body.origins(a):
                            if o[0] == "const" and (o[1].get("def") or "").endswith("::TABLE_LAYOUT"):
                                ok = True
                            if o[0] == "arg":
                                ok = True
                if ok:
                    R.inst(key, "TableLayout argument is the own parameter / Self::TABLE_LAYOUT", "ok", False, where(body, bb=i))
                else:
                    R.violation(key, body, "a TableLayout other than the caller's own parameter or the associated const TABLE_LAYOUT is passed to %s: size/alignment used for freeing may differ from the allocation" % cp, line=line_of(body, bb=i))
                    R.inst(key, "foreign TableLayout", "violation", True, where(body, bb=i))
    R.floor("TableLayout-typed arguments", nt, {"posctl": 0}.get(F.cfg, 10))
    # (v) `calculate_layout_for(..) -> None => unreachable_unchecked()`: sound only if the call repeats the computation that
    # succeeded when the block was allocated: same TableLayout (own parameter / TABLE_LAYOUT) and buckets() of the same table
    from cond import controlling_sources as _cs, sources as _srcs
    nu2 = 0
    for p, body in F.bodies.items():
        for i, t in body.calls():
            if (callee_path(t) or "") != "core::hint::unreachable_unchecked":
                continue
            lay = None
            for (bb, succ, S) in _cs(body, i):
                for c, lst in S.calls.items():
                    if c.endswith("TableLayout::calculate_layout_for"):
                        lay = lst[0][1]
            if lay is None:
                continue
            nu2 += 1
            key = "%s|layout-recomputed" % p
            okb = False
            if len(lay["args"]) >= 2:
                Sb = _srcs(body, lay["args"][1])
                okb = any(c.endswith("::buckets") for c in Sb.calls) or Sb.has_load("bucket_mask")
            a0 = lay["args"][0]
            okl = (a0["k"] == "const" and (a0.get("def") or "").endswith("::TABLE_LAYOUT"))
            if not okl and a0["k"] in ("copy", "move"):
                r0 = body.root_of_place(a0["p"])[0]
                okl = body.is_arg(r0) or any(o[0] == "const" and (o[1].get("def") or "").endswith("::TABLE_LAYOUT") for o in body.origins(a0))
            if okb and okl:
                R.inst(key, "unreachable_unchecked after calculate_layout_for(own layout, self.buckets()): repeats the computation that succeeded at allocation", "ok", True, where(body, bb=i))
            else:
                R.violation(key, body, "unreachable_unchecked() on the None arm of calculate_layout_for, but the call does not repeat the allocation-time computation (own TableLayout: %s, bucket count of the same table: %s): None is reachable, which is undefined behaviour" % (okl, okb), line=line_of(body, bb=i))
                R.inst(key, "layout recomputation differs from the allocation", "violation", True, where(body, bb=i))
    R.floor("unreachable_unchecked sites guarded by a layout recomputation", nu2, {"posctl": 0}.get(F.cfg, 2))
    # (iv) allocation_size_or_zero reports the size of the very layout the block was allocated with
    ab = F.bodies.get("raw::RawTableInner::allocation_size_or_zero")
    if ab is not None:
        from cond import sources as _src
        vals = []
        for i, k, s in ab.stmts():
            if s["k"] == "assign" and s["p"]["l"] == 0 and not s["p"].get("proj"):
                vals += rv_operands(s["rv"])
        for i, t in ab.calls():
            if t["dest"]["l"] == 0:
                vals.append({"k": "copy", "p": {"l": 0}})
        ok = False
        for i, t in ab.calls():
            if (callee_path(t) or "").endswith("Layout::size") and t["args"]:
                S = _src(ab, t["args"][0])
                if any(c.endswith("::allocation_info") or c.endswith("calculate_layout_for") for c in S.calls):
                    ok = True
        arith = [s for i, k, s in ab.stmts() if s["k"] == "assign" and s["rv"]["k"] == "binop" and s["rv"]["op"].replace("WithOverflow", "") in ("Add", "Mul")]
        key = "raw::RawTableInner::allocation_size_or_zero|layout-size"
        if ok and not arith:
            R.inst(key, "allocation_size = allocation_info(table_layout).1.size()", "ok", True, where(ab))
        else:
            R.violation(key, ab, "allocation_size is not the size() of the Layout the block was allocated with (it is recomputed by hand): padding between the data part and the control bytes is not counted")
            R.inst(key, "allocation size recomputed", "violation", True, where(ab))
    return R


# --------------------------------------------------------------------- R-NOALLOC-REACH

NOALLOC_ROOTS = [
    "map::HashMap::new", "map::HashMap::with_hasher", "map::HashMap::with_hasher_in", "map::HashMap::new_in", "map::<HashMap as Default>::default",
    "set::HashSet::new", "set::HashSet::with_hasher", "set::HashSet::with_hasher_in", "set::HashSet::new_in", "set::<HashSet as Default>::default",
    "table::HashTable::new", "table::HashTable::new_in", "table::<HashTable as Default>::default",
    "raw::RawTable::new", "raw::RawTable::new_in", "raw::<RawTable as Default>::default",
    "raw::<RawIter as Default>::default", "raw::<RawIntoIter as Default>::default", "raw::<RawIterHash as Default>::default",
]
NODEALLOC_ROOTS = [
    "raw::RawTable::clear", "raw::RawTable::clear_no_drop", "raw::RawTableInner::clear_no_drop", "raw::RawTable::drain", "raw::RawTable::drain_iter_from",
    "raw::<RawDrain as Iterator>::next", "raw::<RawDrain as Drop>::drop", "map::HashMap::retain", "map::HashMap::clear", "map::HashMap::drain",
    "set::HashSet::clear", "set::HashSet::drain", "set::HashSet::retain", "table::HashTable::clear", "table::HashTable::drain", "table::HashTable::retain",
    "map::HashMap::extract_if", "raw::RawExtractIf::next", "map::<ExtractIf as Iterator>::next", "table::HashTable::extract_if",
]


def r_noalloc_reach(F, V):
    R = Result("R-NOALLOC-REACH", F.cfg)
    alloc_fns = set(p for p in F.bodies if p.endswith("alloc::inner::do_alloc"))
    dealloc_callers = set()
    for p, body in F.bodies.items():
        if p.startswith("raw::alloc::inner::"):
            continue
        for i, t in body.calls(include_cleanup=True):
            if _is_alloc_trait_call(t, "deallocate"):
                dealloc_callers.add(p)
    if not alloc_fns:
        R.undec("do_alloc not found")
    n = 0
    for root in NOALLOC_ROOTS:
        if root not in F.bodies:
            continue
        n += 1
        reach = F.reachable_fns(root)
        hit = reach & alloc_fns
        if hit:
            R.violation("%s|allocates" % root, F.bodies[root], "%s can reach the allocator (do_alloc): a collection that was never given an element or a capacity must own no block" % root, via=_path_to(F, root, hit))
            R.inst(root, "allocator reachable", "violation", True)
        else:
            R.inst(root, "do_alloc unreachable (%d bodies reachable)" % len(reach), "ok", True)
    m = 0
    for root in NODEALLOC_ROOTS:
        if root not in F.bodies:
            continue
        m += 1
        reach = F.reachable_fns(root)
        hit = reach & dealloc_callers
        if hit:
            R.violation("%s|deallocates" % root, F.bodies[root], "%s can reach Allocator::deallocate: clear/drain/retain/extract_if must keep the allocation" % root, via=_path_to(F, root, hit))
            R.inst(root, "deallocate reachable", "violation", True)
        else:
            R.inst(root, "deallocate unreachable (%d bodies reachable)" % len(reach), "ok", True)
    # with_capacity(0) allocates nothing: in fallible_with_capacity the allocating call is control-dependent on capacity != 0
    fb = F.bodies.get("raw::RawTableInner::fallible_with_capacity")
    if not fb:
        R.undec("fallible_with_capacity not found")
    else:
        for i, t in fb.calls():
            if (callee_path(t) or "").endswith("RawTableInner::new_uninitialized"):
                ok = False
                for (b, s) in fb.control_deps_trans(i, "all"):
                    tt = fb.term(b)
                    if tt["k"] == "switch":
                        for o in fb.origins(tt["discr"]):
                            if o[0] == "binop" and o[1] in ("Eq", "Ne"):
                                rv = o[2][3]["rv"]
                                ops = [rv["a"], rv["b"]]
                                if any(x["k"] == "const" and x.get("val") == 0 for x in ops) and any(x["k"] in ("copy", "move") and fb.root_of_place(x["p"])[0] == 3 for x in ops):
                                    ok = True
                if ok:
                    R.inst("fallible_with_capacity|capacity!=0", "the allocating call is control-dependent on capacity != 0", "ok", True, where(fb, bb=i))
                else:
                    R.violation("raw::RawTableInner::fallible_with_capacity|capacity0", fb, "with_capacity(0) can reach the allocator: the allocation is not guarded by a capacity == 0 test", line=line_of(fb, bb=i))
    R.floor("no-alloc roots", n, {"posctl": 0}.get(F.cfg, 12))
    R.floor("no-dealloc roots", m, {"posctl": 0}.get(F.cfg, 12))
    return R


def _path_to(F, root, targets):
    prev = {root: None}
    q = [root]
    while q:
        n = q.pop(0)
        if n in targets:
            out = []
            while n is not None:
                out.append(n)
                n = prev[n]
            return list(reversed(out))
        for m in F.callgraph.get(n, ()):
            if m not in prev:
                prev[m] = n
                q.append(m)
    return []


# --------------------------------------------------------------------- R-DROP-ORDER

def r_drop_order(F, V):
    """(i) wherever elements are destroyed and their storage released in one body, destruction dominates release;
    (ii) the collection's own Drop releases through drop_inner_table; (iii) in resize_inner the guard that owns the
    *other* table after mem::swap is left armed, so the old block is freed by it."""
    R = Result("R-DROP-ORDER", F.cfg)
    n = 0
    for p, body in F.bodies.items():
        de = [i for i, t in body.calls() if (callee_path(t) or "").endswith("::drop_elements")]
        fr = [i for i, t in body.calls() if (callee_path(t) or "").endswith("::free_buckets") or _is_alloc_trait_call(t, "deallocate")]
        if de and fr:
            n += 1
            key = "%s|destroy-before-free" % p
            if all(any(body.dominates(d, f) for d in de) for f in fr):
                R.inst(key, "element destruction dominates the release of the block", "ok", True, where(body, bb=fr[0]))
            else:
                R.violation(key, body, "the table's block is released before (or without) its elements being destroyed: destructors would run on freed memory / elements leak", line=line_of(body, bb=fr[0]))
                R.inst(key, "free before destroy", "violation", True, where(body, bb=fr[0]))
    b = F.bodies.get("raw::<RawTable as Drop>::drop")
    if b is None:
        R.violation("raw::RawTable|no-drop", _NoBody("raw::RawTable"), "RawTable has no Drop impl: every table leaks its elements and its block")
    else:
        n += 1
        inl_ = any((callee_path(t) or "").endswith("::drop_elements") for i, t in b.calls()) and any((callee_path(t) or "").endswith("::free_buckets") for i, t in b.calls())
        if any((callee_path(t) or "").endswith("::drop_inner_table") and _arg_has_field(b, t, "table") for i, t in b.calls()) or inl_:
            R.inst("raw::<RawTable as Drop>::drop", "Drop releases self.table through drop_inner_table", "ok", True, where(b))
        else:
            R.violation("raw::<RawTable as Drop>::drop|release", b, "RawTable::drop does not release self.table through drop_inner_table")
    rb = F.bodies.get("raw::RawTableInner::resize_inner")
    if rb is not None:
        n += 1
        key = "raw::RawTableInner::resize_inner|old-block-freed-by-guard"
        swaps = [i for i, t in rb.calls() if (callee_path(t) or "") == "core::mem::swap"]
        replaces = [i for i, t in rb.calls() if (callee_path(t) or "") == "core::mem::replace" and t["args"] and operand_deep_root(rb, t["args"][0])[0] == 1
                    and any(x == INNER for x in t["f"].get("substs", []))]
        glocals = [l for l in range(len(rb.locals)) if rb.locals[l]["ty"].get("path") == "scopeguard::ScopeGuard"]
        problems = []
        if not swaps and not replaces:
            problems.append("the new table is never installed into self (no mem::swap / mem::replace of the old and the new table)")
        # while the elements are re-hashed (user code) the new allocation has to be owned by a guard: RawTableInner has no destructor
        fresh = [t["dest"]["l"] for i, t in rb.calls() if (callee_path(t) or "").endswith("RawTableInner::fallible_with_capacity") or (callee_path(t) or "").endswith("RawTableInner::new_uninitialized")
                 or (callee_path(t) or "").endswith("RawTableInner::prepare_resize")]
        gds_ = guard_defs(rb)
        first_install = (swaps + replaces)
        for (ci, cd) in V.callback_sites(rb):
            if first_install and all(ci in _reach(rb, x) for x in first_install):
                continue        # after the new table has been installed
            if not fresh:
                break
            owned = any(guard_live_at(rb, g, ci) for g in gds_) or any(rb.locals[l]["ty"].get("path") == "scopeguard::ScopeGuard" for l in fresh)
            if not owned:
                # a guard handed over by a callee (prepare_resize returns the new table already wrapped): a ScopeGuard-typed local
                # holding a RawTableInner that has not been defused before this point
                for gl in glocals:
                    if "RawTableInner" not in rb.locals[gl]["ty"]["s"]:
                        continue
                    dis = guard_disarms_local(rb, gl) + guard_disarms_local(rb, rb.root_of_place({"l": gl})[0])
                    if not any(ci in _reach(rb, d_) for d_ in dis):
                        owned = True
            if not owned:
                problems.append("user code (%s) runs while the freshly allocated table is held in a plain local: RawTableInner has no destructor, so a panic there leaks the new block (only a destructor panic may leak table memory)" % cd)
                break
        if replaces and not swaps:
            glocals = []    # the old block is freed explicitly (R-LINEAR-INNER checks that the replaced-out table reaches free_buckets)
        for g in glocals:
            if "name" not in rb.locals[g]:
                continue
            groot = rb.root_of_place({"l": g})[0]
            dis = guard_disarms_local(rb, groot) + (guard_disarms_local(rb, g) if groot != g else [])
            if dis:
                problems.append("the guard `%s` that owns the old table after the swap is disarmed (mem::forget / into_inner): the old block is never freed" % rb.locals[g].get("name"))
            drops = [i for i in rb.normal if rb.term(i)["k"] == "drop" and (rb.term(i)["p"]["l"] == g or rb.root_of_place(rb.term(i)["p"])[0] == groot)]
            if swaps and not any(d in _reach(rb, s) for d in drops for s in swaps):
                problems.append("the guard is not dropped after the swap")
        if problems:
            R.violation(key, rb, "; ".join(problems))
            R.inst(key, "; ".join(problems), "violation", True, where(rb))
        else:
            R.inst(key, "after mem::swap the armed guard is dropped, freeing the old block", "ok", True, where(rb))
    R.floor("destroy/release bodies", n, {"posctl": 0}.get(F.cfg, 3))
    return R


class _NoBody:
    def __init__(self, path):
        self.path = path

    def file(self):
        return "src/raw/mod.rs"

    def line(self):
        return 1


def _arg_has_field(body, t, name):
    if not t["args"] or t["args"][0]["k"] not in ("copy", "move"):
        return False
    return name in deep_root(body, t["args"][0]["p"])[1]


def _reach(body, b):
    out = set()
    for s in body.nsucc[b]:
        out |= body.reachable_from(s)
    return out


def guard_disarms_local(body, g):
    from rules.accounting import guard_disarms
    return guard_disarms(body, g)


# --------------------------------------------------------------------- R-UNCHECKED-LEDGER (informational)

def r_unchecked_ledger(F, V):
    """every `*_unchecked` / `unreachable_unchecked` call that is compiled in this configuration, with the class of its
    justification. Informational: it never produces a violation; a site that no rule justifies is listed as
    'audited only' so that the evidence says plainly what the static argument does not cover."""
    from cond import controlling_sources
    R = Result("R-UNCHECKED-LEDGER", F.cfg)
    n = 0
    classes = {}
    for p, body in F.bodies.items():
        for i, t in body.calls():
            cp = callee_path(t) or ""
            name = cp.split("::")[-1]
            if not (name.endswith("_unchecked") or name == "unreachable_unchecked" or name in ("assume_init", "assume_init_mut", "assume_init_ref")):
                continue
            sp = t.get("sp") or {}
            if any(m.startswith("debug_assert") for m in sp.get("mac", [])):
                continue
            n += 1
            cls_ = "audited only (not statically decided)"
            if name == "unreachable_unchecked":
                err = False
                for (bb, s, S) in controlling_sources(body, i):
                    if any("TryReserveError" in (body.locals[body.root_of_place(tt["dest"])[0]]["ty"]["s"]) for lst in S.calls.values() for _, tt in lst) or S.has_call("is_err"):
                        err = True
                cls_ = "rule: R-INFALLIBLE (Err of a call given Fallibility::Infallible)" if err else "rule: R-FIELD-IMMUT + R-LAYOUT-SOURCE (layout of an existing allocation recomputed from an immutable bucket_mask)"
            elif name == "from_size_align_unchecked":
                cls_ = "rule: R-ARITH (guarded length, ctrl_align)"
            elif name == "new_unchecked":
                S = __import__("cond").sources(body, t["args"][0]) if t["args"] else None
                srcs = sorted(set(c.split("::")[-1] for c in (S.calls if S else {})))
                cls_ = "non-null by construction (operand from %s)" % (", ".join(srcs) or "a constant / reference")
            elif name == "unwrap_unchecked":
                cls_ = "audited only: rests on the load-factor invariant (an EMPTY/DELETED byte exists in the group) - not statically decided"
            classes[cls_.split(" (")[0].split(":")[0]] = classes.get(cls_.split(" (")[0].split(":")[0], 0) + 1
            R.inst("%s|%s@%d" % (p, name, _ord(body, i, name)), cls_, "ok", False, where(body, bb=i))
    R.info["unchecked call sites"] = n
    R.info["by justification class"] = classes
    return R


def _ord(body, block, name):
    k = 0
    for i, t in body.calls():
        if (callee_path(t) or "").split("::")[-1] == name:
            if i == block:
                return k
            k += 1
    return k
