"""Rules added after the second round of independently authored mutations (DESIGN.md 12.6).
Each decides one more structural clause that is a necessary condition of a property:
R-SWEEP-RANGE, R-PROBE-STEP, R-ZST-PTR, R-GROUP-DEFS, R-CLONE-GUARD-RANGE, R-ALLOC-IDENTITY,
R-RESIZE-TARGET, R-PAR-CONSUME, R-PAR-ORDER, R-SUBSET-LEN."""
from core import callee_path, last_field, rv_operands
from cond import sources, branch_sources, controlling_sources, expr_key
from rules.base import Result, where, line_of
from rules.accounting import deep_root, operand_deep_root
from rules.iters import _is_exhaustion_branch
from rules.lookup import _relation


def _reach_after(body, b):
    out = set()
    for s in body.nsucc[b]:
        out |= body.reachable_from(s)
    return out


# --------------------------------------------------------------------- R-SWEEP-RANGE

SWEEPERS = ("raw::RawTableInner::rehash_in_place", "raw::RawTableInner::rehash_in_place::{closure#0}", "raw::RawTableInner::prepare_rehash_in_place")


def _sweep_alternatives(F, body, cls):
    """(ok, message, block) for a sweep over the control bytes written as `ctrl_slice()[..n].chunks..(WIDTH)` or as a pointer
    walk `p = ctrl(0); while p (+ a) REL ctrl(buckets - b) { ..; p = p.add(WIDTH) }`; None if neither form is present."""
    import re as _re
    from rules.arith import _width
    W = _width(F)
    # (1) a prefix of the control slice: its end must be buckets()
    for i, k, s in body.stmts():
        incl = s["k"] == "assign" and s["rv"]["k"] == "aggregate" and (s["rv"].get("adt") or "").endswith("range::RangeToInclusive")
        if incl:
            c = cls(body, s["rv"]["ops"][0])
            if c == "MASK":
                return True, "the group-wise sweep runs over ctrl_slice()[..=bucket_mask] (= ..buckets())", i
            return False, "a loop that must visit every control group runs over ctrl_slice()[..=<%s>] instead of ..=bucket_mask / ..buckets(): groups at the end are cut off or the slice overruns" % c, i
        if s["k"] == "assign" and s["rv"]["k"] == "aggregate" and (s["rv"].get("adt") or "").endswith("range::RangeTo"):
            c = cls(body, s["rv"]["ops"][0])
            ek = expr_key(body, s["rv"]["ops"][0])
            # buckets(), bucket_mask + 1, or either of them raised to at least one group (`max(buckets, WIDTH)`: tables smaller than
            # a group still own WIDTH control bytes)
            full = c in ("BUCKETS", "ADD(MASK,CONST:1)") or (("max(" in ek) and ("bucket_mask" in ek or "buckets" in ek) and ("c:1:usize" in ek or "buckets" in ek) and ("c:%d:usize" % W) in ek)
            if full:
                return True, "the group-wise sweep runs over ctrl_slice()[..buckets()]", i
            return False, ("a loop that must visit every control group runs over the first <%s> control bytes instead of buckets(): the last group is cut off (chunks_exact drops the incomplete tail), "
                           "so its tombstones are not converted before the in-place rehash and removed elements come back as live ones" % c), i
    # (2) pointer walk
    for i in body.normal:
        t = body.term(i)
        if t["k"] != "switch" or t["discr"]["k"] not in ("copy", "move") or t["discr"]["p"].get("proj"):
            continue
        d = body.single_def(t["discr"]["p"]["l"])
        if not d or d[0] != "stmt" or d[3]["rv"]["k"] != "binop" or d[3]["rv"]["op"] not in ("Lt", "Le", "Gt", "Ge"):
            continue
        a_, b_ = d[3]["rv"]["a"], d[3]["rv"]["b"]
        tys = [body.locals[o["p"]["l"]]["ty"]["s"] if o["k"] in ("copy", "move") else "" for o in (a_, b_)]
        if all(x == "usize" for x in tys):
            # the same walk with an index instead of a pointer: `let mut i = 0; while i (+ a) REL buckets() (- b) { ..; i += WIDTH }`
            def iside(o):
                c = cls(body, o)
                if c == "BUCKETS":
                    return ("end", 0)
                if c in ("Sub(BUCKETS,CONST:%d)" % W, "SUB(BUCKETS,CONST:%d)" % W):
                    return ("end", W)
                if c == "MASK":
                    return ("end", 1)
                if c.startswith("PHI(") and "CONST:0" in c:
                    return ("walk", 0)
                if c.startswith("ADD(PHI(") and c.endswith(",CONST:%d)" % W):
                    return ("walk", W)
                return (None, 0)
            sa, sb = iside(a_), iside(b_)
            if {sa[0], sb[0]} == {"walk", "end"}:
                op2 = d[3]["rv"]["op"]
                if sa[0] == "end":
                    sa, sb = sb, sa
                    op2 = {"Lt": "Gt", "Le": "Ge", "Gt": "Lt", "Ge": "Le"}[op2]
                zero = [bb for v, bb in t["targets"] if v == 0]
                cont = [x for x in body.nsucc[i] if x not in zero]
                loops = [blocks for h, blocks in body.natural_loops() if i in blocks]
                if not (bool(loops) and any(x in loops[0] for x in cont)):
                    op2 = {"Lt": "Ge", "Le": "Gt", "Gt": "Le", "Ge": "Lt"}[op2]
                a, b = sa[1], sb[1]
                good = (op2 == "Lt" and a + b == 0) or (op2 == "Le" and a + b == W)
                if op2 in ("Lt", "Le"):
                    if good:
                        return True, "the index walk over the control groups covers 0 .. buckets() (guard: i + %d %s buckets() - %d)" % (a, "<" if op2 == "Lt" else "<=", b), i
                    return False, ("an index walk that must visit every control group stops early (it continues while i + %d %s buckets() - %d): the last group is never converted, "
                                   "so its tombstones are rehashed as if they were live elements" % (a, "<" if op2 == "Lt" else "<=", b)), i
            continue
        if not all(x.startswith("*") for x in tys):
            continue
        ka, kb = expr_key(body, a_), expr_key(body, b_)
        op = d[3]["rv"]["op"]

        def side(kx):
            """('walk', a) for the walking pointer plus a constant, ('end', b) for ctrl(buckets - b)"""
            add = 0
            m = _re.match(r"^.*::add\((.*),c:(\d+):usize\)$", kx)
            inner = kx
            if m and "RawTableInner::ctrl(" not in m.group(1).split("::add(")[0][:0] + "":
                pass
            if m and not m.group(1).startswith("raw::RawTableInner::ctrl("):
                inner, add = m.group(1), int(m.group(2))
            if "RawTableInner::ctrl(" in inner and "buckets" in inner:
                mb = _re.search(r"c:(\d+):usize", inner.split("buckets", 1)[1])
                sub = ("saturating_sub" in inner or "Sub(" in inner or "wrapping_sub" in inner)
                return ("end", (int(mb.group(1)) if (mb and sub) else 0) - add)
            if _re.match(r"^l\d+", inner) or inner.startswith("l"):
                return ("walk", add)
            return (None, 0)
        sa, sb = side(ka), side(kb)
        if {sa[0], sb[0]} != {"walk", "end"}:
            continue
        if sa[0] == "end":
            sa, sb = sb, sa
            op = {"Lt": "Gt", "Le": "Ge", "Gt": "Lt", "Ge": "Le"}[op]
        # the loop continues on the edge where `walk + a  op  ctrl(buckets - b)` holds
        zero = [bb for v, bb in t["targets"] if v == 0]
        cont = [x for x in body.nsucc[i] if x not in zero]
        loops = [blocks for h, blocks in body.natural_loops() if i in blocks]
        stays_on_true = bool(loops) and any(x in loops[0] for x in cont)
        if not stays_on_true:
            op = {"Lt": "Ge", "Le": "Gt", "Gt": "Le", "Ge": "Lt"}[op]
        a, b = sa[1], sb[1]
        if op == "Lt":
            good = (a + b == 0)
        elif op == "Le":
            good = (a + b == W)
        else:
            continue
        if good:
            return True, "the pointer walk over the control groups covers ctrl(0) .. ctrl(buckets()) (guard: p + %d %s ctrl(buckets - %d))" % (a, "<" if op == "Lt" else "<=", b), i
        return False, ("a pointer walk that must visit every control group stops one group early (it continues while p + %d %s ctrl(buckets() - %d)): the last group is never converted, "
                       "so its tombstones are rehashed as if they were live elements - removed keys come back, live ones are lost" % (a, "<" if op == "Lt" else "<=", b)), i
    return None


def r_sweep_range(F, V):
    """loops that must visit every bucket of the table (the in-place rehash, its unwind guard, the bulk tag
    conversion) iterate 0..buckets(): a smaller end (bucket_mask, buckets() - 1, ...) skips the last bucket(s)."""
    from rules.arith import cls
    R = Result("R-SWEEP-RANGE", F.cfg)
    n = 0
    for p in SWEEPERS:
        body = F.bodies.get(p)
        if body is None:
            R.undec("%s not found" % p)
            continue
        found = False
        for i, k, s in body.stmts():
            if s["k"] == "assign" and s["rv"]["k"] == "aggregate" and s["rv"].get("adt") == "core::ops::range::Range" or (s["k"] == "assign" and s["rv"]["k"] == "aggregate" and (s["rv"].get("adt") or "").endswith("ops::Range")):
                rv = s["rv"]
                if "end" not in rv["fields"]:
                    continue
                start = rv["ops"][rv["fields"].index("start")]
                end = rv["ops"][rv["fields"].index("end")]
                if not (start["k"] == "const" and start.get("val") == 0):
                    continue
                found = True
                n += 1
                c = cls(body, end)
                key = "%s|0..%s" % (p, c[:40])
                if c == "BUCKETS":
                    R.inst(key, "sweep over 0..buckets()", "ok", True, where(body, stmt=s))
                else:
                    R.violation("%s|range-end" % p, body, "a loop that must visit every bucket runs over 0..<%s> instead of 0..buckets(): the last bucket is never visited (an element there is neither re-hashed nor cleaned up after a panic, and `items` goes stale)" % c, line=line_of(body, stmt=s))
                    R.inst(key, "sweep does not cover all buckets", "violation", True, where(body, stmt=s))
        if not found:
            # other spellings of the sweep: a slice of the control bytes cut into groups, or a pointer that walks from ctrl(0)
            alt = _sweep_alternatives(F, body, cls)
            if alt is not None:
                okk, msg, blk = alt
                found = True
                n += 1
                key = "%s|sweep" % p
                if okk:
                    R.inst(key, msg, "ok", True, where(body, bb=blk))
                else:
                    R.violation("%s|range-end" % p, body, msg, line=line_of(body, bb=blk))
                    R.inst(key, "sweep does not cover all buckets", "violation", True, where(body, bb=blk))
        if not found:
            R.undec("%s: no 0..n range found" % p)
    R.floor("full-table sweeps", n, 3)
    return R


# --------------------------------------------------------------------- R-PROBE-STEP

def _field_of(body, o):
    """(field name, (block, stmt index) of the load) if the operand is a field of a place, directly or through one temporary"""
    if o["k"] not in ("copy", "move"):
        return None, None
    lf = last_field(o["p"])
    if lf:
        return lf["name"], None
    d = body.single_def(o["p"]["l"])
    if d and d[0] == "stmt" and d[3]["rv"]["k"] == "use" and d[3]["rv"]["op"]["k"] in ("copy", "move"):
        lf = last_field(d[3]["rv"]["op"]["p"])
        if lf:
            return lf["name"], (d[1], d[2])
    return None, None


def r_probe_step(F, V):
    """triangular probing: the stride is increased *before* it is added to the position (so consecutive probes are
    distinct groups and each group is visited once per cycle), and the position is re-masked afterwards.
    Anchored at ProbeSeq::move_next; if that helper has been inlined away, at every body that stores ProbeSeq.stride."""
    R = Result("R-PROBE-STEP", F.cfg)
    anchor = F.bodies.get("raw::ProbeSeq::move_next")
    targets = [anchor] if anchor is not None else []
    # plus every body that advances a probe walk itself: a store into a `stride` field of an existing value (ProbeSeq, or a cursor
    # into which the probe sequence was flattened), not the construction of a fresh one
    for p, b in F.bodies.items():
        if not p.startswith("raw::"):
            continue
        for i, k, s in b.stmts():
            lf = last_field(s["p"]) if s["k"] == "assign" else None
            if lf and lf["name"] == "stride" and (lf.get("adt") or "").startswith("raw::") and len(s["p"].get("proj", [])) >= 1 and s["rv"]["k"] != "aggregate":
                if b not in targets:
                    targets.append(b)
    if not targets:
        R.undec("raw::ProbeSeq::move_next not found and no body advances a ProbeSeq")
        return R
    for b in targets:
        _probe_step_body(R, b)
    # a probe sequence generated by hand (a ProbeSeq value built outside probe_seq(), e.g. inside an iterator adaptor): each position
    # must be computed from the previous one (a recurrence over a place the same body updates). `start + stride` with a fixed start
    # walks the table linearly in the stride while lookups walk it triangularly - elements are then inserted where lookups never look
    for p, b in F.bodies.items():
        if not p.startswith("raw::") or p == "raw::RawTableInner::probe_seq" or p.endswith("ProbeSeq::move_next"):
            continue
        for i, k, st in b.stmts():
            if st["k"] != "assign" or st["rv"]["k"] != "aggregate" or st["rv"].get("adt") != "raw::ProbeSeq" or "pos" not in (st["rv"].get("fields") or []):
                continue
            op = st["rv"]["ops"][st["rv"]["fields"].index("pos")]
            key = "%s|hand-made-probe-seq" % p
            # the expression that computes the position: the operand itself, or - if the operand is a plain load of a place this
            # body assigns (`pos = (pos + stride) & mask; ProbeSeq { pos, .. }`) - the value assigned to that place
            exprs = []
            if _has_add(b, op):
                exprs.append(("op", op))
            else:
                for pl in _leaf_places(b, op):
                    ck = _canon(b, pl)
                    for _, _, s2 in b.stmts():
                        if s2["k"] == "assign" and s2["p"].get("proj") and _canon(b, s2["p"]) == ck and s2["rv"]["k"] == "binop":
                            exprs.append(("rv", s2["rv"]))
            if not exprs:
                continue   # a plain copy of an existing sequence's position
            stored = set(_canon(b, s2["p"]) for _, _, s2 in b.stmts() if s2["k"] == "assign" and s2["p"].get("proj"))
            rec = True
            for kind, e in exprs:
                leaves = []
                if kind == "op":
                    leaves = _leaf_places(b, e)
                else:
                    for o in rv_operands(e):
                        _leaf_places(b, o, 0, leaves)
                if not any(_canon(b, pl) in stored for pl in leaves if pl.get("proj")):
                    rec = False
            if rec:
                R.inst(key, "a ProbeSeq built here takes its position from the previous position (a place this body updates)", "ok", True, where(b, stmt=st))
            else:
                R.violation(key, b, "a ProbeSeq is built by hand with a position that is computed from a fixed start (`start + stride`) instead of from the previous position: the walk is linear in the stride, not triangular like ProbeSeq::move_next, so this search visits other groups than the lookups do (elements are inserted where lookups never find them)", line=line_of(b, stmt=st))
                R.inst(key, "hand-made probe sequence without recurrence", "violation", True, where(b, stmt=st))
    return R


def _canon(b, p, depth=0):
    """canonical key of a place: references / copies held in single-definition temporaries are replaced by what they refer to"""
    pj = _proj_key(p)
    if depth > 6:
        return (p["l"],) + pj
    d = b.single_def(p["l"]) if not b.is_arg(p["l"]) else None
    if d and d[0] == "stmt" and d[3]["k"] == "assign":
        rv = d[3]["rv"]
        if rv["k"] == "ref" and pj and pj[0][0] == "deref":
            return _canon(b, rv["p"], depth + 1) + pj[1:]
        if rv["k"] == "use" and rv["op"]["k"] in ("copy", "move"):
            return _canon(b, rv["op"]["p"], depth + 1) + pj
    return (p["l"],) + pj


def _proj_key(p):
    return tuple((e["k"], e.get("i"), e.get("name")) for e in p.get("proj", []))


def _leaf_places(b, op, depth=0, acc=None):
    """places (with their projections) read by the expression that defines operand op, through single-definition temporaries"""
    if acc is None:
        acc = []
    if depth > 12 or op["k"] not in ("copy", "move"):
        return acc
    pl = op["p"]
    if pl.get("proj"):
        d = b.single_def(pl["l"])
        if d and d[0] == "stmt" and d[3]["rv"]["k"] == "binop" and len(pl["proj"]) == 1 and pl["proj"][0]["k"] == "field":
            # `_t.0` of a checked arithmetic result
            for o in rv_operands(d[3]["rv"]):
                _leaf_places(b, o, depth + 1, acc)
            return acc
        acc.append(pl)
        # `(*_5)` where _5 = &mut (*_1).0 / copy of an upvar reference: also report the underlying place
        if d and d[0] == "stmt" and d[3]["rv"]["k"] in ("ref", "use"):
            inner = d[3]["rv"].get("p") or (d[3]["rv"].get("op") or {}).get("p")
            if inner:
                acc.append(inner)
        return acc
    d = b.single_def(pl["l"])
    if not d or d[0] != "stmt":
        return acc
    rv = d[3]["rv"]
    for o in rv_operands(rv):
        _leaf_places(b, o, depth + 1, acc)
    if rv["k"] in ("ref",):
        acc.append(rv["p"])
    return acc


def _has_add(b, op, depth=0):
    if depth > 12 or op["k"] not in ("copy", "move"):
        return False
    if op["p"].get("proj") and not (len(op["p"]["proj"]) == 1 and op["p"]["proj"][0]["k"] == "field" and op["p"]["proj"][0].get("name") in ("0", "1")):
        return False
    d = b.single_def(op["p"]["l"])
    if not d or d[0] != "stmt":
        return False
    rv = d[3]["rv"]
    if rv["k"] == "binop" and rv["op"].replace("WithOverflow", "").replace("Unchecked", "") == "Add":
        return True
    return any(_has_add(b, o, depth + 1) for o in rv_operands(rv))


def _probe_step_body(R, b):
    stride_stores = []
    pos_adds = []
    for i, k, s in b.stmts():
        if s["k"] != "assign":
            continue
        lf = last_field(s["p"])
        if lf and lf["name"] == "stride" and (lf.get("adt") or "").startswith("raw::") and s["rv"]["k"] != "aggregate":
            stride_stores.append((i, k, s))
        if s["rv"]["k"] == "binop" and s["rv"]["op"].replace("WithOverflow", "").replace("Unchecked", "") == "Add":
            ops = [s["rv"]["a"], s["rv"]["b"]]
            flds = [_field_of(b, o)[0] for o in ops]
            if "pos" in flds and "stride" in [_field_of(b, o)[0] for o in ops]:
                pos_adds.append((i, k, s, ops[1 - flds.index("pos")]))
            elif "pos" in flds and b.path.endswith("ProbeSeq::move_next"):
                pos_adds.append((i, k, s, ops[1 - flds.index("pos")]))
    key = "%s|stride-then-pos" % (b.path if not b.path.endswith("ProbeSeq::move_next") else "raw::ProbeSeq::move_next")
    if not stride_stores or not pos_adds:
        R.undec("%s: stride store (%d) / pos addition (%d) not found" % (b.path, len(stride_stores), len(pos_adds)))
        return
    problems = []
    for (pi, pk, ps, other) in pos_adds:
        # the stride store that belongs to this step: the closest one dominating it (or in the same block before it)
        ld = None
        fname, at = _field_of(b, other)
        if fname == "stride":
            ld = at if at is not None else (pi, pk)
        if ld is None:
            problems.append("the value added to `pos` is not the stride")
            continue
        after = any(((b.dominates(si, ld[0]) and si != ld[0]) or (si == ld[0] and sk < ld[1])) and (si == ld[0] or not _loop_back_between(b, si, ld[0])) for (si, sk, ss) in stride_stores)
        if not after:
            problems.append("the stride is added to the position before it has been increased: the first step moves by 0 and the home group is scanned twice (iter_hash yields elements twice, iter_hash_mut hands out duplicate &mut)")
    masked = any(s["k"] == "assign" and (last_field(s["p"]) or {}).get("name") == "pos" and (s["rv"]["k"] == "binop" and s["rv"]["op"] == "BitAnd") for i, k, s in b.stmts())
    if not masked:
        problems.append("`pos` is not re-masked with bucket_mask")
    if problems:
        R.violation(key, b, "; ".join(sorted(set(problems))))
        R.inst(key, "; ".join(sorted(set(problems))), "violation", True, where(b))
    else:
        R.inst(key, "stride += WIDTH happens before pos += stride; pos is re-masked", "ok", True, where(b))


def _loop_back_between(b, a, c):
    return False


# --------------------------------------------------------------------- R-ZST-PTR

def r_zst_ptr(F, V):
    """for zero-sized elements a bucket's `ptr` field is an index encoding, not an address: the pointer handed out
    must be the aligned dangling pointer made from align_of::<T>(), never the encoding itself."""
    R = Result("R-ZST-PTR", F.cfg)
    b = F.bodies.get("raw::Bucket::as_ptr")
    if b is None:
        R.undec("raw::Bucket::as_ptr not found")
        return R
    zb = None
    for i in b.normal:
        t = b.term(i)
        if t["k"] == "switch":
            S = branch_sources(b, i)
            if any("IS_ZERO_SIZED" in (c.get("def") or "") for c in S.consts) or any(c.endswith("size_of") for c in S.calls):
                zb = i
    key = "raw::Bucket::as_ptr|zst-arm"
    if zb is None:
        R.violation(key, b, "Bucket::as_ptr no longer distinguishes zero-sized element types: for them `ptr` is an index encoding and must not be dereferenced or handed out")
        return R
    t = b.term(zb)
    zarm = [bb for v, bb in t["targets"] if v != 0] + ([t["otherwise"]] if 0 in [v for v, _ in t["targets"]] else [])
    ok = False
    bad = False
    for a in zarm:
        reg = b.reachable_from(a, tuple(x for x in b.nsucc[zb] if x != a))
        # definitions of the return place in that region
        for i in reg:
            blk = b.blocks[i]
            tt = blk["term"]
            ops = []
            if tt["k"] == "call" and tt["dest"]["l"] == 0:
                ops = tt["args"]
                if (callee_path(tt) or "").endswith("invalid_mut") or "without_provenance" in (callee_path(tt) or ""):
                    S = sources(b, tt["args"][0]) if tt["args"] else None
                    if S and any(c.endswith("align_of") for c in S.calls):
                        ok = True
                if "dangling" in (callee_path(tt) or ""):
                    ok = True  # NonNull::<T>::dangling() is aligned for T by definition
                for o in ops:
                    S = sources(b, o)
                    if S.has_load("ptr"):
                        bad = True
                    if any("dangling" in c for c in S.calls):
                        ok = True
            for s in blk["stmts"]:
                if s["k"] == "assign" and s["p"]["l"] == 0:
                    for o in rv_operands(s["rv"]):
                        if sources(b, o).has_load("ptr"):
                            bad = True
    if ok and not bad:
        R.inst(key, "zero-sized arm returns invalid_mut(align_of::<T>())", "ok", True, where(b, bb=zb))
    else:
        R.violation(key, b, "for zero-sized element types Bucket::as_ptr does not return the aligned dangling pointer built from align_of::<T>() (it uses the index-encoding `ptr`): references to over-aligned zero-sized elements are misaligned", line=line_of(b, bb=zb))
        R.inst(key, "ZST arm hands out the encoding pointer", "violation", True, where(b, bb=zb))
    # the index <-> pointer conversions have two arms (zero-sized: index encoding; sized: address arithmetic): both arms
    # must be functions of the same index/offset argument and of the bucket itself - an arm that ignores the index maps
    # every bucket to one index (for zero-sized elements erase/retain then act on the wrong slot)
    for fn in ("raw::Bucket::next_n", "raw::Bucket::from_base_index", "raw::Bucket::to_base_index"):
        fb = F.bodies.get(fn)
        if fb is None:
            R.undec("%s not found" % fn)
            continue
        req = set(l for l in range(1, fb.arg_count + 1) if fb.locals[l]["ty"]["s"] == "usize" or fb.locals[l].get("name") == "self")
        key2 = fn + "|arms-agree"
        phis = [l for l in range(len(fb.locals)) if len(fb.whole_defs(l)) > 1 and fb.locals[l]["ty"]["s"] not in ("bool", "()")]
        problems = []
        for l in phis:
            per = []
            for d in fb.whole_defs(l):
                ops = d[3]["args"] if d[0] == "call" else rv_operands(d[3]["rv"])
                deps = set()
                for o in ops:
                    deps |= _dep_args(fb, o)
                per.append((d, deps & req))
            union = set()
            for _, dp in per:
                union |= dp
            for d, dp in per:
                miss = union - dp
                if miss:
                    problems.append((d, sorted(fb.locals[m].get("name") or "_%d" % m for m in miss)))
        if not phis:
            R.undec("%s: no two-armed result found (zero-sized / sized arms)" % fn)
        elif problems:
            d, names = problems[0]
            R.violation(key2, fb, "one arm of %s computes its result without using `%s`, which the other arm uses: for that element kind every bucket maps to the same index/pointer "
                        "(for zero-sized elements the iterator then reports every element at index 0 and erase/retain/extract_if unregister the wrong slot)" % (fn.split("::")[-1], "`, `".join(names)), line=line_of(fb, bb=d[1]))
            R.inst(key2, "arm ignores %s" % names, "violation", True, where(fb, bb=d[1]))
        else:
            R.inst(key2, "both arms are functions of %s" % sorted(fb.locals[m].get("name") or "_%d" % m for m in req), "ok", True, where(fb))
    # direction: a larger bucket index is a larger encoded value for zero-sized types (from_base_index: index + K) and a smaller
    # address otherwise (base.sub(index)): next_n moves the same way in each arm (`+ offset` / `.sub(offset)`)
    nb_ = F.bodies.get("raw::Bucket::next_n")
    if nb_ is not None:
        key4 = "raw::Bucket::next_n|direction"
        ops_ = []
        zst_keys = []
        for l in range(len(nb_.locals)):
            wd = nb_.whole_defs(l)
            if len(wd) <= 1 or nb_.locals[l]["ty"]["s"] in ("bool", "()"):
                continue
            for d in wd:
                if d[0] == "call":
                    cpd = callee_path(d[3]) or ""
                    if cpd.endswith("T::sub") or cpd.endswith("T::add") or cpd.endswith("T::offset") or cpd.endswith("wrapping_sub") or cpd.endswith("wrapping_add"):
                        ops_.append(("sized", cpd.split("::")[-1]))
                    else:
                        ek = expr_key(nb_, d[3]["args"][0]) if d[3]["args"] else ""
                        m_ = _split_key_top(ek)
                        if m_:
                            ops_.append(("zst", m_))
                            zst_keys.append(ek)
                elif d[0] == "stmt" and d[3]["k"] == "assign" and d[3]["rv"]["k"] == "use":
                    # the arm's value computed by a helper that was inlined back: `_x = move _ret`
                    ek = expr_key(nb_, d[3]["rv"]["op"])
                    import re as _re4
                    mw = _re4.match(r"^[A-Za-z_:<> ]*(invalid_mut|without_provenance_mut|without_provenance)\((.*)\)$", ek)
                    if mw:
                        m_ = _split_key_top(mw.group(2))
                        if m_:
                            ops_.append(("zst", m_))
                            zst_keys.append(mw.group(2))
        zst_ops = [o for k_, o in ops_ if k_ == "zst"]
        sized_ops = [o for k_, o in ops_ if k_ == "sized"]
        probs4 = []
        if zst_ops and any(o not in ("Add", "wrapping_add") for o in zst_ops):
            probs4.append("the zero-sized arm computes `ptr %s offset` although a larger bucket index is a LARGER encoded value (from_base_index stores index + 1)" % zst_ops[0])
        for zk in zst_keys:
            cs = _const_balance(zk)
            if cs is not None and cs != 0:
                probs4.append("the zero-sized arm moves the encoded index by `offset %+d` (the encoding constant is applied %s): the bucket produced by the iterator decodes to a neighbouring slot" % (cs, "twice" if cs > 0 else "in the wrong direction"))
        if sized_ops and any(o not in ("sub",) for o in sized_ops):
            probs4.append("the sized arm uses `%s` although buckets grow DOWNWARDS from the control bytes (from_base_index uses base.sub(index))" % sized_ops[0])
        if probs4:
            R.violation(key4, nb_, "Bucket::next_n moves in the wrong direction: %s: the iterator then visits wrong (for zero-sized types: out-of-range) buckets" % "; ".join(probs4))
            R.inst(key4, "; ".join(probs4), "violation", True, where(nb_))
        elif zst_ops or sized_ops:
            R.inst(key4, "zero-sized arm adds the offset, sized arm subtracts it (same directions as from_base_index)", "ok", True, where(nb_))
    # the index encoding of zero-sized buckets is a codec: from_base_index stores `index + K`, to_base_index returns
    # `ptr - K` with the same K (any K; both directions must agree or every erase/retain acts on a neighbouring slot)
    fb_, tb_ = F.bodies.get("raw::Bucket::from_base_index"), F.bodies.get("raw::Bucket::to_base_index")
    if fb_ is not None and tb_ is not None:
        import re as _re

        def _zst_k(bd, which):
            ks = set()
            for l in range(len(bd.locals)):
                wd = bd.whole_defs(l)
                if len(wd) <= 1 or bd.locals[l]["ty"]["s"] in ("bool", "()"):
                    continue
                for d in wd:
                    ops = d[3]["args"] if d[0] == "call" else rv_operands(d[3]["rv"])
                    # the zero-sized arm is the one NOT using pointer arithmetic on a base pointer (no `sub` / offset_from call)
                    if d[0] == "call" and ((callee_path(d[3]) or "").endswith("::sub") or (callee_path(d[3]) or "").endswith("offset_from")):
                        continue
                    key_ = expr_key(bd, {"k": "copy", "p": {"l": l}}) if False else None
                    if d[0] == "call":
                        ek = expr_key(bd, ops[0]) if ops else ""
                    else:
                        rv = d[3]["rv"]
                        ek = expr_key(bd, rv["op"]) if rv["k"] in ("use", "cast") else ("%s(%s,%s)" % (rv["op"].replace("WithOverflow", ""), expr_key(bd, rv["a"]), expr_key(bd, rv["b"])) if rv["k"] == "binop" else "")
                    # the same value wrapped in the integer-to-pointer helper (a codec helper that was inlined back)
                    mw = _re.match(r"^[A-Za-z_:<> ]*(invalid_mut|without_provenance_mut|without_provenance|dangling_mut)\((.*)\)$", ek)
                    if mw:
                        ek = mw.group(2)
                    m = _re.match(r"^(Add|Sub)\((.*),c:(\d+):usize\)(\.0)?$", ek)
                    if m and m.group(1) == which:
                        ks.add(int(m.group(3)))
                    elif m:
                        ks.add(-int(m.group(3)))
                    elif _re.match(r"^a\d+$", ek) or _re.match(r"^[A-Za-z_:<> ]*as_ptr\(a\d+[.a-z_]*\)$", ek):
                        ks.add(0)
                    elif ek:
                        ks.add("other: " + ek[:60])
            return ks
        kf, kt = _zst_k(fb_, "Add"), _zst_k(tb_, "Sub")
        key3 = "raw::Bucket::{from,to}_base_index|zst-codec"
        if len(kf) == 1 and len(kt) == 1 and all(isinstance(x, int) for x in list(kf) + list(kt)):
            if kf == kt:
                R.inst(key3, "zero-sized encoding: from_base_index stores index + %d, to_base_index subtracts %d" % (list(kf)[0], list(kt)[0]), "ok", True, where(tb_))
            else:
                R.violation(key3, tb_, "the index encoding of zero-sized buckets is not inverted: from_base_index stores index + %d but to_base_index subtracts %d: bucket_index() is off by one for "
                            "zero-sized elements, so erase / remove / retain clear a neighbouring slot (the element stays FULL while len() drops)" % (list(kf)[0], list(kt)[0]))
                R.inst(key3, "encode/decode constants differ", "violation", True, where(tb_))
        elif any(isinstance(x, str) for x in list(kf) + list(kt)) and len(kf) == 1 and len(kt) == 1:
            R.violation(key3, tb_, "the index encoding of zero-sized buckets is not an `index + K` / `ptr - K` pair any more (from_base_index: %s, to_base_index: %s): unless the two are exact inverses "
                        "bucket_index() is wrong for zero-sized elements and erase / remove / retain act on another slot" % (sorted(map(str, kf)), sorted(map(str, kt))))
            R.inst(key3, "encode/decode not inverse", "violation", True, where(tb_))
        else:
            R.inst(key3, "zero-sized arms not of the form index +/- K: not judged (%s / %s)" % (sorted(map(str, kf)), sorted(map(str, kt))), "exempt", False, where(tb_))
    return R


def _const_balance(k):
    """sum of the integer constants of an Add/Sub expression key (signs respected); None if the key has another shape"""
    import re as _re
    from rules.round3 import _split_top
    k = k[:-2] if k.endswith(".0") else k
    m = _re.match(r"^c:(\d+):[iu](size|\d+)$", k)
    if m:
        return int(m.group(1))
    sp = _split_top(k)
    if sp and sp[0] in ("Add", "Sub") and len(sp[1]) == 2:
        a, b = _const_balance(sp[1][0]), _const_balance(sp[1][1])
        if a is None or b is None:
            return None
        return a + b if sp[0] == "Add" else a - b
    if sp and sp[0] in ("Mul", "Div", "BitAnd", "Shl", "Shr"):
        return None
    return 0   # a leaf (parameter, field, call result): contributes no constant


def _split_key_top(k):
    """top-level operator name of an expr_key like 'Add(x,y).0' -> 'Add'; None for a leaf"""
    i = k.find("(")
    if i <= 0:
        return None
    name = k[:i]
    return name.split("::")[-1] if "::" in name else name


def _dep_args(body, operand, _seen=None):
    """argument locals an operand's value depends on (full backward slice through temporaries and call arguments)."""
    _seen = _seen if _seen is not None else set()
    out = set()
    if operand["k"] not in ("copy", "move"):
        return out
    l = operand["p"]["l"]
    for e in operand["p"].get("proj", []):
        if e["k"] == "index":
            out |= _dep_args(body, {"k": "copy", "p": {"l": e["local"]}}, _seen)
    if l in _seen:
        return out
    _seen.add(l)
    if body.is_arg(l):
        out.add(l)
        return out
    for d in body.defs.get(l, ()):
        ops = d[3]["args"] if d[0] == "call" else (rv_operands(d[3]["rv"]) if d[3]["k"] == "assign" else [])
        if d[0] != "call" and d[3]["k"] == "assign" and d[3]["rv"]["k"] in ("ref", "rawptr", "discriminant", "len") and "p" in d[3]["rv"]:
            ops = list(ops) + [{"k": "copy", "p": d[3]["rv"]["p"]}]
        for o in ops:
            out |= _dep_args(body, o, _seen)
    return out


# --------------------------------------------------------------------- R-GROUP-DEFS

def r_group_defs(F, V):
    """sibling agreement of the scanner back-ends on *definitions* (not on bit tricks): FULL means 'not special', so
    match_full must be the inversion of match_empty_or_deleted in every back-end."""
    R = Result("R-GROUP-DEFS", F.cfg)
    n = 0
    for p, b in F.bodies.items():
        if p.startswith("control::group::") and p.endswith("::Group::match_full"):
            n += 1
            callees = [(callee_path(t) or "") for i, t in b.calls()]
            key = "%s|definition" % p
            via = [c for c in callees if c.endswith("::match_empty_or_deleted")]
            inv = [c for c in callees if c.endswith("BitMask::invert")]
            if via and inv and not [c for c in callees if c.endswith("::match_empty")]:
                R.inst(key, "match_full = match_empty_or_deleted().invert()", "ok", True, where(b))
            elif not via and not inv:
                # direct implementation (e.g. a SIMD movemask of the sign bits): accept only if it does not go through match_empty
                if any(c.endswith("::match_empty") for c in callees):
                    R.violation(key, b, "match_full is derived from match_empty: tombstones (DELETED) would be reported as full buckets, so iterators yield removed elements")
                else:
                    R.inst(key, "match_full implemented directly (not via match_empty)", "ok", False, where(b))
            else:
                R.violation(key, b, "match_full is not the inversion of match_empty_or_deleted (callees: %s): tombstones would be reported as full buckets" % sorted(set(c.split("::")[-1] for c in callees)))
                R.inst(key, "match_full definition differs", "violation", True, where(b))
    # lane predicates of the SSE2 back-end, read off the resolved intrinsics (definitions, not bit tricks): which lanes a
    # scan selects is either "the sign bit" (EMPTY and DELETED, the two special tags) or "equal to one given tag"
    want = {"match_tag": "eq:arg", "match_empty": "eq:EMPTY", "match_empty_or_deleted": "sign",
            "convert_special_to_empty_and_full_to_deleted": "sign"}
    tagc = {255: "EMPTY", 128: "DELETED"}
    for fn, expected in want.items():
        p = "control::group::sse2::Group::" + fn
        b = F.bodies.get(p)
        if b is None:
            continue
        kind = _lane_predicate(F, b, tagc)
        key = p + "|lanes"
        if kind is None:
            R.inst(key, "lane predicate not recognised: not judged", "exempt", False, where(b))
            continue
        n += 1
        if kind == expected:
            R.inst(key, "selects lanes by %s" % kind, "ok", True, where(b))
        else:
            R.violation(key, b, "%s selects lanes by `%s` but its contract needs `%s` (sign = both special tags EMPTY and DELETED; eq:X = exactly the lanes holding X): e.g. a conversion that "
                        "treats only EMPTY as special leaves tombstones DELETED, and the in-place rehash then re-inserts removed elements as live ones" % (fn, kind, expected))
            R.inst(key, "lane predicate %s, expected %s" % (kind, expected), "violation", True, where(b))
    if "control::group::sse2::Group::convert_special_to_empty_and_full_to_deleted" in F.bodies:
        b = F.bodies["control::group::sse2::Group::convert_special_to_empty_and_full_to_deleted"]
        key = "control::group::sse2::Group::convert_special_to_empty_and_full_to_deleted|or-deleted"
        ors = [t for i, t in b.calls() if (callee_path(t) or "").endswith("_mm_or_si128")]
        ok = False
        for t in ors:
            for a in t["args"]:
                for og in b.origins(a):
                    if og[0] == "call" and (callee_path(og[2]) or "").endswith("_mm_set1_epi8"):
                        for og2 in b.origins(og[2]["args"][0]):
                            if og2[0] == "const" and og2[1].get("val") == 128:
                                ok = True
        if ors:
            if ok:
                R.inst(key, "selected lanes | DELETED: special -> 0xFF (EMPTY), full -> 0x80 (DELETED)", "ok", True, where(b))
            else:
                R.violation(key, b, "the conversion does not OR the lane mask with Tag::DELETED: full lanes are not turned into DELETED (the 'to be rehashed' marker of the in-place rehash)")
    R.floor("scanner back-ends", n, 1)
    return R


def _lane_predicate(F, b, tagc, depth=0):
    """'sign' | 'eq:arg' | 'eq:EMPTY' | 'eq:DELETED' | None for an SSE2 group function"""
    if depth > 3:
        return None
    kinds = set()
    for i, t in b.calls():
        cp = callee_path(t) or ""
        if cp.endswith("_mm_cmpeq_epi8"):
            other = None
            for a in t["args"]:
                for og in b.origins(a):
                    if og[0] == "call" and (callee_path(og[2]) or "").endswith("_mm_set1_epi8"):
                        for og2 in b.origins(og[2]["args"][0]):
                            if og2[0] == "const" and og2[1].get("val") in tagc:
                                other = "eq:" + tagc[og2[1]["val"]]
                            elif og2[0] == "arg":
                                other = "eq:arg"
            if other:
                kinds.add(other)
        elif cp.endswith("_mm_cmpgt_epi8") or cp.endswith("_mm_cmplt_epi8"):
            zero_pos = None
            for q, a in enumerate(t["args"]):
                if any(og[0] == "call" and (callee_path(og[2]) or "").endswith("_mm_setzero_si128") for og in b.origins(a)):
                    zero_pos = q
            if (cp.endswith("cmpgt_epi8") and zero_pos == 0) or (cp.endswith("cmplt_epi8") and zero_pos == 1):
                kinds.add("sign")
            else:
                kinds.add("other-compare")
        elif cp.endswith("_mm_movemask_epi8"):
            # movemask of the raw group = its sign bits; movemask of a comparison result adds nothing
            direct = all(og[0] in ("load", "arg") for og in b.origins(t["args"][0])) if t["args"] else False
            if direct:
                kinds.add("sign")
        elif cp.startswith("control::group::sse2::Group::match_") and cp in F.bodies and cp != b.path:
            sub = _lane_predicate(F, F.bodies[cp], tagc, depth + 1)
            if sub == "eq:arg":
                # which tag is passed?
                tg = t["args"][1] if len(t["args"]) > 1 else None
                if tg is not None and tg["k"] == "const" and tg.get("val") in tagc:
                    sub = "eq:" + tagc[tg["val"]]
                elif tg is not None and tg["k"] in ("copy", "move") and any(og[0] == "arg" for og in b.origins(tg)):
                    sub = "eq:arg"
            if sub:
                kinds.add(sub)
    if len(kinds) == 1:
        return kinds.pop()
    return None


# --------------------------------------------------------------------- R-CLONE-GUARD-RANGE

def r_clone_guard_range(F, V):
    """clone_from_impl's unwind guard drops the clones made so far: with the exclusive range 0..*index the stored
    index must be (index of the slot just written) + 1, and it must be stored after the write."""
    R = Result("R-CLONE-GUARD-RANGE", F.cfg)
    b = F.bodies.get("raw::RawTable::clone_from_impl")
    g = F.bodies.get("raw::RawTable::clone_from_impl::{closure#0}")
    gdef = None
    if b is not None:
        from rules.accounting import guard_defs
        gds = [x for x in guard_defs(b) if x["closure"] in F.bodies]
        if gds:
            gdef = gds[0]
            g = F.bodies[gdef["closure"]]      # a scope-guard closure, or the destructor of a guard struct
    if b is None or g is None:
        R.undec("clone_from_impl / its unwind guard not found")
        return R
    exclusive = any(s["k"] == "assign" and s["rv"]["k"] == "aggregate" and (s["rv"].get("adt") or "").endswith("ops::range::Range") for i, k, s in g.stmts())
    inclusive = any((callee_path(t) or "").endswith("RangeInclusive::new") for i, t in g.calls())
    writes = [i for i, t in b.calls() if (callee_path(t) or "") == "raw::Bucket::write"]
    stores = []
    for i, k, s in b.stmts():
        if s["k"] == "assign" and s["p"].get("proj") and s["p"].get("t") == "usize":
            r, path = deep_root(b, s["p"])
            # the progress index kept in the guard's value: a tuple field, or a field of a small private struct
            if b.locals[r]["ty"].get("path") == "scopeguard::ScopeGuard" or (gdef is not None and r == gdef["local"]):
                stores.append((i, k, s))
    key = "raw::RawTable::clone_from_impl|guard-index"
    if writes and not stores:
        # a guard without a progress index: it sweeps the whole table and drops what is marked FULL. That is exact if the control
        # bytes say FULL only for slots already written: all reset before the loop, each set only after its slot was written
        sweep = any((callee_path(t) or "").endswith("is_bucket_full") for _, t in g.calls()) or any((callee_path(t) or "").endswith("RawTable::iter") or (callee_path(t) or "").endswith("RawTableInner::iter") for _, t in g.calls())
        fills = [i for i, t in b.calls() if t["f"].get("method") == "fill_empty" or (callee_path(t) or "").endswith("fill_empty")]
        sets = [i for i, t in b.calls() if (callee_path(t) or "").endswith("RawTableInner::set_ctrl") or (callee_path(t) or "").endswith("set_ctrl_hash")]
        if sweep and fills and sets:
            late = [x for x in sets if any(b.dominates(w, x) for w in writes)]
            early_full = []
            for x in sets:
                if x in late:
                    continue
                tg = b.term(x)["args"][2] if len(b.term(x)["args"]) > 2 else None
                cs = [o[1] for o in b.origins(tg) if o[0] == "const"] if tg is not None else []
                if not (cs and all((c.get("val") or 0) >= 128 for c in cs) and not [o for o in b.origins(tg) if o[0] in ("call", "arg", "load")]):
                    early_full.append(x)
            if late and not early_full:
                R.inst(key, "the guard sweeps every bucket and drops the FULL ones; control bytes are reset before the loop and a slot's tag is set only after the clone was written (special tags excepted)", "ok", True, where(b))
                return R
            R.violation(key, b, "the unwind guard drops every bucket marked FULL, but a control byte can be FULL before its slot holds a clone (set before Bucket::write, or not reset first): a panic in Clone would drop an uninitialised slot", line=line_of(b, bb=(early_full or sets)[0]))
            R.inst(key, "FULL before written", "violation", True, where(b))
            return R
    if not writes or not stores:
        R.undec("clone_from_impl: Bucket::write (%d) / guard index store (%d) not found" % (len(writes), len(stores)))
        return R
    i, k, s = stores[-1]
    S = sources(b, s["rv"]["op"]) if s["rv"]["k"] == "use" else sources(b, {"k": "copy", "p": s["p"]})
    plus1 = any(bop.startswith("Add") for bop in S.binops) and any(c.get("val") == 1 for c in S.consts)
    if s["rv"]["k"] == "binop":
        plus1 = s["rv"]["op"].startswith("Add") and any(o["k"] == "const" and o.get("val") == 1 for o in (s["rv"]["a"], s["rv"]["b"]))
    after_write = any(b.dominates(w, i) for w in writes)
    problems = []
    if exclusive and not plus1:
        problems.append("the guard drops the exclusive range 0..*index but the index stored after cloning slot i is not i + 1: the clone just written is never dropped if a later Clone panics (leak)")
    if inclusive and plus1:
        problems.append("the guard drops an inclusive range but the stored index is i + 1: an uninitialised slot would be dropped")
    # the range starts at slot 0
    for i_, k_, s_ in g.stmts():
        if s_["k"] == "assign" and s_["rv"]["k"] == "aggregate" and (s_["rv"].get("adt") or "").endswith("ops::range::Range"):
            st_op = s_["rv"]["ops"][0]
            if not (st_op["k"] == "const" and st_op.get("val") == 0):
                problems.append("the guard's drop range does not start at slot 0 (%s..): clones written to the first slots are never dropped when a later Clone panics (leak)" % (st_op.get("val") if st_op["k"] == "const" else "?"))
    if inclusive and not plus1:
        problems.append("the guard drops the inclusive range 0..=*index from an initial index of 0: before the first clone has been written (a panic in the very first Clone::clone) "
                        "it already covers slot 0, which holds no clone - in clone_from that is the target's old, already dropped element (double drop)")
    if not after_write:
        problems.append("the guard index is advanced before the slot is written: a panic in Clone would drop an uninitialised slot")
    if problems:
        R.violation(key, b, "; ".join(problems), line=line_of(b, stmt=s))
        R.inst(key, "; ".join(problems), "violation", True, where(b, stmt=s))
    else:
        R.inst(key, "after writing slot i the guard index becomes i + 1 (guard drops 0..index)", "ok", True, where(b, stmt=s))
    return R


# --------------------------------------------------------------------- R-ALLOC-IDENTITY

ALLOC_TAKERS = ("raw::RawTableInner::new_uninitialized", "raw::RawTableInner::fallible_with_capacity", "raw::RawTableInner::with_capacity",
                "raw::RawTableInner::free_buckets", "raw::RawTableInner::drop_inner_table", "raw::RawTableInner::prepare_resize",
                "raw::RawTableInner::resize_inner", "raw::RawTableInner::reserve_rehash_inner", "raw::RawTable::new_uninitialized")


def r_alloc_identity(F, V):
    """a table's block is obtained from and returned to the table's *own* allocator: in a body that has access to two
    tables (self and a source), every allocator operand of an allocating / freeing call is rooted at self."""
    R = Result("R-ALLOC-IDENTITY", F.cfg)
    n = 0
    for p, body in F.bodies.items():
        if not p.startswith("raw::"):
            continue
        # bodies with two table-typed arguments
        targs = [l for l in range(1, body.arg_count + 1) if "raw::RawTable<" in body.locals[l]["ty"]["s"]]
        if len(targs) < 2:
            continue
        for i, t in body.calls():
            cp = callee_path(t) or ""
            if cp not in ALLOC_TAKERS:
                continue
            cb = F.bodies.get(cp)
            for q in range(min(cb.arg_count, len(t["args"]))):
                pty = cb.locals[q + 1]["ty"]
                nm = cb.locals[q + 1].get("name")
                if nm != "alloc":
                    continue
                n += 1
                a = t["args"][q]
                key = "%s|alloc->%s" % (p, cp.split("::")[-1])
                r, path = operand_deep_root(body, a)
                # through a guard over self
                if r is not None and not body.is_arg(r):
                    for d in body.whole_defs(r):
                        if d[0] == "call" and (callee_path(d[3]) or "").endswith("scopeguard::guard") and d[3]["args"]:
                            r, _ = operand_deep_root(body, d[3]["args"][0])
                if r == targs[0]:
                    R.inst(key, "allocator operand is self's allocator", "ok", True, where(body, bb=i))
                else:
                    R.violation(key, body, "%s is called with an allocator that is not self's own (root _%s): the block would be obtained from / returned to a different allocator than the one that owns the table" % (cp, r), line=line_of(body, bb=i))
                    R.inst(key, "foreign allocator", "violation", True, where(body, bb=i))
    R.floor("allocator operands in two-table bodies", n, 1)
    return R


# --------------------------------------------------------------------- R-RESIZE-TARGET

def r_resize_target(F, V):
    """(i) the capacity handed to resize_inner covers the live items plus the request (it derives from items + additional);
    (ii) the in-place / resize decision is controlled by that one comparison and the overflow check only."""
    R = Result("R-RESIZE-TARGET", F.cfg)
    b = F.bodies.get("raw::RawTableInner::reserve_rehash_inner")
    if b is None:
        R.undec("raw::RawTableInner::reserve_rehash_inner not found")
        return R
    add_l = [l for l in range(1, b.arg_count + 1) if b.locals[l].get("name") == "additional"]
    for i, t in b.calls():
        if (callee_path(t) or "").endswith("RawTableInner::resize_inner"):
            cb = F.bodies[callee_path(t)]
            q = [k for k in range(cb.arg_count) if cb.locals[k + 1].get("name") == "capacity"]
            key = "raw::RawTableInner::reserve_rehash_inner|resize-capacity"
            if not q:
                R.undec("resize_inner has no `capacity` parameter")
                continue
            from cond import sources_x
            S = sources_x(F, b, t["args"][q[0]])
            if S.has_load("items") and "additional" in S.arg_names:
                R.inst(key, "resize capacity derives from items + additional (and capacity + 1)", "ok", True, where(b, bb=i))
            else:
                R.violation(key, b, "the capacity passed to resize_inner does not derive from both the live item count and the requested additional room (items: %s, additional: %s): reserve returns Ok with less room than promised" % (S.has_load("items"), "additional" in S.arg_names), line=line_of(b, bb=i))
                R.inst(key, "resize capacity from the wrong source", "violation", True, where(b, bb=i))
    rip = [i for i, t in b.calls() if (callee_path(t) or "").endswith("rehash_in_place")]
    for r in rip:
        key = "raw::RawTableInner::reserve_rehash_inner|in-place-condition"
        from rules.arith import _TP_NO_NUM
        ctrl = controlling_sources(b, r, transparent=_TP_NO_NUM)
        extra = []
        for (bb, s, S) in ctrl:
            is_overflow = any(c.endswith("checked_add") for c in S.calls) and not S.has_call("bucket_mask_to_capacity")
            is_decision = S.has_call("bucket_mask_to_capacity")
            # a debug assertion is not a condition of the release behaviour
            def _dbg(x, follow=True):
                tt = b.term(x)
                if any("debug_assert" in m for m in (list((tt.get("sp") or {}).get("mac", [])) + list((tt.get("sp_full") or {}).get("mac", [])))):
                    return True
                # the test of a debug assertion: one arm is the assertion's own panic
                return follow and any(_dbg(y, False) and not b.can_reach_return(y) for y in b.nsucc[x])
            # (the branch itself belongs to a debug_assert! expansion, or is only evaluated under its `cfg!(debug_assertions)` test)
            is_dbg = _dbg(bb) or any(_dbg(b2) for (b2, s2) in b.control_deps_trans(bb, "all"))
            if not (is_overflow or is_decision or is_dbg):
                extra.append(where(b, bb=bb))
        if extra:
            R.violation(key, b, "the in-place rehash is additionally conditioned on something other than `items + additional <= capacity / 2` (extra branch at %s): states in which tombstones should be reclaimed in place now grow the table instead (unbounded memory under churn)" % extra[0], line=line_of(b, bb=r))
            R.inst(key, "extra condition on the in-place path", "violation", True, where(b, bb=r))
        else:
            R.inst(key, "in-place rehash is controlled by the capacity comparison (and the overflow check) only", "ok", True, where(b, bb=r))
    return R


# --------------------------------------------------------------------- R-PAR-CONSUME / R-PAR-ORDER

def r_par_consume(F, V):
    """in the parallel drain leaf every element taken from the cursor is consumed (read) before the function can
    return or take the next one; and the intermediate lists are concatenated in source order."""
    R = Result("R-PAR-CONSUME", F.cfg)
    p = "external_trait_impls::rayon::raw::<ParDrainProducer as UnindexedProducer>::fold_with"
    b = F.bodies.get(p)
    if b is None:
        R.undec("%s not found" % p)
    else:
        nexts = [i for i, t in b.calls() if t["f"].get("method") == "next"]
        reads = [i for i, t in b.calls() if (callee_path(t) or "") in ("raw::Bucket::read", "raw::Bucket::drop")]
        key = p + "|taken-then-consumed"
        bad = False
        for nx in nexts:
            # the Some arm of the discriminant switch on this next() result
            for j in b.normal:
                if _is_exhaustion_branch(b, j):
                    d = b.single_def(b.single_def(b.term(j)["discr"]["p"]["l"])[3]["rv"]["p"]["l"])
                    if d and d[1] == nx:
                        some = [bb for v, bb in b.term(j)["targets"] if v == 1]
                        for s0 in some:
                            reach = b.reachable_from(s0, tuple(reads))
                            if any(r in reach for r in b.returns) or nx in reach:
                                bad = True
        if not nexts or not reads:
            R.undec("fold_with: next (%d) / Bucket::read (%d) not found" % (len(nexts), len(reads)))
        elif bad:
            R.violation(key, b, "an element taken from the cursor can reach a return (or the next iteration) without being read: when the consumer is full that element is neither delivered nor dropped later (leak)")
            R.inst(key, "element taken but not consumed on some path", "violation", True, where(b))
        else:
            R.inst(key, "every element taken from self.iter is read before return / next iteration", "ok", True, where(b))
    if b is not None:
        # the producer may be forgotten (its Drop - which drops the elements still in its range - skipped) only
        # once its cursor is exhausted: with the `None` edges of the loop's next() removed, no forget is reachable
        key = p + "|forget-only-when-exhausted"
        forgets = [i for i, t in b.calls() if (callee_path(t) or "") == "core::mem::forget"
                   and t["args"] and t["args"][0]["k"] in ("copy", "move") and "ParDrainProducer" in b.local_ty(t["args"][0]["p"]["l"])["s"]]
        cut = set()
        for j in b.normal:
            if _is_exhaustion_branch(b, j):
                tj = b.term(j)
                vals = [v for v, _ in tj["targets"]]
                for v, bb in tj["targets"]:
                    if v == 0:
                        cut.add((j, bb))
                if 0 not in vals and 1 in vals and tj.get("otherwise") is not None:
                    cut.add((j, tj["otherwise"]))   # `[1: some, otherwise: none]`
        seen, work = {0}, [0]
        while work:
            x = work.pop()
            for y in b.nsucc[x]:
                if (x, y) in cut or y in seen:
                    continue
                seen.add(y)
                work.append(y)
        if not forgets:
            R.inst(key, "fold_with never forgets the producer (its Drop always runs)", "ok", False, where(b))
        elif not cut:
            R.undec("fold_with: forget(self) present but no exhaustion branch of the cursor found")
        else:
            badf = [i for i in forgets if i in seen]
            if badf:
                R.violation(key, b, "mem::forget(self) can be reached without the producer's cursor being exhausted (e.g. by leaving the loop when the consumer is full): "
                            "the elements still in this producer's range are neither delivered nor dropped, and the table is then reset (leak)", line=line_of(b, bb=badf[0]))
                R.inst(key, "forget reachable without exhaustion", "violation", True, where(b, bb=badf[0]))
            else:
                R.inst(key, "forget(self) is reachable only through the None edge of self.iter.next()", "ok", True, where(b, bb=forgets[0]))
    c = F.bodies.get("external_trait_impls::rayon::helpers::collect")
    if c is None:
        R.undec("rayon helpers::collect not found")
    else:
        key = "external_trait_impls::rayon::helpers::collect|order"
        found = False
        # the reduce step: a closure of collect, or a named function of the helpers module handed to `.reduce(..)` by name
        cands = [q for q in F.bodies if q.startswith("external_trait_impls::rayon::helpers::") and q != c.path]
        for cp_ in sorted(set(list(F.reachable_fns(c.path)) + cands)):
            cb = F.bodies[cp_]
            if "{closure" not in cp_ and cp_ not in cands:
                continue
            apps = [(i, t) for i, t in cb.calls() if (callee_path(t) or "").endswith("LinkedList::append")]
            if not apps:
                continue
            found = True
            ok = len(apps) == 1
            first, second = (2, 3) if cb.kind == "Closure" else (1, 2)
            for i, t in apps:
                r0 = cb.root_of_place(t["args"][0]["p"])[0] if t["args"][0]["k"] in ("copy", "move") else None
                r1 = cb.root_of_place(t["args"][1]["p"])[0] if t["args"][1]["k"] in ("copy", "move") else None
                if not (r0 == first and r1 == second):
                    ok = False
                if controlling_sources(cb, i):
                    ok = False
            if ok:
                R.inst(key, "reduce step appends the right list to the left one unconditionally (source order kept)", "ok", True, where(cb))
            else:
                R.violation(key, cb, "the reduce step of the parallel collect does not unconditionally append the right-hand list to the left-hand one: elements are re-ordered, so for repeated keys par_extend / from_par_iter keep a different value than the sequential extend")
                R.inst(key, "lists concatenated out of order", "violation", True, where(cb))
        if not found:
            R.undec("helpers::collect: no LinkedList::append found")
    return R


# --------------------------------------------------------------------- R-SUBSET-LEN

def r_subset_len(F, V):
    """is_subset scans exactly when self.len() <= other.len()"""
    R = Result("R-SUBSET-LEN", F.cfg)
    b = F.bodies.get("set::HashSet::is_subset")
    if b is None:
        R.undec("set::HashSet::is_subset not found")
        return R
    scan = [i for i, t in b.calls() if t["f"].get("method") in ("all", "any") or (callee_path(t) or "").endswith("::all")]
    key = "set::HashSet::is_subset|len-guard"
    if not scan:
        R.violation(key, b, "is_subset has no element scan")
        return R
    rel = None
    for (bb, s, S) in controlling_sources(b, scan[0]):
        def is_self(Sx):
            return any(c.endswith("::len") and any(b.root_of_place(t["args"][0]["p"])[0] == 1 for _, t in lst) for c, lst in Sx.calls.items())

        def is_other(Sx):
            return any(c.endswith("::len") and any(b.root_of_place(t["args"][0]["p"])[0] == 2 for _, t in lst) for c, lst in Sx.calls.items())
        r = _relation(b, bb, s, is_self, is_other)
        if r:
            rel = r
    if rel == "<=":
        R.inst(key, "the scan runs exactly when self.len() <= other.len()", "ok", True, where(b, bb=scan[0]))
    elif rel is None:
        R.inst(key, "no length pre-check (the scan alone decides)", "ok", False, where(b, bb=scan[0]))
    else:
        R.violation(key, b, "is_subset scans when self.len() %s other.len(): for equal-sized (in particular equal) sets it answers false, so A == B while !A.is_subset(B)" % rel, line=line_of(b, bb=scan[0]))
        R.inst(key, "wrong length guard", "violation", True, where(b, bb=scan[0]))
    return R
