"""Rules of DESIGN.md 4.B around Fallibility: R-INFALLIBLE, R-FALLIBLE-THREAD,
R-FALLIBLE-NOPANIC, R-ERR-CLEAN."""
from core import callee_path, rv_operands
from rules.base import Result, where, line_of
from rules.accounting import partial_op_sites, mutation_kinds, operand_deep_root

FALL = "raw::Fallibility"
TRE = "TryReserveError"
FALL_FNS = ("raw::Fallibility::capacity_overflow", "raw::Fallibility::alloc_err")
TRANSPARENT = (
    "core::ops::try_trait::Try::branch",
    "core::ops::try_trait::FromResidual::from_residual",
    "core::result::Result::map_err",
    "core::result::Result::map",
    "core::result::Result::is_err",
    "core::result::Result::is_ok",
    "core::option::Option::ok_or_else",
    "core::option::Option::ok_or",
)


def variant_discr(F, adt, name):
    a = F.adts.get(adt)
    if not a:
        return None
    for v in a["variants"]:
        if v["name"] == name:
            return v["discr"]
    return None


def fall_params(body):
    """locals (args) of type Fallibility; for closures: upvar indices holding (&)Fallibility."""
    out = [l for l in range(1, body.arg_count + 1) if body.locals[l]["ty"].get("k") == "adt" and body.locals[l]["ty"].get("path") == FALL]
    return out


def closure_fall_upvars(body):
    if body.kind != "Closure":
        return []
    ty = body.locals[1]["ty"]
    while ty.get("k") == "ref":
        ty = ty["inner"]
    out = []
    for i, u in enumerate(ty.get("upvars", [])):
        t = u
        while t.get("k") == "ref":
            t = t["inner"]
        if t.get("k") == "adt" and t.get("path") == FALL:
            out.append(i)
    return out


def is_fall_const(F, o):
    """operand is a constant / unit aggregate of Fallibility: returns variant name or None"""
    if o["k"] == "const" and o.get("adt") == FALL:
        for v in F.adts[FALL]["variants"]:
            if v["discr"] == o.get("val"):
                return v["name"]
        return "?"
    return None


def fall_arg_kind(F, body, o):
    """classify the Fallibility-typed operand of a call: ('own', local) | ('const', variant) | ('upvar', i) | ('other',)"""
    c = is_fall_const(F, o)
    if c:
        return ("const", c)
    if o["k"] not in ("copy", "move"):
        return ("other",)
    r, path = body.root_of_place(o["p"])
    if r in fall_params(body):
        return ("own", r)
    if body.kind == "Closure" and r == 1:
        # (*_1).i  -> upvar i
        ups = closure_fall_upvars(body)
        for e in o["p"].get("proj", []) if o["p"]["l"] == 1 else []:
            pass
        for name in path:
            if name.isdigit() and int(name) in ups:
                return ("upvar", int(name))
    # local assigned from an aggregate Fallibility::X{}
    for d in body.whole_defs(r):
        if d[0] == "stmt" and d[3]["k"] == "assign":
            rv = d[3]["rv"]
            if rv["k"] == "aggregate" and rv.get("adt") == FALL:
                return ("const", rv["variant"])
            if rv["k"] == "use":
                c = is_fall_const(F, rv["op"])
                if c:
                    return ("const", c)
    return ("other",)


def callee_fall_param_positions(F, cp):
    b = F.bodies.get(cp)
    if not b:
        return []
    return [l - 1 for l in fall_params(b)]


def _mentions_tre(ty):
    return TRE in ty.get("s", "")


def r_infallible(F, V):
    R = Result("R-INFALLIBLE", F.cfg)
    inf = variant_discr(F, FALL, "Infallible")
    if inf is None:
        R.undec("enum raw::Fallibility / variant Infallible not found")
        return R
    # step 1: the Infallible arm of capacity_overflow / alloc_err diverges
    for fn in FALL_FNS:
        b = F.bodies.get(fn)
        if not b:
            R.undec("%s not found" % fn)
            continue
        ok = False
        for i in b.normal:
            t = b.term(i)
            if t["k"] == "switch":
                orig = b.origins(t["discr"])
                if any(o[0] == "discr" and b.root_of_place(o[1])[0] == 1 for o in orig):
                    tgt = None
                    for v, bb in t["targets"]:
                        if v == inf:
                            tgt = bb
                    if tgt is None:
                        tgt = t["otherwise"]
                    if b.can_reach_return(tgt):
                        R.violation("%s|infallible-arm-returns" % fn, b,
                                    "%s can return an error value when fallibility is Infallible: callers mark that case unreachable_unchecked" % fn,
                                    line=line_of(b, bb=tgt))
                        R.inst(fn, "Infallible arm reaches return", "violation", True, where(b, bb=tgt))
                    else:
                        R.inst(fn, "the Infallible arm diverges (panic / handle_alloc_error)", "ok", True, where(b, bb=tgt))
                    ok = True
        if not ok:
            R.undec("%s: no switch on the fallibility argument found" % fn)
    # step 2: every error produced in a body that has a Fallibility parameter comes from the fallibility fns
    # on its own parameter or from a callee that received its own parameter
    nb = 0
    for p, body in F.bodies.items():
        own = fall_params(body)
        ups = closure_fall_upvars(body)
        if not own and not ups:
            continue
        if p in FALL_FNS:
            continue
        nb += 1
        bad = []
        for i, k, s in body.stmts():
            if s["k"] == "assign":
                rv = s["rv"]
                if rv["k"] == "aggregate" and rv.get("adt") == TRE:
                    bad.append((line_of(body, stmt=s), "constructs TryReserveError::%s directly" % rv["variant"]))
                for o in rv_operands(rv):
                    if o["k"] == "const" and o.get("adt") == TRE:
                        bad.append((line_of(body, stmt=s), "uses a constant TryReserveError"))
        for i, t in body.calls():
            cp = callee_path(t)
            if cp is None:
                continue
            if cp in FALL_FNS:
                k = fall_arg_kind(F, body, t["args"][0])
                if k[0] not in ("own", "upvar"):
                    bad.append((line_of(body, bb=i), "calls %s on %s instead of its own fallibility parameter" % (cp, k)))
                continue
            pos = callee_fall_param_positions(F, cp)
            if pos:
                for q in pos:
                    k = fall_arg_kind(F, body, t["args"][q]) if q < len(t["args"]) else ("other",)
                    if k[0] not in ("own", "upvar"):
                        bad.append((line_of(body, bb=i), "passes %s to %s instead of its own fallibility parameter" % (k, cp)))
                continue
            dty = body.locals[t["dest"]["l"]]["ty"]
            decl = t["f"].get("path")
            if _mentions_tre(dty) and decl not in TRANSPARENT and cp not in TRANSPARENT:
                bad.append((line_of(body, bb=i), "obtains a TryReserveError-carrying value from %s, which takes no fallibility" % cp))
        if bad:
            ln, msg = bad[0]
            R.violation("%s|err-not-from-fallibility" % p, body,
                        "in a function parameterised by Fallibility an error can arise that is not governed by that parameter (%s): with Infallible the caller's unreachable_unchecked becomes reachable" % msg,
                        line=ln, all=[m for _, m in bad])
            R.inst(p, msg, "violation", True)
        else:
            R.inst(p, "all error values come from Fallibility::{capacity_overflow,alloc_err} on the own parameter or from callees given the own parameter", "ok", True, where(body))
    R.floor("bodies with a Fallibility parameter", nb, {"posctl": 1}.get(F.cfg, 8))
    # step 3: unreachable_unchecked after an Err test is fed by the constant Infallible
    ns = 0
    for p, body in F.bodies.items():
        for i, t in body.calls():
            if callee_path(t) != "core::hint::unreachable_unchecked":
                continue
            deps = body.control_deps_trans(i, "all")
            src_call = None
            for (b, s) in deps:
                tt = body.term(b)
                if tt["k"] != "switch":
                    continue
                for o in body.origins(tt["discr"]):
                    cand = None
                    if o[0] == "discr":
                        r, _ = body.root_of_place(o[1])
                        if _mentions_tre(body.locals[r]["ty"]):
                            cand = r
                    elif o[0] == "call" and (callee_path(o[2]) or "") in ("core::result::Result::is_err", "core::result::Result::is_ok") and o[2]["args"]:
                        a = o[2]["args"][0]
                        if a["k"] in ("copy", "move"):
                            r, _ = body.root_of_place(a["p"])
                            if _mentions_tre(body.locals[r]["ty"]):
                                cand = r
                    if cand is not None:
                        ds = [d for d in body.whole_defs(cand) if d[0] == "call"]
                        if ds:
                            src_call = ds[0][3]
            if src_call is None:
                continue  # not an Err-guarded site (layout sites are R-LAYOUT-SOURCE's)
            ns += 1
            cp = callee_path(src_call)
            pos = callee_fall_param_positions(F, cp)
            key = "%s|unreachable-after-%s" % (p, (cp or "?").split("::")[-1])
            if not pos:
                R.violation(key, body, "unreachable_unchecked() guards the Err of %s, which takes no fallibility argument" % cp, line=line_of(body, bb=i))
                R.inst(key, "Err of a call without fallibility marked unreachable", "violation", True, where(body, bb=i))
                continue
            k = fall_arg_kind(F, body, src_call["args"][pos[0]])
            if k == ("const", "Infallible"):
                R.inst(key, "Err arm of %s(.., Fallibility::Infallible) is unreachable_unchecked" % cp, "ok", True, where(body, bb=i))
            else:
                R.violation(key, body,
                            "unreachable_unchecked() on the Err arm of %s, but the fallibility passed is %s, not the constant Infallible: an allocation failure or capacity overflow is immediate undefined behaviour" % (cp, k),
                            line=line_of(body, bb=i))
                R.inst(key, "Err arm unreachable but fallibility is %s" % (k,), "violation", True, where(body, bb=i))
    R.floor("unreachable_unchecked sites guarded by an Err test", ns, {"posctl": 1}.get(F.cfg, 5))
    return R


def r_fallible_thread(F, V):
    """constants of type Fallibility are passed only by bodies that have no Fallibility parameter (the public roots)."""
    R = Result("R-FALLIBLE-THREAD", F.cfg)
    roots = 0
    threaded = 0
    for p, body in F.bodies.items():
        own = fall_params(body) or closure_fall_upvars(body)
        for i, t in body.calls():
            cp = callee_path(t)
            if cp is None:
                continue
            pos = callee_fall_param_positions(F, cp)
            if cp in FALL_FNS:
                pos = [0]
            for q in pos:
                if q >= len(t["args"]):
                    continue
                k = fall_arg_kind(F, body, t["args"][q])
                key = "%s|->%s" % (p, cp.split("::")[-1])
                if own:
                    threaded += 1
                    if k[0] in ("own", "upvar"):
                        R.inst(key, "threads its own fallibility to %s" % cp, "ok", True, where(body, bb=i))
                    else:
                        R.violation(key, body, "passes %s to %s instead of threading its own fallibility parameter: try_reserve would panic/abort, or an infallible caller would see Err" % (k, cp),
                                    line=line_of(body, bb=i))
                        R.inst(key, "constant fallibility inside the fallible tree", "violation", True, where(body, bb=i))
                else:
                    roots += 1
                    if k[0] == "const":
                        R.inst(key, "root passes Fallibility::%s to %s" % (k[1], cp), "ok", False, where(body, bb=i), variant=k[1])
                    else:
                        R.violation(key, body, "fallibility passed to %s is neither a constant nor an own parameter" % cp, line=line_of(body, bb=i))
    # the fallible public root must pass Fallible
    tr = F.bodies.get("raw::RawTable::try_reserve")
    if tr is None:
        R.undec("raw::RawTable::try_reserve not found")
    else:
        ok = False
        for i, t in tr.calls():
            cp = callee_path(t)
            for q in callee_fall_param_positions(F, cp or ""):
                k = fall_arg_kind(F, tr, t["args"][q])
                if k == ("const", "Fallible"):
                    ok = True
                else:
                    R.violation("raw::RawTable::try_reserve|not-fallible", tr, "try_reserve passes %s: failures would panic instead of being reported" % (k,), line=line_of(tr, bb=i))
        if ok:
            R.inst("raw::RawTable::try_reserve|Fallible", "try_reserve passes the constant Fallible", "ok", True, where(tr))
        else:
            R.undec("try_reserve: no call with a fallibility argument found")
    R.floor("root call sites passing a constant fallibility", roots, {"posctl": 1}.get(F.cfg, 6))
    R.floor("threaded fallibility call sites", threaded, {"posctl": 0}.get(F.cfg, 8))
    return R


PANIC_FNS_PREFIX = ("core::panicking::", "std::panicking::", "alloc::alloc::handle_alloc_error", "core::option::expect_failed", "core::result::unwrap_failed")
PANIC_METHODS = ("core::option::Option::unwrap", "core::option::Option::expect", "core::result::Result::unwrap", "core::result::Result::expect",
                 "core::result::Result::unwrap_err", "core::result::Result::expect_err")


def _in_debug_assert(sp):
    return any(m.startswith("debug_assert") for m in (sp or {}).get("mac", []))


FALLIBLE_SOURCES = ("checked_", "overflowing_", "calculate_layout", "do_alloc", "allocate", "capacity_to_buckets", "Layout", "new_uninitialized",
                    "fallible_with_capacity", "try_", "with_capacity", "next_power_of_two", "resize_inner", "prepare_resize", "reserve_rehash")


def _stated_unreachable(body, i, t):
    """the panic is the expansion of `unreachable!` and no condition it is control dependent on derives from a computation that
    can fail for a large request (size arithmetic, layout, allocation)"""
    macs = list((t.get("sp") or {}).get("mac", [])) + list((t.get("sp_full") or {}).get("mac", []))
    if not any(m == "unreachable" or m.endswith("::unreachable") or "unreachable_20" in m for m in macs):
        return False
    from cond import controlling_sources
    for (b, s, S) in controlling_sources(body, i):
        if S.indirect:
            return False
        for c in list(S.calls) + list(S.via):
            if any(x in c for x in FALLIBLE_SOURCES):
                return False
    return True


def r_fallible_nopanic(F, V):
    R = Result("R-FALLIBLE-NOPANIC", F.cfg)
    root = "raw::RawTable::try_reserve"
    if root not in F.bodies:
        R.undec("%s not found" % root)
        return R
    inf = variant_discr(F, FALL, "Infallible")
    reach = F.reachable_fns(root)
    nsites = 0
    asserts = 0
    for p in sorted(reach):
        body = F.bodies[p]
        for i in body.normal:
            t = body.term(i)
            if t["k"] == "assert":
                asserts += 1
                continue
            if t["k"] != "call":
                continue
            cp = callee_path(t) or ""
            if not (cp.startswith(PANIC_FNS_PREFIX) or cp in PANIC_METHODS):
                continue
            nsites += 1
            sp = t.get("sp_full") or t.get("sp")
            key = "%s|%s" % (p, cp.split("::")[-1])
            if _in_debug_assert(t.get("sp")) or _in_debug_assert(t.get("sp_full")):
                R.inst(key, "panic site inside a debug_assert expansion", "ok", False, where(body, bb=i))
                continue
            if _stated_unreachable(body, i, t):
                R.inst(key, "unreachable!() whose controlling conditions involve no size arithmetic, layout or allocation result: a stated invariant of the table (like a debug assertion), not a way of reporting a failed reservation", "ok", False, where(body, bb=i))
                continue
            if cp in PANIC_METHODS and _guarded_unwrap(body, i, t):
                R.inst(key, "unwrap() control-dependent on is_some()/is_ok() of the same value: cannot panic", "ok", True, where(body, bb=i))
                continue
            if p in FALL_FNS:
                # must be on the Infallible arm only
                on_inf = False
                for (b, s) in body.control_deps_trans(i, "all"):
                    tt = body.term(b)
                    if tt["k"] == "switch":
                        for v, bb in tt["targets"]:
                            if v == inf and bb == s:
                                on_inf = True
                        if s == tt["otherwise"] and inf not in [v for v, _ in tt["targets"]]:
                            on_inf = True
                if on_inf:
                    R.inst(key, "panic on the Infallible arm only", "ok", True, where(body, bb=i))
                    continue
            R.violation(key, body, "explicit panic site (%s) is reachable from try_reserve outside debug assertions and outside the Infallible arms: try_reserve must report failure, not panic" % cp,
                        line=line_of(body, bb=i), reachable_via=root)
            R.inst(key, "panic reachable from try_reserve", "violation", True, where(body, bb=i))
    R.info["bodies reachable from try_reserve"] = len(reach)
    R.info["overflow/bounds asserts listed (not judged)"] = asserts
    R.inst("reach", "%d crate bodies reachable from try_reserve scanned for explicit panic sites" % len(reach), "ok", True)
    R.floor("bodies reachable from try_reserve", len(reach), 15)
    return R


def _guarded_unwrap(body, i, t):
    """`x.unwrap()` executed only on the true arm of `x.is_some()` / `x.is_ok()` of the same local."""
    if not t["args"] or t["args"][0]["k"] not in ("copy", "move"):
        return False
    r, _ = body.root_of_place(t["args"][0]["p"])
    for (b, s) in body.control_deps_trans(i, "all"):
        tt = body.term(b)
        if tt["k"] != "switch":
            continue
        zero = [bb for v, bb in tt["targets"] if v == 0]
        on_true = s not in zero
        for o in body.origins(tt["discr"]):
            if o[0] != "call" or not o[2]["args"]:
                continue
            cpo = callee_path(o[2]) or ""
            a = o[2]["args"][0]
            same = a["k"] in ("copy", "move") and body.root_of_place(a["p"])[0] == r
            # reached on the true arm of is_some()/is_ok(), or on the false arm of is_none()/is_err() (early `return` form)
            if same and on_true and cpo in ("core::option::Option::is_some", "core::result::Result::is_ok"):
                return True
            if same and not on_true and cpo in ("core::option::Option::is_none", "core::result::Result::is_err"):
                return True
    return False


ALLOC_FNS = ("raw::alloc::inner::do_alloc", "raw::RawTableInner::new_uninitialized", "raw::RawTableInner::fallible_with_capacity",
             "raw::RawTableInner::prepare_resize", "raw::RawTable::new_uninitialized", "raw::RawTable::try_with_capacity_in",
             "raw::RawTableInner::with_capacity")


def _err_exit_blocks(body):
    """blocks that put an Err into the return place (directly, or into a local that is then moved into the return place -
    the return slot of a helper that was inlined into this body)."""
    rets = {0}
    changed = True
    while changed:
        changed = False
        for i, k, s in body.stmts():
            if s["k"] == "assign" and not s["p"].get("proj") and s["p"]["l"] in rets and s["rv"]["k"] == "use" \
                    and s["rv"]["op"]["k"] in ("copy", "move") and not s["rv"]["op"]["p"].get("proj") and s["rv"]["op"]["p"]["l"] not in rets \
                    and body.locals[s["rv"]["op"]["p"]["l"]]["ty"]["s"] == body.locals[0]["ty"]["s"]:
                rets.add(s["rv"]["op"]["p"]["l"])
                changed = True
    out = []
    for i in body.normal:
        bb = body.blocks[i]
        for s in bb["stmts"]:
            if s["k"] == "assign" and s["p"]["l"] in rets and not s["p"].get("proj"):
                rv = s["rv"]
                if rv["k"] == "aggregate" and rv.get("variant") == "Err":
                    out.append(i)
        t = bb["term"]
        if t["k"] == "call" and t["dest"]["l"] in rets and not t["dest"].get("proj"):
            if t["f"].get("path") == "core::ops::try_trait::FromResidual::from_residual":
                out.append(i)
    return out


def r_err_clean(F, V):
    R = Result("R-ERR-CLEAN", F.cfg)
    root = "raw::RawTable::try_reserve"
    if root not in F.bodies:
        R.undec("%s not found" % root)
        return R
    mk = mutation_kinds(V, F)
    reach = F.reachable_fns(root)
    n = 0
    for p in sorted(reach):
        body = F.bodies[p]
        if not _mentions_tre(body.locals[0]["ty"]):
            continue
        errs = _err_exit_blocks(body)
        if not errs:
            continue
        n += 1
        bad = None
        # (1) partial ops / mutator calls on argument-rooted objects before an Err exit
        for s in partial_op_sites(V, body):
            if s["root"] is not None and body.is_arg(s["root"]):
                after = set()
                for x in body.nsucc[s["bb"]]:
                    after |= body.reachable_from(x)
                if any(e in after for e in errs):
                    bad = (s["bb"], "an error return is reachable after %s on an argument's table" % s["desc"])
        for i, t in body.calls():
            cp = callee_path(t)
            if cp in F.bodies and mk.get(cp) and t["args"]:
                r, _ = operand_deep_root(body, t["args"][0])
                cb = F.bodies[cp]
                recv = cb.locals[1]["ty"] if cb.arg_count >= 1 else {}
                takes_mut = recv.get("k") == "ref" and recv.get("mut")
                if r is not None and body.is_arg(r) and takes_mut:
                    after = set()
                    for x in body.nsucc[i]:
                        after |= body.reachable_from(x)
                    # the error of this very call is judged inside the callee
                    errs_after = [e for e in errs if e in after and not _err_from_call(body, e, i)]
                    if errs_after:
                        bad = (i, "an error return is reachable after the table-mutating call %s" % cp)
        # (1b) releasing the block or overwriting the whole table of an argument before an error exit
        for i, t in body.calls():
            cp = callee_path(t) or ""
            f = t["f"]
            dirty = None
            if cp.endswith("::free_buckets") or cp.endswith("::drop_inner_table") or (f["k"] == "fn" and f.get("method") == "deallocate"):
                dirty = "releases the table's block (%s)" % cp
            elif cp in ("core::mem::replace", "core::mem::swap", "core::ptr::write", "core::mem::take") and any(x == "raw::RawTableInner" or x.startswith("raw::RawTable<") for x in f.get("substs", [])):
                dirty = "overwrites the whole table (%s)" % cp
            if dirty and t["args"]:
                r, _ = operand_deep_root(body, t["args"][0])
                if r is not None and body.is_arg(r):
                    after = set()
                    for x in body.nsucc[i]:
                        after |= body.reachable_from(x)
                    if any(e in after for e in errs):
                        bad = (i, "an error return is reachable after the body %s" % dirty)
        for i, k, s in body.stmts():
            if s["k"] == "assign" and s["p"].get("proj") and s["p"].get("t") in ("raw::RawTableInner",) and s["p"]["proj"][-1]["k"] == "deref":
                r, _ = body.root_of_place(s["p"])
                if body.is_arg(r):
                    after = body.reachable_from(i)
                    if any(e in after for e in errs):
                        bad = (i, "an error return is reachable after the whole table of an argument was overwritten (`*self = ..`)")
        # (2) Err exit after a successful allocation whose owner is not a guard
        for i, t in body.calls():
            cp = callee_path(t)
            if cp not in ALLOC_FNS:
                continue
            for j in body.normal:
                tt = body.term(j)
                if tt["k"] != "switch":
                    continue
                if not any(o[0] == "call" and o[1] == i for o in body.origins(tt["discr"])):
                    continue
                ok_t = [bb for v, bb in tt["targets"] if v == 0]
                for bb in ok_t:
                    after = body.reachable_from(bb)
                    late = [e for e in errs if e in after]
                    if late and "ScopeGuard" not in body.locals[t["dest"]["l"]]["ty"]["s"]:
                        bad = (late[0], "an error return is reachable after %s succeeded: the new allocation would be leaked" % cp)
        if bad:
            R.violation("%s|dirty-err-exit" % p, body, "on the try_reserve path %s (on error the collection must be exactly as before and nothing leaked)" % bad[1], line=line_of(body, bb=bad[0]))
            R.inst(p, bad[1], "violation", True, where(body, bb=bad[0]))
        else:
            R.inst(p, "%d error exits, each before the first table write and after no successful allocation" % len(errs), "ok", True, where(body))
    R.floor("fallible bodies with error exits", n, 4)
    return R


def _err_from_call(body, err_block, call_block):
    """the Err returned at err_block is the propagated result of the call at call_block"""
    bb = body.blocks[err_block]
    ops = []
    for s in bb["stmts"]:
        if s["k"] == "assign" and s["p"]["l"] == 0:
            ops += rv_operands(s["rv"])
    t = bb["term"]
    if t["k"] == "call" and t["dest"]["l"] == 0:
        ops += t["args"]
    for o in ops:
        for og in body.origins(o):
            if og[0] == "call" and og[1] == call_block:
                return True
    return False
