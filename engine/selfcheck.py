"""Positive controls (posctl crate) and mutant self-test. Filled in below."""
import os
import extract


def smoke():
    if not os.path.exists(extract.DRIVER):
        print("driver missing")
        return 1
    print("hbv setup: extractor built at", extract.DRIVER)
    return 0


def selftest(names):
    print("selftest: not implemented yet")
    return 0
