"""Self-test of the checker, both ways (DESIGN.md section 9):
  * every mutants/*.patch and seeded/*/patch*.diff applied to a scratch worktree of /repo HEAD must make the
    expected property's check fire (exit 1 + VIOLATION), naming the expected rule when one is given;
  * every mutants/benign/*.patch (behaviour-preserving edits) must leave every claimed check at exit 0.
Scratch worktrees live under tempfile and are removed after each patch."""
import concurrent.futures
import json
import os
import re
import subprocess
import sys
import tempfile

import extract

VERIF = extract.VERIF


def smoke():
    if not os.path.exists(extract.DRIVER):
        print("driver missing")
        return 1
    print("hbv setup: extractor built at", extract.DRIVER)
    return 0


def _claimed():
    with open(os.path.join(VERIF, "MANIFEST.json")) as f:
        return [c["property_id"] for c in json.load(f)["checks"]]


def _run_patch(patch, props, tier="quick"):
    """returns {prop: (rc, rules, text)} or {'_error': ..}"""
    wt = tempfile.mkdtemp(prefix="hbv-self.")
    out = {}
    try:
        r = subprocess.run(["git", "-C", extract.REPO, "worktree", "add", "-q", "--detach", wt, "HEAD"], stdout=subprocess.PIPE, stderr=subprocess.STDOUT, text=True)
        if r.returncode != 0:
            return {"_error": "worktree: " + r.stdout}
        r = subprocess.run(["git", "apply", patch], cwd=wt, stdout=subprocess.PIPE, stderr=subprocess.STDOUT, text=True)
        if r.returncode != 0:
            return {"_error": "patch does not apply to /repo HEAD"}
        env = dict(os.environ, HBV_REPO=wt, HBV_NO_EVIDENCE="1")
        for p in props:
            r = subprocess.run([os.path.join(VERIF, "hbv"), "check", p, "--tier", tier], cwd=VERIF, env=env, stdout=subprocess.PIPE, stderr=subprocess.STDOUT, text=True)
            rules = sorted(set(re.findall(r"\[((?:R|W)-[A-Z-]+)\]", r.stdout)))
            out[p] = (r.returncode, rules, r.stdout[-1500:])
    finally:
        subprocess.run(["git", "-C", extract.REPO, "worktree", "remove", "--force", wt], stdout=subprocess.DEVNULL, stderr=subprocess.DEVNULL)
        subprocess.run(["rm", "-rf", wt])
    return out


def _corpus(only_props=None):
    items = []
    md = os.path.join(VERIF, "mutants")
    for f in sorted(os.listdir(md)):
        if not f.endswith(".patch"):
            continue
        head = open(os.path.join(md, f)).read(600)
        rule = (re.search(r"^# expected-rule: (\S+)", head, re.M) or [None, None])[1]
        prop = (re.search(r"^# expected-property: (\S+)", head, re.M) or [None, None])[1]
        tier = (re.search(r"^# tier: (\S+)", head, re.M) or [None, "quick"])[1]
        items.append({"name": "mutants/" + f[:-6], "patch": os.path.join(md, f), "prop": prop, "rule": rule, "kind": "mutant", "tier": tier})
    sd = os.path.join(VERIF, "seeded")
    for d in sorted(os.listdir(sd)):
        pd = os.path.join(sd, d)
        if not os.path.isdir(pd):
            continue
        patch = os.path.join(pd, "patch.rebased.diff")
        if not os.path.exists(patch):
            patch = os.path.join(pd, "patch.diff")
        meta = json.load(open(os.path.join(pd, "meta.json")))
        exp = meta.get("expected_detection")
        items.append({"name": "seeded/" + d, "patch": patch, "prop": meta["breaks_property"], "rule": None, "kind": "seeded", "expected": exp, "tier": meta.get("tier", "quick")})
    bd = os.path.join(md, "benign")
    for f in sorted(os.listdir(bd)) if os.path.isdir(bd) else []:
        if f.endswith(".patch"):
            items.append({"name": "benign/" + f[:-6], "patch": os.path.join(bd, f), "prop": None, "rule": None, "kind": "benign"})
    if only_props:
        items = [i for i in items if i["kind"] == "benign" or i["prop"] in only_props]
    return items


def selftest(args):
    only = [a for a in args if re.match(r"^C\d+$", a)]
    names = [a for a in args if not re.match(r"^C\d+$", a) and not a.startswith("--")]
    items = _corpus(only or None)
    if names:
        items = [i for i in items if any(n in i["name"] for n in names)]
    if "--no-benign" in args:
        items = [i for i in items if i["kind"] != "benign"]
    claimed = _claimed()
    failures = []
    known_missed = _known_missed()

    def work(it):
        if it["kind"] == "benign":
            props = only or claimed
        else:
            props = [it["prop"]] if it["prop"] in claimed else []
        if not props:
            return it, {"_skip": "property not claimed"}
        return it, _run_patch(it["patch"], props, it.get("tier", "quick"))

    with concurrent.futures.ThreadPoolExecutor(max_workers=int(os.environ.get("HBV_JOBS", "6"))) as ex:
        for it, res in ex.map(work, items):
            if "_error" in res or "_skip" in res:
                print("  SKIP   %-45s %s" % (it["name"], res.get("_error") or res.get("_skip")))
                continue
            if it["kind"] == "benign":
                bad = {p: v for p, v in res.items() if v[0] != 0}
                if bad:
                    failures.append(it["name"])
                    for p, v in bad.items():
                        print("  FALSE-ALARM %-40s %s rc=%d %s" % (it["name"], p, v[0], v[1]))
                else:
                    print("  silent %-45s on %d checks" % (it["name"], len(res)))
            else:
                rc, rules, text = res[it["prop"]]
                ok = rc == 1 and (not it["rule"] or it["rule"] in rules)
                if ok:
                    print("  fires  %-45s %s %s" % (it["name"], it["prop"], rules))
                elif it["name"] in known_missed:
                    print("  missed %-45s %s (listed in seeded/KNOWN_MISSED.json: %s)" % (it["name"], it["prop"], known_missed[it["name"]][:80]))
                else:
                    failures.append(it["name"])
                    print("  MISSED %-45s %s rc=%d rules=%s expected=%s" % (it["name"], it["prop"], rc, rules, it["rule"]))
    if failures:
        print("selftest: %d unexpected result(s): %s" % (len(failures), failures))
        return 1
    print("selftest: all %d corpus entries behaved as expected" % len(items))
    return 0


def _known_missed():
    p = os.path.join(VERIF, "seeded", "KNOWN_MISSED.json")
    if os.path.exists(p):
        return json.load(open(p))
    return {}


def hook(pid, tier, repo=None):
    """thorough-tier hook: self-test restricted to the corpus entries of this property (only on the real /repo)."""
    if repo or os.environ.get("HBV_REPO") or os.environ.get("HBV_IN_SELFTEST"):
        return {"results": [], "undecided": [], "info": {}}
    env = dict(os.environ, HBV_IN_SELFTEST="1")
    r = subprocess.run([os.path.join(VERIF, "hbv"), "selftest", pid, "--no-benign"], cwd=VERIF, env=env, stdout=subprocess.PIPE, stderr=subprocess.STDOUT, text=True)
    fires = len(re.findall(r"^  fires ", r.stdout, re.M))
    missed = re.findall(r"^  MISSED\s+(\S+)", r.stdout, re.M)
    und = []
    if missed:
        und.append("selftest: the checker no longer detects corpus mutation(s) %s of this property" % missed)
    return {"results": [], "undecided": und, "info": {"selftest": {"mutations_detected": fires, "not_detected": missed, "listed_as_missed": len(re.findall(r"^  missed ", r.stdout, re.M))}}}
