//! hbv-extract: a rustc driver that dumps the type-checked program of the
//! `hashbrown` crate (MIR control-flow graphs with resolved callees, ADTs,
//! impls, signatures with regions, auto-trait solver facts, constants) as one
//! JSON file per rustc process. No code of the analysed crate is executed;
//! only constant *items* without generic parameters are const-evaluated.
#![feature(rustc_private)]
#![allow(clippy::all)]

extern crate rustc_abi;
extern crate rustc_data_structures;
extern crate rustc_driver;
extern crate rustc_hir;
extern crate rustc_infer;
extern crate rustc_interface;
extern crate rustc_middle;
extern crate rustc_session;
extern crate rustc_span;
extern crate rustc_trait_selection;

mod json;
use json::J;

use rustc_driver::Compilation;
use rustc_hir::def::DefKind;
use rustc_hir::def_id::{DefId, LocalDefId};
use rustc_hir::definitions::DefPathData;
use rustc_infer::infer::TyCtxtInferExt;
use rustc_middle::mir::{
    self, AggregateKind, BasicBlockData, Body, BorrowKind, CastKind, ConstOperand, ConstValue,
    NonDivergingIntrinsic, Operand, Place, ProjectionElem, Rvalue, StatementKind, TerminatorKind,
    UnwindAction,
};
use rustc_middle::ty::print::with_no_trimmed_paths;
use rustc_middle::ty::{self, GenericArgsRef, Ty, TyCtxt, TypeVisitableExt, TypingEnv, TypingMode, Upcast};
use rustc_span::{Span, sym};
use rustc_trait_selection::infer::InferCtxtExt;
use std::collections::HashMap;

struct NoCb;
impl rustc_driver::Callbacks for NoCb {}

struct Extract {
    out: String,
    cfg: String,
}

impl rustc_driver::Callbacks for Extract {
    fn after_analysis<'tcx>(
        &mut self,
        _compiler: &rustc_interface::interface::Compiler,
        tcx: TyCtxt<'tcx>,
    ) -> Compilation {
        let facts = with_no_trimmed_paths!(Cx::new(tcx).collect(&self.cfg));
        let mut s = String::with_capacity(1 << 24);
        facts.write(&mut s);
        let path = format!("{}/{}.facts.json", self.out, self.cfg);
        std::fs::write(&path, s).expect("write facts");
        Compilation::Continue
    }
}

fn main() -> std::process::ExitCode {
    let mut args: Vec<String> = std::env::args().collect();
    // Under RUSTC_WORKSPACE_WRAPPER cargo passes the real rustc path as argv[1].
    if args.len() > 1 && (args[1].ends_with("rustc") || args[1].ends_with("rustc.exe")) {
        args.remove(1);
    }
    let crate_name =
        args.windows(2).find(|w| w[0] == "--crate-name").map(|w| w[1].clone()).unwrap_or_default();
    let out = std::env::var("HBV_OUT").ok();
    let wanted = std::env::var("HBV_CRATE").unwrap_or_else(|_| "hashbrown".to_string());
    let code = if crate_name == wanted && out.is_some() {
        let mut cb =
            Extract { out: out.unwrap(), cfg: std::env::var("HBV_CFG").unwrap_or("cfg".into()) };
        rustc_driver::catch_with_exit_code(|| rustc_driver::run_compiler(&args, &mut cb))
    } else {
        rustc_driver::catch_with_exit_code(|| rustc_driver::run_compiler(&args, &mut NoCb))
    };
    code
}

struct Cx<'tcx> {
    tcx: TyCtxt<'tcx>,
    path_cache: std::cell::RefCell<HashMap<DefId, String>>,
    n_calls: std::cell::Cell<usize>,
}

macro_rules! obj {
    ($($k:literal : $v:expr),* $(,)?) => { J::Obj(vec![$(($k, $v)),*]) };
}

impl<'tcx> Cx<'tcx> {
    fn new(tcx: TyCtxt<'tcx>) -> Self {
        Cx { tcx, path_cache: Default::default(), n_calls: Default::default() }
    }

    // ---------------------------------------------------------------- paths

    /// Normalised definition path: `raw::RawTableInner::rehash_in_place::{closure#0}`,
    /// `map::<HashMap as Clone>::clone_from`, `core::mem::forget`.
    fn npath(&self, did: DefId) -> String {
        if let Some(s) = self.path_cache.borrow().get(&did) {
            return s.clone();
        }
        let tcx = self.tcx;
        let mut segs: Vec<String> = Vec::new();
        let mut cur = did;
        loop {
            let key = tcx.def_key(cur);
            match key.disambiguated_data.data {
                DefPathData::CrateRoot => break,
                DefPathData::Impl => segs.push(self.impl_seg(cur)),
                DefPathData::Closure => {
                    segs.push(format!("{{closure#{}}}", key.disambiguated_data.disambiguator))
                }
                DefPathData::ForeignMod => {}
                other => {
                    let n = match other.get_opt_name() {
                        Some(n) => n.to_string(),
                        None => format!("{{{:?}#{}}}", other, key.disambiguated_data.disambiguator),
                    };
                    segs.push(n);
                }
            }
            match key.parent {
                Some(p) => cur = DefId { krate: cur.krate, index: p },
                None => break,
            }
        }
        if !did.is_local() {
            segs.push(tcx.crate_name(did.krate).to_string());
        }
        segs.reverse();
        let s = segs.join("::");
        self.path_cache.borrow_mut().insert(did, s.clone());
        s
    }

    fn ty_head(&self, ty: Ty<'tcx>) -> String {
        match ty.kind() {
            ty::Adt(def, _) => self.tcx.item_name(def.did()).to_string(),
            ty::Ref(_, inner, m) => {
                format!("&{}{}", if m.is_mut() { "mut " } else { "" }, self.ty_head(*inner))
            }
            ty::RawPtr(inner, m) => {
                format!("*{} {}", if m.is_mut() { "mut" } else { "const" }, self.ty_head(*inner))
            }
            ty::Param(p) => p.name.to_string(),
            _ => format!("{}", ty),
        }
    }

    fn impl_seg(&self, impl_did: DefId) -> String {
        let tcx = self.tcx;
        let self_ty = tcx.type_of(impl_did).instantiate_identity().skip_norm_wip();
        let head = self.ty_head(self_ty);
        match tcx.impl_opt_trait_ref(impl_did) {
            None => {
                // distinguish inherent impls on different instantiations only by head
                head
            }
            Some(tr) => {
                let tr = tr.instantiate_identity().skip_norm_wip();
                let tname = tcx.item_name(tr.def_id).to_string();
                let extra: Vec<String> = tr.args.iter().skip(1).map(|a| format!("{}", a)).collect();
                if extra.is_empty() {
                    format!("<{} as {}>", head, tname)
                } else {
                    format!("<{} as {}<{}>>", head, tname, extra.join(", "))
                }
            }
        }
    }

    // ---------------------------------------------------------------- types

    fn region_s(&self, r: ty::Region<'tcx>) -> String {
        match r.kind() {
            ty::ReStatic => "'static".to_string(),
            ty::ReErased => "'erased".to_string(),
            ty::ReEarlyParam(ep) => ep.name.to_string(),
            _ => format!("{:?}", r),
        }
    }

    fn ty_json(&self, ty: Ty<'tcx>, depth: u32) -> J {
        let s = format!("{}", ty);
        let param = ty.has_param();
        if depth == 0 {
            return obj! {"k": J::s("deep"), "s": J::s(s), "param": J::Bool(param)};
        }
        match ty.kind() {
            ty::Adt(def, args) => {
                let mut targs = vec![];
                let mut regions = vec![];
                let mut consts = vec![];
                for a in args.iter() {
                    if let Some(t) = a.as_type() {
                        targs.push(self.ty_json(t, depth - 1));
                    } else if let Some(r) = a.as_region() {
                        regions.push(J::s(self.region_s(r)));
                    } else {
                        consts.push(J::s(format!("{}", a)));
                    }
                }
                obj! {"k": J::s("adt"), "s": J::s(s), "path": J::s(self.npath(def.did())),
                "args": J::Arr(targs), "regions": J::Arr(regions), "consts": J::Arr(consts), "param": J::Bool(param)}
            }
            ty::Ref(r, inner, m) => {
                obj! {"k": J::s("ref"), "s": J::s(s), "mut": J::Bool(m.is_mut()),
                "region": J::s(self.region_s(*r)), "inner": self.ty_json(*inner, depth - 1), "param": J::Bool(param)}
            }
            ty::RawPtr(inner, m) => {
                obj! {"k": J::s("ptr"), "s": J::s(s), "mut": J::Bool(m.is_mut()),
                "inner": self.ty_json(*inner, depth - 1), "param": J::Bool(param)}
            }
            ty::Param(p) => obj! {"k": J::s("param"), "s": J::s(s), "name": J::s(p.name.to_string()), "param": J::Bool(true)},
            ty::Tuple(elems) => {
                obj! {"k": J::s("tuple"), "s": J::s(s), "elems": J::Arr(elems.iter().map(|t| self.ty_json(t, depth - 1)).collect()), "param": J::Bool(param)}
            }
            ty::Array(inner, _) | ty::Slice(inner) => {
                obj! {"k": J::s(if matches!(ty.kind(), ty::Array(..)) {"array"} else {"slice"}), "s": J::s(s),
                "inner": self.ty_json(*inner, depth - 1), "param": J::Bool(param)}
            }
            ty::FnPtr(..) => obj! {"k": J::s("fnptr"), "s": J::s(s), "param": J::Bool(param)},
            ty::FnDef(did, _) => {
                obj! {"k": J::s("fndef"), "s": J::s(s), "path": J::s(self.npath(*did)), "param": J::Bool(param)}
            }
            ty::Closure(did, args) => {
                let ups: Vec<J> = args
                    .as_closure()
                    .upvar_tys()
                    .iter()
                    .map(|t| self.ty_json(t, depth - 1))
                    .collect();
                obj! {"k": J::s("closure"), "s": J::s(s), "path": J::s(self.npath(*did)), "upvars": J::Arr(ups), "param": J::Bool(param)}
            }
            ty::Alias(..) => {
                // projections / opaque types: collect regions and type args mentioned
                obj! {"k": J::s("alias"), "s": J::s(s), "param": J::Bool(param)}
            }
            ty::Dynamic(..) => obj! {"k": J::s("dyn"), "s": J::s(s), "param": J::Bool(param)},
            ty::Never => obj! {"k": J::s("never"), "s": J::s(s)},
            _ => obj! {"k": J::s("prim"), "s": J::s(s), "param": J::Bool(param)},
        }
    }

    // ---------------------------------------------------------------- spans

    fn span_json(&self, span: Span) -> J {
        let sm = self.tcx.sess.source_map();
        let exp = span.from_expansion();
        let call = if exp { span.source_callsite() } else { span };
        let lo = sm.lookup_char_pos(call.lo());
        let file = match &lo.file.name {
            rustc_span::FileName::Real(r) => match r.local_path() {
                Some(p) => p.to_string_lossy().to_string(),
                None => format!("{:?}", r),
            },
            other => format!("{:?}", other),
        };
        let mut v = vec![("f", J::s(file)), ("l", J::Int(lo.line as i128))];
        if exp {
            let macs: Vec<J> = span
                .macro_backtrace()
                .filter_map(|e| match e.kind {
                    rustc_span::ExpnKind::Macro(_, name) => Some(J::s(name.to_string())),
                    rustc_span::ExpnKind::Desugaring(d) => Some(J::s(format!("desugar:{:?}", d))),
                    _ => None,
                })
                .collect();
            v.push(("mac", J::Arr(macs)));
        }
        J::Obj(v)
    }

    // ---------------------------------------------------------------- MIR

    fn place_json(&self, body: &Body<'tcx>, p: &Place<'tcx>) -> J {
        let tcx = self.tcx;
        let mut pty = mir::PlaceTy::from_ty(body.local_decls[p.local].ty);
        let mut proj = vec![];
        for elem in p.projection.iter() {
            let e = match elem {
                ProjectionElem::Deref => obj! {"k": J::s("deref")},
                ProjectionElem::Field(f, fty) => {
                    let (name, adt) = match pty.ty.kind() {
                        ty::Adt(def, _) => {
                            let vi = pty.variant_index.unwrap_or(rustc_abi::FIRST_VARIANT);
                            let name = def
                                .variants()
                                .get(vi)
                                .and_then(|v| v.fields.get(f))
                                .map(|fd| fd.name.to_string())
                                .unwrap_or_else(|| f.index().to_string());
                            (name, Some(self.npath(def.did())))
                        }
                        _ => (f.index().to_string(), None),
                    };
                    obj! {"k": J::s("field"), "i": J::Int(f.index() as i128), "name": J::s(name),
                    "adt": J::opt_s(adt), "t": J::s(format!("{}", fty))}
                }
                ProjectionElem::Downcast(name, vi) => {
                    obj! {"k": J::s("downcast"), "variant": J::s(name.map(|n| n.to_string()).unwrap_or_default()), "vi": J::Int(vi.index() as i128)}
                }
                ProjectionElem::Index(l) => obj! {"k": J::s("index"), "local": J::Int(l.index() as i128)},
                ProjectionElem::ConstantIndex { offset, from_end, .. } => {
                    obj! {"k": J::s("constindex"), "offset": J::Int(offset as i128), "from_end": J::Bool(from_end)}
                }
                ProjectionElem::Subslice { .. } => obj! {"k": J::s("subslice")},
                ProjectionElem::OpaqueCast(_) => obj! {"k": J::s("opaquecast")},
                ProjectionElem::UnwrapUnsafeBinder(_) => obj! {"k": J::s("unwrapbinder")},
            };
            proj.push(e);
            pty = pty.projection_ty(tcx, elem);
        }
        let mut v = vec![("l", J::Int(p.local.index() as i128))];
        if !proj.is_empty() {
            v.push(("proj", J::Arr(proj)));
            v.push(("t", J::s(format!("{}", pty.ty))));
        }
        J::Obj(v)
    }

    fn callee_json(&self, body_did: DefId, did: DefId, args: GenericArgsRef<'tcx>) -> J {
        let tcx = self.tcx;
        let mut v: Vec<(&'static str, J)> = vec![
            ("k", J::s("fn")),
            ("path", J::s(self.npath(did))),
            ("local", J::Bool(did.is_local())),
            ("substs", J::Arr(args.iter().map(|a| J::s(format!("{}", a))).collect())),
        ];
        let kind = tcx.def_kind(did);
        if matches!(kind, DefKind::AssocFn) {
            if let Some(tr) = tcx.trait_of_assoc(did) {
                v.push(("trait", J::s(self.npath(tr))));
                v.push(("method", J::s(tcx.item_name(did).to_string())));
                if args.len() > 0 {
                    if let Some(st) = args[0].as_type() {
                        v.push(("self_ty", self.ty_json(st, 3)));
                    }
                }
            }
        }
        if matches!(kind, DefKind::Fn | DefKind::AssocFn) {
            let env = TypingEnv::post_analysis(tcx, body_did);
            if let Ok(Some(inst)) = ty::Instance::try_resolve(tcx, env, did, args) {
                let rdid = inst.def_id();
                let ik = match inst.def {
                    ty::InstanceKind::Item(_) => "item",
                    ty::InstanceKind::Intrinsic(_) => "intrinsic",
                    ty::InstanceKind::Virtual(..) => "virtual",
                    ty::InstanceKind::ClosureOnceShim { .. } => "closure_once_shim",
                    ty::InstanceKind::FnPtrShim(..) => "fnptr_shim",
                    ty::InstanceKind::DropGlue(..) => "drop_glue",
                    ty::InstanceKind::CloneShim(..) => "clone_shim",
                    ty::InstanceKind::ReifyShim(..) => "reify_shim",
                    _ => "other",
                };
                v.push(("inst", J::s(ik)));
                if rdid != did {
                    v.push(("resolved", J::s(self.npath(rdid))));
                    v.push(("resolved_local", J::Bool(rdid.is_local())));
                }
            }
        }
        J::Obj(v)
    }

    fn const_json(&self, body_did: DefId, c: &ConstOperand<'tcx>) -> J {
        let tcx = self.tcx;
        let ty = c.const_.ty();
        if let ty::FnDef(did, args) = ty.kind() {
            return obj! {"k": J::s("const"), "fn": self.callee_json(body_did, *did, args), "t": J::s(format!("{}", ty))};
        }
        let mut v: Vec<(&'static str, J)> = vec![("k", J::s("const")), ("t", J::s(format!("{}", ty)))];
        if let ty::Adt(def, _) = ty.kind() {
            v.push(("adt", J::s(self.npath(def.did()))));
        }
        match c.const_ {
            mir::Const::Val(ConstValue::Scalar(mir::interpret::Scalar::Int(i)), _) => {
                v.push(("val", J::Int(i.to_bits_unchecked() as i128)));
            }
            mir::Const::Val(ConstValue::ZeroSized, _) => v.push(("zst", J::Bool(true))),
            mir::Const::Val(..) => v.push(("other", J::s("val"))),
            mir::Const::Unevaluated(uv, _) => {
                v.push(("def", J::s(self.npath(uv.def))));
                v.push(("def_args", J::Arr(uv.args.iter().map(|a| J::s(format!("{}", a))).collect())));
                if let Some(p) = uv.promoted {
                    v.push(("promoted", J::Int(p.index() as i128)));
                }
            }
            mir::Const::Ty(_, ct) => {
                v.push(("tyconst", J::s(format!("{}", ct))));
            }
        }
        if !c.const_.has_non_region_param() && !matches!(c.const_, mir::Const::Val(..)) {
            let env = TypingEnv::post_analysis(tcx, body_did);
            if let Some(i) = c.const_.try_eval_scalar_int(tcx, env) {
                v.push(("val", J::Int(i.to_bits_unchecked() as i128)));
            }
        }
        J::Obj(v)
    }

    fn operand_json(&self, body_did: DefId, body: &Body<'tcx>, o: &Operand<'tcx>) -> J {
        match o {
            Operand::Copy(p) => obj! {"k": J::s("copy"), "p": self.place_json(body, p)},
            Operand::Move(p) => obj! {"k": J::s("move"), "p": self.place_json(body, p)},
            Operand::Constant(c) => self.const_json(body_did, c),
            Operand::RuntimeChecks(rc) => obj! {"k": J::s("runtime_checks"), "which": J::s(format!("{:?}", rc))},
        }
    }

    fn rvalue_json(&self, body_did: DefId, body: &Body<'tcx>, rv: &Rvalue<'tcx>) -> J {
        let op = |o: &Operand<'tcx>| self.operand_json(body_did, body, o);
        match rv {
            Rvalue::Use(o, _) => obj! {"k": J::s("use"), "op": op(o)},
            Rvalue::Repeat(o, _) => obj! {"k": J::s("repeat"), "op": op(o)},
            Rvalue::Ref(_, bk, p) => {
                let m = matches!(bk, BorrowKind::Mut { .. });
                let fake = matches!(bk, BorrowKind::Fake(_));
                obj! {"k": J::s("ref"), "mut": J::Bool(m), "fake": J::Bool(fake), "p": self.place_json(body, p)}
            }
            Rvalue::ThreadLocalRef(d) => obj! {"k": J::s("tls"), "def": J::s(self.npath(*d))},
            Rvalue::RawPtr(k, p) => {
                obj! {"k": J::s("rawptr"), "mut": J::Bool(matches!(k, mir::RawPtrKind::Mut)), "p": self.place_json(body, p)}
            }
            Rvalue::Cast(ck, o, ty) => {
                let cks = match ck {
                    CastKind::Transmute => "Transmute".to_string(),
                    other => format!("{:?}", other),
                };
                obj! {"k": J::s("cast"), "kind": J::s(cks), "op": op(o), "t": J::s(format!("{}", ty))}
            }
            Rvalue::BinaryOp(b, ops) => {
                obj! {"k": J::s("binop"), "op": J::s(format!("{:?}", b)), "a": op(&ops.0), "b": op(&ops.1)}
            }
            Rvalue::UnaryOp(u, o) => obj! {"k": J::s("unop"), "op": J::s(format!("{:?}", u)), "a": op(o)},
            Rvalue::Discriminant(p) => obj! {"k": J::s("discriminant"), "p": self.place_json(body, p)},
            Rvalue::Aggregate(ak, ops) => {
                let ops_j: Vec<J> = ops.iter().map(|o| op(o)).collect();
                match &**ak {
                    AggregateKind::Adt(did, vi, _args, _, active) => {
                        let def = self.tcx.adt_def(*did);
                        let var = def.variant(*vi);
                        let fields: Vec<J> = match active {
                            Some(f) => vec![J::s(var.fields[*f].name.to_string())],
                            None => var.fields.iter().map(|f| J::s(f.name.to_string())).collect(),
                        };
                        obj! {"k": J::s("aggregate"), "kind": J::s("adt"), "adt": J::s(self.npath(*did)),
                        "variant": J::s(var.name.to_string()), "fields": J::Arr(fields), "ops": J::Arr(ops_j)}
                    }
                    AggregateKind::Tuple => obj! {"k": J::s("aggregate"), "kind": J::s("tuple"), "ops": J::Arr(ops_j)},
                    AggregateKind::Array(_) => obj! {"k": J::s("aggregate"), "kind": J::s("array"), "ops": J::Arr(ops_j)},
                    AggregateKind::Closure(did, _) => {
                        obj! {"k": J::s("aggregate"), "kind": J::s("closure"), "closure": J::s(self.npath(*did)), "ops": J::Arr(ops_j)}
                    }
                    AggregateKind::RawPtr(..) => obj! {"k": J::s("aggregate"), "kind": J::s("rawptr"), "ops": J::Arr(ops_j)},
                    _ => obj! {"k": J::s("aggregate"), "kind": J::s("other"), "ops": J::Arr(ops_j)},
                }
            }
            Rvalue::CopyForDeref(p) => obj! {"k": J::s("use"), "op": obj!{"k": J::s("copy"), "p": self.place_json(body, p)}, "deref_tmp": J::Bool(true)},
            Rvalue::WrapUnsafeBinder(o, _) => obj! {"k": J::s("use"), "op": op(o)},
        }
    }

    fn block_json(&self, body_did: DefId, body: &Body<'tcx>, bb: &BasicBlockData<'tcx>) -> J {
        let mut stmts = vec![];
        for s in bb.statements.iter() {
            match &s.kind {
                StatementKind::Assign(b) => {
                    let (p, rv) = &**b;
                    stmts.push(obj! {"k": J::s("assign"), "p": self.place_json(body, p),
                    "rv": self.rvalue_json(body_did, body, rv), "sp": self.span_json(s.source_info.span)});
                }
                StatementKind::SetDiscriminant { place, variant_index } => {
                    stmts.push(obj! {"k": J::s("setdiscr"), "p": self.place_json(body, place),
                    "vi": J::Int(variant_index.index() as i128), "sp": self.span_json(s.source_info.span)});
                }
                StatementKind::Intrinsic(b) => match &**b {
                    NonDivergingIntrinsic::CopyNonOverlapping(c) => {
                        stmts.push(obj! {"k": J::s("copy_nonoverlapping"),
                        "src": self.operand_json(body_did, body, &c.src), "dst": self.operand_json(body_did, body, &c.dst),
                        "count": self.operand_json(body_did, body, &c.count), "sp": self.span_json(s.source_info.span)});
                    }
                    NonDivergingIntrinsic::Assume(_) => {}
                },
                _ => {}
            }
        }
        let t = bb.terminator();
        let unwind_j = |u: &UnwindAction| match u {
            UnwindAction::Continue => J::s("continue"),
            UnwindAction::Unreachable => J::s("unreachable"),
            UnwindAction::Terminate(_) => J::s("terminate"),
            UnwindAction::Cleanup(b) => J::Int(b.index() as i128),
        };
        let sp = self.span_json(t.source_info.span);
        let term = match &t.kind {
            TerminatorKind::Goto { target } => obj! {"k": J::s("goto"), "target": J::Int(target.index() as i128)},
            TerminatorKind::SwitchInt { discr, targets } => {
                let ts: Vec<J> = targets
                    .iter()
                    .map(|(v, b)| J::Arr(vec![J::Int(v as i128), J::Int(b.index() as i128)]))
                    .collect();
                obj! {"k": J::s("switch"), "discr": self.operand_json(body_did, body, discr),
                "discr_t": J::s(format!("{}", discr.ty(&body.local_decls, self.tcx))),
                "targets": J::Arr(ts), "otherwise": J::Int(targets.otherwise().index() as i128), "sp": sp}
            }
            TerminatorKind::UnwindResume => obj! {"k": J::s("resume")},
            TerminatorKind::UnwindTerminate(_) => obj! {"k": J::s("terminate")},
            TerminatorKind::Return => obj! {"k": J::s("return"), "sp": sp},
            TerminatorKind::Unreachable => obj! {"k": J::s("unreachable"), "sp": sp},
            TerminatorKind::Drop { place, target, unwind, .. } => {
                let pty = place.ty(&body.local_decls, self.tcx).ty;
                obj! {"k": J::s("drop"), "p": self.place_json(body, place), "ty": self.ty_json(pty, 3),
                "target": J::Int(target.index() as i128), "unwind": unwind_j(unwind), "sp": sp}
            }
            TerminatorKind::Call { func, args, destination, target, unwind, fn_span, .. } => {
                self.n_calls.set(self.n_calls.get() + 1);
                let f = match func {
                    Operand::Constant(c) => match c.const_.ty().kind() {
                        ty::FnDef(did, gargs) => self.callee_json(body_did, *did, gargs),
                        _ => obj! {"k": J::s("indirect"), "op": self.operand_json(body_did, body, func)},
                    },
                    _ => {
                        obj! {"k": J::s("indirect"), "op": self.operand_json(body_did, body, func),
                        "t": J::s(format!("{}", func.ty(&body.local_decls, self.tcx)))}
                    }
                };
                let a: Vec<J> = args.iter().map(|a| self.operand_json(body_did, body, &a.node)).collect();
                obj! {"k": J::s("call"), "f": f, "args": J::Arr(a), "dest": self.place_json(body, destination),
                "target": match target { Some(b) => J::Int(b.index() as i128), None => J::Null },
                "unwind": unwind_j(unwind), "sp": self.span_json(*fn_span), "sp_full": sp}
            }
            TerminatorKind::TailCall { .. } => obj! {"k": J::s("tailcall"), "sp": sp},
            TerminatorKind::Assert { cond, expected, msg, target, unwind } => {
                let kind = match &**msg {
                    mir::AssertKind::BoundsCheck { .. } => "bounds".to_string(),
                    mir::AssertKind::Overflow(op, ..) => format!("overflow:{:?}", op),
                    mir::AssertKind::OverflowNeg(_) => "overflow:Neg".to_string(),
                    mir::AssertKind::DivisionByZero(_) => "divzero".to_string(),
                    mir::AssertKind::RemainderByZero(_) => "remzero".to_string(),
                    mir::AssertKind::MisalignedPointerDereference { .. } => "misaligned".to_string(),
                    mir::AssertKind::NullPointerDereference => "nullptr".to_string(),
                    _ => "other".to_string(),
                };
                obj! {"k": J::s("assert"), "cond": self.operand_json(body_did, body, cond), "expected": J::Bool(*expected),
                "kind": J::s(kind), "target": J::Int(target.index() as i128), "unwind": unwind_j(unwind), "sp": sp}
            }
            TerminatorKind::FalseEdge { real_target, .. } => {
                obj! {"k": J::s("goto"), "target": J::Int(real_target.index() as i128)}
            }
            TerminatorKind::FalseUnwind { real_target, .. } => {
                obj! {"k": J::s("goto"), "target": J::Int(real_target.index() as i128)}
            }
            TerminatorKind::InlineAsm { .. } => obj! {"k": J::s("asm"), "sp": sp},
            _ => obj! {"k": J::s("other"), "sp": sp},
        };
        obj! {"cleanup": J::Bool(bb.is_cleanup), "stmts": J::Arr(stmts), "term": term}
    }

    fn generics_names(&self, did: DefId) -> (Vec<J>, Vec<J>) {
        let tcx = self.tcx;
        let mut tys = vec![];
        let mut lts = vec![];
        let mut stack = vec![];
        let mut g = tcx.generics_of(did);
        loop {
            stack.push(g);
            match g.parent {
                Some(p) => g = tcx.generics_of(p),
                None => break,
            }
        }
        for g in stack.iter().rev() {
            for p in g.own_params.iter() {
                match p.kind {
                    ty::GenericParamDefKind::Type { .. } => tys.push(J::s(p.name.to_string())),
                    ty::GenericParamDefKind::Lifetime => lts.push(J::s(p.name.to_string())),
                    ty::GenericParamDefKind::Const { .. } => tys.push(J::s(format!("const {}", p.name))),
                }
            }
        }
        (tys, lts)
    }

    fn parent_impl_json(&self, did: DefId) -> J {
        let tcx = self.tcx;
        // walk up through closures to the enclosing fn
        let mut cur = did;
        while matches!(tcx.def_kind(cur), DefKind::Closure | DefKind::InlineConst) {
            cur = tcx.parent(cur);
        }
        if !matches!(tcx.def_kind(cur), DefKind::AssocFn) {
            return J::Null;
        }
        let parent = tcx.parent(cur);
        match tcx.def_kind(parent) {
            DefKind::Impl { of_trait } => {
                let self_ty = tcx.type_of(parent).instantiate_identity().skip_norm_wip();
                let mut v = vec![
                    ("impl", J::s(self.npath(parent))),
                    ("self_ty", self.ty_json(self_ty, 3)),
                    ("of_trait", J::Bool(of_trait)),
                ];
                if of_trait {
                    let tr = tcx.impl_trait_ref(parent).instantiate_identity().skip_norm_wip();
                    v.push(("trait", J::s(self.npath(tr.def_id))));
                    v.push(("trait_s", J::s(format!("{}", tr))));
                }
                J::Obj(v)
            }
            DefKind::Trait => obj! {"trait_decl": J::s(self.npath(parent))},
            _ => J::Null,
        }
    }

    fn body_json(&self, ldid: LocalDefId) -> Option<J> {
        let tcx = self.tcx;
        let did = ldid.to_def_id();
        let kind = tcx.def_kind(did);
        let kind_s = match kind {
            DefKind::Fn => "Fn",
            DefKind::AssocFn => "AssocFn",
            DefKind::Closure => "Closure",
            // bodies of (associated) constants with a default value, e.g. SizedTypeProperties::NEEDS_DROP
            DefKind::Const { .. } | DefKind::AssocConst { .. } => "Const",
            _ => return None,
        };
        if !tcx.is_mir_available(did) {
            return None;
        }
        let is_const = kind_s == "Const";
        let body: &Body<'tcx> = if is_const { tcx.mir_for_ctfe(did) } else { tcx.optimized_mir(did) };
        let is_unsafe = match kind {
            DefKind::Closure => false,
            _ if is_const => false,
            _ => tcx.fn_sig(did).skip_binder().safety().is_unsafe(),
        };
        let mut names: HashMap<usize, String> = HashMap::new();
        for vdi in body.var_debug_info.iter() {
            if let mir::VarDebugInfoContents::Place(p) = &vdi.value {
                if p.projection.is_empty() {
                    names.entry(p.local.index()).or_insert(vdi.name.to_string());
                }
            }
        }
        let locals: Vec<J> = body
            .local_decls
            .iter_enumerated()
            .map(|(l, d)| {
                let mut v = vec![("ty", self.ty_json(d.ty, 3))];
                if let Some(n) = names.get(&l.index()) {
                    v.push(("name", J::s(n.clone())));
                }
                if d.mutability.is_mut() {
                    v.push(("mutbl", J::Bool(true)));
                }
                J::Obj(v)
            })
            .collect();
        let blocks: Vec<J> =
            body.basic_blocks.iter().map(|bb| self.block_json(did, body, bb)).collect();
        let (tys, lts) = self.generics_names(did);
        let vis_pub = match kind {
            DefKind::Closure => false,
            _ => tcx.visibility(did).is_public(),
        };
        let reach = tcx.effective_visibilities(()).is_reachable(ldid);
        Some(obj! {
            "path": J::s(self.npath(did)),
            "kind": J::s(kind_s),
            "unsafe": J::Bool(is_unsafe),
            "pub": J::Bool(vis_pub),
            "reachable": J::Bool(reach),
            "sp": self.span_json(tcx.def_span(did)),
            "end_line": J::Int(tcx.sess.source_map().lookup_char_pos(body.span.hi()).line as i128),
            "impl": self.parent_impl_json(did),
            "ty_params": J::Arr(tys),
            "lt_params": J::Arr(lts),
            "arg_count": J::Int(body.arg_count as i128),
            "locals": J::Arr(locals),
            "blocks": J::Arr(blocks),
        })
    }

    // ---------------------------------------------------------------- items

    fn adt_json(&self, ldid: LocalDefId) -> J {
        let tcx = self.tcx;
        let did = ldid.to_def_id();
        let def = tcx.adt_def(did);
        let variants: Vec<J> = def
            .variants()
            .iter_enumerated()
            .map(|(vi, v)| {
                let fields: Vec<J> = v
                    .fields
                    .iter()
                    .map(|f| {
                        let fty = tcx.type_of(f.did).instantiate_identity().skip_norm_wip();
                        obj! {"name": J::s(f.name.to_string()), "ty": self.ty_json(fty, 4),
                        "pub": J::Bool(f.vis.is_public())}
                    })
                    .collect();
                let discr = if def.is_enum() {
                    J::Int(def.discriminant_for_variant(tcx, vi).val as i128)
                } else {
                    J::Null
                };
                obj! {"name": J::s(v.name.to_string()), "fields": J::Arr(fields), "discr": discr}
            })
            .collect();
        let (tys, lts) = self.generics_names(did);
        let variances: Vec<J> = tcx.variances_of(did).iter().map(|v| J::s(format!("{:?}", v))).collect();
        let gen_order: Vec<J> = tcx
            .generics_of(did)
            .own_params
            .iter()
            .map(|p| J::s(p.name.to_string()))
            .collect();
        let preds: Vec<J> = tcx
            .predicates_of(did)
            .instantiate_identity(tcx)
            .predicates
            .iter()
            .map(|p| J::s(format!("{}", p.skip_norm_wip())))
            .collect();
        let has_drop = tcx.adt_destructor(did).is_some();
        let size = if tcx.generics_of(did).count() == 0 {
            let ty = tcx.type_of(did).instantiate_identity().skip_norm_wip();
            match tcx.layout_of(TypingEnv::fully_monomorphized().as_query_input(ty)) {
                Ok(l) => J::Int(l.size.bytes() as i128),
                Err(_) => J::Null,
            }
        } else {
            J::Null
        };
        obj! {
            "path": J::s(self.npath(did)),
            "kind": J::s(if def.is_enum() {"enum"} else if def.is_union() {"union"} else {"struct"}),
            "pub": J::Bool(tcx.visibility(did).is_public()),
            "reachable": J::Bool(tcx.effective_visibilities(()).is_reachable(ldid)),
            "ty_params": J::Arr(tys), "lt_params": J::Arr(lts),
            "generics": J::Arr(gen_order), "variances": J::Arr(variances),
            "predicates": J::Arr(preds),
            "variants": J::Arr(variants),
            "has_drop": J::Bool(has_drop),
            "size": size,
            "sp": self.span_json(tcx.def_span(did)),
            "auto": self.auto_json(did),
        }
    }

    /// Auto-trait facts for an ADT with identity arguments: does `X: Send` /
    /// `X: Sync` hold under (a) the ADT's own where-clauses plus `P: Send + Sync`
    /// for every type parameter P, (b) the same with exactly one assumption
    /// removed, (c) with no extra assumption at all.
    fn auto_json(&self, did: DefId) -> J {
        let tcx = self.tcx;
        let send = match tcx.get_diagnostic_item(sym::Send) {
            Some(d) => d,
            None => return J::Null,
        };
        let sync = match tcx.get_diagnostic_item(sym::Sync) {
            Some(d) => d,
            None => return J::Null,
        };
        let self_ty = tcx.type_of(did).instantiate_identity().skip_norm_wip();
        let base: Vec<ty::Clause<'tcx>> = tcx.param_env(did).caller_bounds().iter().collect();
        let generics = tcx.generics_of(did);
        let mut params: Vec<(String, Ty<'tcx>)> = vec![];
        for p in generics.own_params.iter() {
            if let ty::GenericParamDefKind::Type { .. } = p.kind {
                let t = Ty::new_param(tcx, p.index, p.name);
                params.push((p.name.to_string(), t));
            }
        }
        let mk = |t: Ty<'tcx>, tr: DefId| -> ty::Clause<'tcx> {
            let trait_ref = ty::TraitRef::new(tcx, tr, [t]);
            let pred: ty::Predicate<'tcx> = ty::Binder::dummy(trait_ref).upcast(tcx);
            pred.expect_clause()
        };
        // all assumptions
        let mut assumptions: Vec<(String, &'static str, ty::Clause<'tcx>)> = vec![];
        for (n, t) in params.iter() {
            assumptions.push((n.clone(), "Send", mk(*t, send)));
            assumptions.push((n.clone(), "Sync", mk(*t, sync)));
        }
        let holds = |skip: &dyn Fn(usize) -> bool, tr: DefId| -> bool {
            let mut clauses = base.clone();
            for (i, a) in assumptions.iter().enumerate() {
                if !skip(i) {
                    clauses.push(a.2);
                }
            }
            let env = ty::ParamEnv::new(tcx.mk_clauses(&clauses));
            let infcx = tcx.infer_ctxt().build(TypingMode::non_body_analysis());
            infcx.type_implements_trait(tr, [self_ty], env).must_apply_modulo_regions()
        };
        let mut out = vec![];
        for (tr_name, tr) in [("Send", send), ("Sync", sync)] {
            let full = holds(&|_| false, tr);
            let none = holds(&|_| true, tr);
            let mut need = vec![];
            if full {
                for (i, a) in assumptions.iter().enumerate() {
                    if !holds(&|j| j == i, tr) {
                        need.push(J::Arr(vec![J::s(a.0.clone()), J::s(a.1)]));
                    }
                }
            }
            // sanity: with exactly the needed set it must hold
            let need_idx: Vec<usize> = assumptions
                .iter()
                .enumerate()
                .filter(|(i, _)| !holds(&|j| j == *i, tr))
                .map(|(i, _)| i)
                .collect();
            let exact = full && holds(&|j| !need_idx.contains(&j), tr);
            out.push((
                tr_name,
                obj! {"full": J::Bool(full), "unconditional": J::Bool(none), "need": J::Arr(need),
                "need_is_sufficient": J::Bool(exact), "queries": J::Int(2 + 2 * assumptions.len() as i128 + 1)},
            ));
        }
        J::Obj(out)
    }

    fn impl_json(&self, ldid: LocalDefId) -> J {
        let tcx = self.tcx;
        let did = ldid.to_def_id();
        let self_ty = tcx.type_of(did).instantiate_identity().skip_norm_wip();
        let of_trait = matches!(tcx.def_kind(did), DefKind::Impl { of_trait: true });
        let mut v: Vec<(&'static str, J)> = vec![
            ("path", J::s(self.npath(did))),
            ("self_ty", self.ty_json(self_ty, 4)),
            ("of_trait", J::Bool(of_trait)),
            ("sp", self.span_json(tcx.def_span(did))),
        ];
        if of_trait {
            let header = tcx.impl_trait_header(did);
            let tr = header.trait_ref.instantiate_identity().skip_norm_wip();
            v.push(("trait", J::s(self.npath(tr.def_id))));
            v.push(("trait_s", J::s(format!("{}", tr))));
            v.push(("unsafe", J::Bool(header.safety.is_unsafe())));
            v.push(("polarity", J::s(format!("{:?}", header.polarity))));
            let targs: Vec<J> =
                tr.args.iter().skip(1).filter_map(|a| a.as_type()).map(|t| self.ty_json(t, 4)).collect();
            v.push(("trait_args", J::Arr(targs)));
        }
        let preds: Vec<J> = tcx
            .predicates_of(did)
            .instantiate_identity(tcx)
            .predicates
            .iter()
            .map(|p| J::s(format!("{}", p.skip_norm_wip())))
            .collect();
        v.push(("predicates", J::Arr(preds)));
        let (tys, lts) = self.generics_names(did);
        v.push(("ty_params", J::Arr(tys)));
        v.push(("lt_params", J::Arr(lts)));
        let mut items = vec![];
        for it in tcx.associated_items(did).in_definition_order() {
            let k = match it.kind {
                ty::AssocKind::Fn { .. } => "fn",
                ty::AssocKind::Type { .. } => "type",
                ty::AssocKind::Const { .. } => "const",
            };
            let mut iv = vec![("name", J::s(it.name().to_string())), ("kind", J::s(k)), ("path", J::s(self.npath(it.def_id)))];
            if let ty::AssocKind::Type { .. } = it.kind {
                let t = tcx.type_of(it.def_id).instantiate_identity().skip_norm_wip();
                iv.push(("ty", self.ty_json(t, 5)));
            }
            items.push(J::Obj(iv));
        }
        v.push(("items", J::Arr(items)));
        J::Obj(v)
    }

    fn fn_json(&self, ldid: LocalDefId) -> J {
        let tcx = self.tcx;
        let did = ldid.to_def_id();
        let sig = tcx.fn_sig(did).instantiate_identity().skip_norm_wip();
        let sig = tcx.liberate_late_bound_regions(did, sig);
        let inputs: Vec<J> = sig.inputs().iter().map(|t| self.ty_json(*t, 6)).collect();
        let output = self.ty_json(sig.output(), 6);
        let preds: Vec<J> = tcx
            .predicates_of(did)
            .instantiate_identity(tcx)
            .predicates
            .iter()
            .map(|p| J::s(format!("{}", p.skip_norm_wip())))
            .collect();
        let (tys, lts) = self.generics_names(did);
        let has_self = match tcx.def_kind(did) {
            DefKind::AssocFn => tcx.associated_item(did).is_method(),
            _ => false,
        };
        obj! {
            "path": J::s(self.npath(did)),
            "name": J::s(tcx.item_name(did).to_string()),
            "kind": J::s(format!("{:?}", tcx.def_kind(did))),
            "unsafe": J::Bool(sig.safety().is_unsafe()),
            "pub": J::Bool(tcx.visibility(did).is_public()),
            "reachable": J::Bool(tcx.effective_visibilities(()).is_reachable(ldid)),
            "has_self": J::Bool(has_self),
            "impl": self.parent_impl_json(did),
            "inputs": J::Arr(inputs),
            "output": output,
            "predicates": J::Arr(preds),
            "ty_params": J::Arr(tys), "lt_params": J::Arr(lts),
            "has_body": J::Bool(tcx.is_mir_available(did)),
            "sp": self.span_json(tcx.def_span(did)),
        }
    }

    fn const_item_json(&self, ldid: LocalDefId) -> Option<J> {
        let tcx = self.tcx;
        let did = ldid.to_def_id();
        if tcx.generics_of(did).requires_monomorphization(tcx) {
            return None;
        }
        let ty = tcx.type_of(did).instantiate_identity().skip_norm_wip();
        if !(ty.is_integral() || ty.is_bool()) {
            return None;
        }
        match tcx.const_eval_poly(did) {
            Ok(ConstValue::Scalar(mir::interpret::Scalar::Int(i))) => Some(obj! {
                "path": J::s(self.npath(did)), "t": J::s(format!("{}", ty)),
                "val": J::Int(i.to_bits_unchecked() as i128),
                "bits": J::Int(i.size().bits() as i128),
                "sp": self.span_json(tcx.def_span(did)),
            }),
            _ => None,
        }
    }

    fn collect(&self, cfg: &str) -> J {
        let tcx = self.tcx;
        let mut bodies = vec![];
        let mut keys: Vec<LocalDefId> = tcx.mir_keys(()).iter().copied().collect();
        keys.sort_by_key(|k| k.local_def_index.as_usize());
        for ldid in keys {
            if let Some(b) = self.body_json(ldid) {
                bodies.push(b);
            }
        }
        let mut adts = vec![];
        let mut impls = vec![];
        let mut fns = vec![];
        let mut consts = vec![];
        let mut traits = vec![];
        for ldid in tcx.hir_crate_items(()).definitions() {
            match tcx.def_kind(ldid) {
                DefKind::Struct | DefKind::Enum | DefKind::Union => adts.push(self.adt_json(ldid)),
                DefKind::Impl { .. } => impls.push(self.impl_json(ldid)),
                DefKind::Fn | DefKind::AssocFn => fns.push(self.fn_json(ldid)),
                DefKind::Const { .. } | DefKind::AssocConst { .. } => {
                    if let Some(c) = self.const_item_json(ldid) {
                        consts.push(c);
                    }
                }
                DefKind::Trait => {
                    traits.push(obj! {"path": J::s(self.npath(ldid.to_def_id())),
                    "reachable": J::Bool(tcx.effective_visibilities(()).is_reachable(ldid))});
                }
                _ => {}
            }
        }
        let header = obj! {
            "cfg": J::s(cfg),
            "crate": J::s(tcx.crate_name(rustc_hir::def_id::LOCAL_CRATE).to_string()),
            "rustc": J::s(rustc_interface::util::rustc_version_str().unwrap_or("?").to_string()),
            "n_bodies": J::Int(bodies.len() as i128),
            "n_calls": J::Int(self.n_calls.get() as i128),
            "n_adts": J::Int(adts.len() as i128),
            "n_impls": J::Int(impls.len() as i128),
            "n_fns": J::Int(fns.len() as i128),
            "key": J::s(std::env::var("HBV_KEY").unwrap_or_default()),
        };
        obj! {"header": header, "bodies": J::Arr(bodies), "adts": J::Arr(adts), "impls": J::Arr(impls),
        "fns": J::Arr(fns), "consts": J::Arr(consts), "traits": J::Arr(traits)}
    }
}
