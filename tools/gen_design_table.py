#!/usr/bin/env python3
"""Regenerate the 'Overview as built' table of DESIGN.md section 5 from engine/props.py."""
import sys, os
V = os.path.dirname(os.path.dirname(os.path.abspath(__file__)))
sys.path.insert(0, os.path.join(V, "engine"))
import props
p = os.path.join(V, "DESIGN.md")
s = open(p).read()
start = s.index("| | rules | also |")
end = s.index("Rules that did not exist in the first plan")
rows = ["| | rules | also |", "|---|---|---|"]
for pid in sorted(props.PROPS):
    P = props.PROPS[pid]
    also = []
    for ex in P.get("extra", []):
        if ex[0] == "witness":
            also.append("W-BORROW witnesses %s" % ("every run" if ex[2] != "thorough" else "thorough tier"))
    core = [r for r in P["rules"] if r in getattr(props, "CORE_TABLE", [])]
    own = [r for r in P["rules"] if r not in core]
    txt = ", ".join(own) + (("; + core-table set (%d rules)" % len(core)) if len(core) >= 20 else (", " + ", ".join(core) if core else ""))
    rows.append("| %s | %s | %s |" % (pid, txt, "; ".join(also)))
rows.append("| C18 | — | not applicable (section 7) |")
rows.append("")
rows.append("core-table set: " + ", ".join(getattr(props, "CORE_TABLE", [])))
s = s[:start] + "\n".join(rows) + "\n\n" + s[end:]
open(p, "w").write(s)
print("table regenerated for", len(props.PROPS), "properties")
