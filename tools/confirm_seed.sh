#!/bin/bash
# usage: confirm_seed.sh <worktree> <k>
# Confirms mutation <worktree>/_out/<k>: pristine demo passes, mutated suite passes, mutated demo fails.
# Writes <worktree>/_out/<k>/confirm.json
W=$1; K=$2; D=$W/_out/$K
cd $W || exit 2
[ -f $D/patch.diff ] || exit 2
export CARGO_NET_OFFLINE=true
git checkout -q -- src 2>/dev/null
rm -f tests/demo_*.rs
FEAT=$(grep -o -m1 -- '--features [a-z,-]*' $D/demo.rs | head -1)
cp $D/demo.rs tests/demo_$K.rs
run_demo() { timeout 900 cargo test --offline $FEAT --test demo_$K > $D/$1.log 2>&1; echo $?; }
P=$(run_demo demo_pristine)
git apply $D/patch.diff || { echo '{"error":"patch does not apply"}' > $D/confirm.json; exit 1; }
mv tests/demo_$K.rs /tmp/demo_hold_$$_$K.rs
timeout 1800 cargo test --workspace --no-fail-fast --offline > $D/suite_mutated.log 2>&1; S=$?
SF=$(grep -c "^test .* FAILED" $D/suite_mutated.log)
mv /tmp/demo_hold_$$_$K.rs tests/demo_$K.rs
M=$(run_demo demo_mutated)
git checkout -q -- src; rm -f tests/demo_$K.rs
echo "{\"demo_pristine_exit\":$P,\"suite_mutated_exit\":$S,\"suite_mutated_failed_tests\":$SF,\"demo_mutated_exit\":$M,\"features\":\"$FEAT\"}" > $D/confirm.json
cat $D/confirm.json
