#!/bin/bash
# usage: dbg_patch.sh <patch> <cfg> R-RULE...   -- apply patch to the persistent scratch worktree /tmp/dbgP (reset first) and run the named rules verbosely
WT=/tmp/dbgP
[ -d $WT ] || git -C /repo worktree add -q --detach $WT HEAD
cd $WT && git checkout -q -- . && git clean -fdq src && git apply "$1" || { echo "patch does not apply"; exit 3; }
shift; CFG=$1; shift
cd /verif && HBV_REPO=$WT ./hbv rules --cfg $CFG "$@" 2>&1 | grep -v "^WARNING\|^   ok " 
