#!/usr/bin/env python3
"""Run every registered quick check against every seeded mutation (in a scratch worktree of /repo HEAD) and write seeded/MATRIX.json + MATRIX.md."""
import json, os, subprocess, sys, re
V = "/verif"
seeds = sorted(d for d in os.listdir(V + "/seeded") if os.path.isdir(os.path.join(V, "seeded", d)))
only = sys.argv[1:]
res = json.load(open(V + "/seeded/MATRIX.json")) if os.path.exists(V + "/seeded/MATRIX.json") and only else {}
for s in seeds:
    if only and s not in only:
        continue
    out = subprocess.run([V + "/tools/try_patch.sh", os.path.join(V, "seeded", s, "patch.diff")], stdout=subprocess.PIPE, stderr=subprocess.STDOUT, text=True).stdout
    r = {}
    if "PATCH-DOES-NOT-APPLY" in out:
        r = {"_error": "patch does not apply to /repo HEAD (conflicts with a fix: commit)"}
    for line in out.splitlines():
        m = re.match(r"^(C\d+) rc=(\d+) (.*)$", line)
        if m:
            rules = sorted(set(re.findall(r"\[(R-[A-Z-]+|W-[A-Z-]+)\]", m.group(3))))
            r[m.group(1)] = {"rc": int(m.group(2)), "rules": rules, "undecided": "UNDECIDED" in m.group(3)}
    res[s] = r
    caught = [p for p, v in r.items() if isinstance(v, dict) and v.get("rc") == 1]
    print(s, "caught by", caught, [v["rules"] for p, v in r.items() if isinstance(v, dict) and v.get("rc") == 1], "undecided:", [p for p, v in r.items() if isinstance(v, dict) and v.get("rc") == 2])
    json.dump(res, open(V + "/seeded/MATRIX.json", "w"), indent=1, sort_keys=True)
lines = ["# Seeded mutations vs. checks", "", "| mutation | breaks | caught by (property: rules) | own property's check |", "|---|---|---|---|"]
for s in sorted(res):
    r = res[s]
    P = s.split("-")[0]
    if "_error" in r:
        lines.append("| %s | %s | %s | n/a |" % (s, P, r["_error"])); continue
    c = "; ".join("%s: %s" % (p, ",".join(v["rules"])) for p, v in sorted(r.items()) if v.get("rc") == 1) or "MISSED"
    own = r.get(P, {}).get("rc")
    lines.append("| %s | %s | %s | %s |" % (s, P, c, {0: "silent", 1: "fires", 2: "undecided", None: "not claimed"}.get(own)))
open(V + "/seeded/MATRIX.md", "w").write("\n".join(lines) + "\n")
