#!/usr/bin/env python3
"""Copy confirmed sub-agent mutations from /tmp/wt/<P>/_out/<k> into /verif/seeded/<P>-<k>/ with meta.json."""
import json, os, shutil, sys, re
V = "/verif"
BASE = os.environ.get("SEED_BASE", "/tmp/wt")
TAG = os.environ.get("SEED_TAG", "")  # e.g. "r2" -> ids C01-r2-1
props = {json.loads(l)["id"]: json.loads(l) for l in open(V + "/properties.jsonl")}
for P in sorted(os.listdir(BASE)):
    d = "%s/%s/_out" % (BASE, P)
    if not os.path.isdir(d) or P not in props:
        continue
    for k in sorted(os.listdir(d)):
        src = os.path.join(d, k)
        if not os.path.isdir(src):
            continue
        cj = os.path.join(src, "confirm.json")
        if not os.path.exists(cj):
            continue
        c = json.load(open(cj))
        if not k.isdigit():
            continue
        dst = "%s/seeded/%s-%s%s" % (V, P, (TAG + "-") if TAG else "", k)
        compile_fail_demo = c.get("demo_pristine_exit") != 0
        log = open(os.path.join(src, "demo_pristine.log")).read() if os.path.exists(os.path.join(src, "demo_pristine.log")) else ""
        if compile_fail_demo and "error[E" not in log and "error: lifetime may not live long enough" not in log and "error:" not in log:
            print("SKIP %s-%s: pristine demo fails for a reason other than a compile error" % (P, k)); continue
        ok = c.get("suite_mutated_exit") == 0 and c.get("suite_mutated_failed_tests") == 0 and c.get("demo_mutated_exit") != 0
        if not ok:
            print("DROP %s-%s: not confirmed (%s)" % (P, k, c))
            if os.path.isdir(dst): shutil.rmtree(dst)
            continue
        os.makedirs(dst, exist_ok=True)
        shutil.copy(os.path.join(src, "patch.diff"), dst)
        shutil.copy(os.path.join(src, "demo.rs"), dst)
        notes = open(os.path.join(src, "notes.md")).read() if os.path.exists(os.path.join(src, "notes.md")) else ""
        open(os.path.join(dst, "notes.md"), "w").write(notes)
        files = sorted(set(re.findall(r"^\+\+\+ b/(\S+)", open(os.path.join(src, "patch.diff")).read(), re.M)))
        meta = {
            "id": os.path.basename(dst),
            "round": TAG or "r1",
            "breaks_property": P,
            "property_title": props[P]["title"],
            "files_changed": files,
            "needs_to_manifest": (re.search(r"(?is)(trigger|condition|needs?|manifest)[^\n]*\n?(.{0,600})", notes) or [None, None, ""])[2].strip()[:600] if notes else "",
            "author": "independent sub-agent given only the property text and a scratch worktree (nothing from /verif)",
            "demo_kind": "must-not-compile program (pristine: rejected by rustc; mutated: compiles and the test fails)" if compile_fail_demo else "integration test (pristine: passes; mutated: fails)",
            "confirmed_by_me": {
                "how": "tools/confirm_seed.sh in a scratch worktree of the pinned commit: demo on pristine; `cargo test --workspace --no-fail-fast --offline` with the patch; demo with the patch",
                "demo_pristine_exit": c["demo_pristine_exit"],
                "existing_suite_with_patch_exit": c["suite_mutated_exit"],
                "existing_suite_failed_tests": c["suite_mutated_failed_tests"],
                "demo_with_patch_exit": c["demo_mutated_exit"],
                "demo_features": c.get("features", ""),
            },
        }
        old = os.path.join(dst, "meta.json")
        if os.path.exists(old):
            for k_, v_ in json.load(open(old)).items():
                if k_ not in meta:
                    meta[k_] = v_
        json.dump(meta, open(os.path.join(dst, "meta.json"), "w"), indent=1)
        print("kept %s-%s" % (P, k))
