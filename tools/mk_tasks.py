#!/usr/bin/env python3
"""mk_tasks.py <base-dir> <guidance-file> [Cxx ...]
Creates, for every claimed property (or the ones named), a scratch git worktree <base-dir>/<Cxx> of /repo HEAD and a
task file <base-dir>/<Cxx>/_TASK.md for an independent sub-agent: ONLY the property's text, the worktree path and the
round's guidance - nothing from /verif. The sub-agent is started with: "Read the file <base>/<Cxx>/_TASK.md and carry
out the task it describes exactly. Work only inside <base>/<Cxx>."."""
import json, os, subprocess, sys

base, guidance = sys.argv[1], sys.argv[2]
only = sys.argv[3:]
V = os.path.dirname(os.path.dirname(os.path.abspath(__file__)))
claimed = [c["property_id"] for c in json.load(open(os.path.join(V, "MANIFEST.json")))["checks"]]
props = {}
for l in open(os.path.join(V, "properties.jsonl")):
    p = json.loads(l)
    props[p["id"]] = p
G = open(guidance).read()
os.makedirs(base, exist_ok=True)
for pid in claimed:
    if only and pid not in only:
        continue
    wt = os.path.join(base, pid)
    if not os.path.isdir(wt):
        subprocess.check_call(["git", "-C", "/repo", "worktree", "add", "-q", "--detach", wt, "HEAD"])
    p = props[pid]
    t = TEMPLATE = """# Task: author realistic property-breaking changes to hashbrown

You are working in your own scratch git worktree of the rust-lang/hashbrown repository (version 0.15.2): `@WT@`. Work ONLY inside that directory. Never read or touch `/repo` or `/verif`. The sandbox has no network: always pass `--offline` to cargo. All needed crates are already cached.

## The property

**@TITLE@**

@STATEMENT@

Quantified over: @QUANT@

## What to produce

Produce up to THREE different changes (mutations) to the hashbrown source (`src/**`), each of which:

1. **Breaks the property above** (in a real way: you can show a concrete program whose behaviour violates the statement).
2. **Still compiles** (`cargo build --offline`, and with `--features rayon,serde,rustc-internal-api` if you touch that code) and **still passes the whole existing test suite unchanged**: `cargo test --workspace --no-fail-fast --offline` must show no failures (109 tests + 252 doctests; do not edit, delete or add to existing tests to make this true).
3. **Needs something specific to manifest** - a particular multi-step sequence of operations, an unusual input (e.g. an all-colliding hasher, a panicking callback at a particular call count, a zero-sized or over-aligned type, a table saturated with tombstones, capacity exactly full, an allocator that refuses a request, a particular split of a parallel iterator, a lying size hint, a leaked iterator...), or two cooperating sites that each look fine alone. NOT something that ordinary use would expose at once.
4. Looks like a plausible edit a developer could make (a refactor gone wrong, a "simplification", an optimisation, a reordering, a dropped guard, a changed bound or signature, a wrong constant), and is small (ideally 1-15 changed lines). Each of the three should attack a *different* mechanism / different function, so they are independent of each other.

For each mutation k = 1, 2, 3 create the directory `@WT@/_out/k/` containing:

* `patch.diff` - the output of `git diff -- src` for that mutation alone, relative to the pristine HEAD (so `git apply patch.diff` on a clean checkout reproduces it). Make each patch independent (start each from a clean tree: `git checkout -- src`).
* `demo.rs` - a demonstration: an integration-test file (to be copied to `tests/demo_k.rs`) or a small program using only hashbrown's public API, that **fails (assertion failure, panic, crash, sanitizer/miri complaint, or - for compile-time properties - compiles when it should be rejected) with the mutation applied and passes without it**. State the exact command to run it at the top of the file in a comment (if it needs cargo features, write them as `--features a,b` in that comment). If the demonstration is "this program should not compile but does", say so clearly.
* `notes.md` - 5-15 lines: which clause of the property is broken, what the change is and why it is plausible, what precise conditions are needed for it to manifest, and the commands you ran with their observed results (pristine: suite passes + demo passes; mutated: suite passes + demo fails).

You must actually run these commands and confirm the four outcomes for every mutation you keep; drop a mutation if the existing suite catches it. When finished, leave the worktree's `src` pristine (`git checkout -- src`) and delete any `tests/demo_*.rs` you added and the `target/` directory (`rm -rf @WT@/target`) to save disk. Leave only `_out/`.

Reply with a short summary: for each mutation, one line saying what it changes and what is needed to trigger it.

## Additional guidance for this round

@GUIDANCE@
"""
    q = p.get("quantifier", {})
    t = t.replace("@WT@", wt).replace("@TITLE@", p.get("title", pid)).replace("@STATEMENT@", p["statement"]).replace("@QUANT@", q.get("text", "") if isinstance(q, dict) else str(q)).replace("@GUIDANCE@", G)
    open(os.path.join(wt, "_TASK.md"), "w").write(t)
    print("task", wt)
