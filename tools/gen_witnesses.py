#!/usr/bin/env python3
"""Generate witnesses/src/lib.rs: compile-fail witnesses (with the expected rustc error code) paired with
compiling twins that differ only in where the offending line stands. rustc's borrow checker / trait solver
is the decision procedure; nothing is executed (twins are no_run)."""
import os
V = os.path.dirname(os.path.dirname(os.path.abspath(__file__)))

MAP = "use hashbrown::HashMap;\nlet mut m: HashMap<u32, String> = HashMap::new();\nm.insert(1, String::new());\n"
SET = "use hashbrown::HashSet;\nlet mut a: HashSet<u32> = HashSet::new();\nlet mut b: HashSet<u32> = HashSet::new();\na.insert(1); b.insert(2);\n"
TAB = "use hashbrown::HashTable;\nlet mut t: HashTable<u32> = HashTable::new();\nlet h = |x: &u32| *x as u64;\nt.insert_unique(1, 1, h);\n"

# (name, props, code, prelude, borrow line, offending line, use of the borrow)
W = [
    ("map_iter_insert", "C16 C02", "E0502", MAP, "let it = m.iter();", "m.insert(2, String::new());", "drop(it);"),
    ("map_keys_clear", "C16", "E0502", MAP, "let it = m.keys();", "m.clear();", "drop(it);"),
    ("map_values_remove", "C16", "E0502", MAP, "let it = m.values();", "m.remove(&1);", "drop(it);"),
    ("map_iter_mut_insert", "C16 C02", "E0499", MAP, "let it = m.iter_mut();", "m.insert(2, String::new());", "drop(it);"),
    ("map_values_mut_get", "C16", "E0502", MAP, "let it = m.values_mut();", "let _ = m.get(&1);", "drop(it);"),
    ("map_drain_len", "C16 C02", "E0502", MAP, "let d = m.drain();", "let _ = m.len();", "drop(d);"),
    ("map_extract_if_insert", "C16", "E0499", MAP, "let e = m.extract_if(|_, _| true);", "m.insert(2, String::new());", "drop(e);"),
    ("map_entry_get", "C16 C14", "E0502", MAP, "let e = m.entry(1);", "let _ = m.get(&1);", "drop(e);"),
    ("map_entry_entry", "C16 C14", "E0499", MAP, "let e = m.entry(1);", "let _ = m.entry(2);", "drop(e);"),
    ("map_entry_ref_insert", "C16 C14", "E0499", MAP, "let e = m.entry_ref(&1);", "m.insert(2, String::new());", "drop(e);"),
    ("map_get_insert", "C16 C02", "E0502", MAP, "let r = m.get(&1);", "m.insert(2, String::new());", "drop(r);"),
    ("map_get_mut_twice", "C16 C15", "E0499", MAP, "let r = m.get_mut(&1);", "let _ = m.get_mut(&1);", "drop(r);"),
    ("map_get_key_value_remove", "C16", "E0502", MAP, "let r = m.get_key_value(&1);", "m.remove(&1);", "drop(r);"),
    ("map_get_many_mut_twice", "C15 C16", "E0499", MAP, "let r = m.get_many_mut([&1]);", "let _ = m.get_many_mut([&1]);", "drop(r);"),
    ("map_get_many_mut_get", "C15 C16", "E0502", MAP, "let r = m.get_many_mut([&1]);", "let _ = m.get(&1);", "drop(r);"),
    ("map_get_many_key_value_mut_insert", "C15 C16", "E0499", MAP, "let r = m.get_many_key_value_mut([&1]);", "m.insert(3, String::new());", "drop(r);"),
    ("map_raw_entry_mut_insert", "C16 C14", "E0499", MAP, "let e = m.raw_entry_mut();", "m.insert(2, String::new());", "drop(e);"),
    ("map_raw_entry_insert", "C16 C14", "E0502", MAP, "let e = m.raw_entry();", "m.insert(2, String::new());", "drop(e);"),
    ("map_drop_while_iter", "C16 C02", "E0505", MAP, "let it = m.iter();", "drop(m);", "drop(it);"),
    ("map_move_while_ref", "C16 C02", "E0505", MAP, "let r = m.get(&1);", "let m2 = m;", "drop(r);"),
    ("map_drop_while_iter_mut", "C16", "E0505", MAP, "let it = m.iter_mut();", "drop(m);", "drop(it);"),
    ("map_occupied_get_mut_twice", "C16 C14", "E0499", MAP + "let mut o = match m.entry(1) { hashbrown::hash_map::Entry::Occupied(o) => o, _ => unreachable!() };\n", "let r = o.get_mut();", "let _ = o.get_mut();", "drop(r);"),
    ("map_occupied_get_mut_remove", "C16 C14", "E0505", MAP + "let mut o = match m.entry(1) { hashbrown::hash_map::Entry::Occupied(o) => o, _ => unreachable!() };\n", "let r = o.get_mut();", "let _ = o.remove();", "drop(r);"),
    ("map_occupied_key_insert", "C16 C14", "E0502", MAP + "let mut o = match m.entry(1) { hashbrown::hash_map::Entry::Occupied(o) => o, _ => unreachable!() };\n", "let r = o.key();", "let _ = o.insert(String::new());", "drop(r);"),
    ("set_iter_insert", "C16", "E0502", SET, "let it = a.iter();", "a.insert(3);", "drop(it);"),
    ("set_union_insert_other", "C16 C07", "E0502", SET, "let u = a.union(&b);", "b.insert(3);", "drop(u);"),
    ("set_intersection_clear", "C16 C07", "E0502", SET, "let u = a.intersection(&b);", "a.clear();", "drop(u);"),
    ("set_difference_remove", "C16 C07", "E0502", SET, "let u = a.difference(&b);", "b.remove(&2);", "drop(u);"),
    ("set_symmetric_difference_insert", "C16 C07", "E0502", SET, "let u = a.symmetric_difference(&b);", "a.insert(9);", "drop(u);"),
    ("set_drain_contains", "C16", "E0502", SET, "let d = a.drain();", "let _ = a.contains(&1);", "drop(d);"),
    ("set_get_remove", "C16", "E0502", SET, "let r = a.get(&1);", "a.remove(&1);", "drop(r);"),
    ("set_extract_if_insert", "C16", "E0499", SET, "let e = a.extract_if(|_| true);", "a.insert(5);", "drop(e);"),
    ("set_entry_len", "C16 C14", "E0502", SET, "let e = a.entry(1);", "let _ = a.len();", "drop(e);"),
    ("table_iter_insert", "C16 C06", "E0502", TAB, "let it = t.iter();", "t.insert_unique(2, 2, h);", "drop(it);"),
    ("table_iter_mut_find", "C16 C06", "E0502", TAB, "let it = t.iter_mut();", "let _ = t.find(1, |x| *x == 1);", "drop(it);"),
    ("table_find_mut_twice", "C16 C06", "E0499", TAB, "let r = t.find_mut(1, |x| *x == 1);", "let _ = t.find_mut(1, |x| *x == 1);", "drop(r);"),
    ("table_entry_len", "C16 C06", "E0502", TAB, "let e = t.entry(1, |x| *x == 1, h);", "let _ = t.len();", "drop(e);"),
    ("table_find_entry_clear", "C16 C06", "E0499", TAB, "let e = t.find_entry(1, |x| *x == 1);", "t.clear();", "drop(e);"),
    ("table_iter_hash_clear", "C16 C06", "E0502", TAB, "let it = t.iter_hash(1);", "t.clear();", "drop(it);"),
    ("table_iter_hash_mut_twice", "C16 C06", "E0499", TAB, "let it = t.iter_hash_mut(1);", "let _ = t.iter_hash_mut(1);", "drop(it);"),
    ("table_get_many_mut_twice", "C15 C16", "E0499", TAB, "let r = t.get_many_mut([1], |_, x| *x == 1);", "let _ = t.get_many_mut([1], |_, x| *x == 1);", "drop(r);"),
    ("table_drain_len", "C16 C06", "E0502", TAB, "let d = t.drain();", "let _ = t.len();", "drop(d);"),
    ("table_extract_if_clear", "C16 C06", "E0499", TAB, "let e = t.extract_if(|_| true);", "t.clear();", "drop(e);"),
    ("table_occupied_into_mut_then_use", "C16 C06", "E0499", TAB, "let r = t.find_entry(1, |x| *x == 1).unwrap().into_mut();", "t.clear();", "drop(r);"),
    # re-borrows through `&self` / `&mut self` of an entry end with that borrow (R-REBORROW's family; seeds C02-r3-1, C16-r3-3)
    ("table_occupied_get_remove", "C16 C02 C06", "E0505", TAB + "let o = t.find_entry(1, |x| *x == 1).unwrap();\n", "let r = o.get();", "let _ = o.remove();", "drop(r);"),
    ("table_occupied_get_mut_remove", "C16 C02 C06", "E0505", TAB + "let mut o = t.find_entry(1, |x| *x == 1).unwrap();\n", "let r = o.get_mut();", "let _ = o.remove();", "drop(r);"),
    ("map_occupied_get_remove", "C16 C02 C14", "E0505", MAP + "let o = match m.entry(1) { hashbrown::hash_map::Entry::Occupied(o) => o, _ => unreachable!() };\n", "let r = o.get();", "let _ = o.remove();", "drop(r);"),
    ("map_occupied_get_insert", "C16 C02 C14", "E0502", MAP + "let mut o = match m.entry(1) { hashbrown::hash_map::Entry::Occupied(o) => o, _ => unreachable!() };\n", "let r = o.get();", "let _ = o.insert(String::new());", "drop(r);"),
    ("raw_occupied_get_key_value_insert", "C16 C02 C14", "E0502", MAP + "let mut o = match m.raw_entry_mut().from_key(&1) { hashbrown::hash_map::RawEntryMut::Occupied(o) => o, _ => unreachable!() };\n", "let r = o.get_key_value();", "let _ = o.insert(String::new());", "drop(r);"),
    ("raw_occupied_get_remove", "C16 C02 C14", "E0505", MAP + "let o = match m.raw_entry_mut().from_key(&1) { hashbrown::hash_map::RawEntryMut::Occupied(o) => o, _ => unreachable!() };\n", "let r = o.get();", "let _ = o.remove();", "drop(r);"),
    ("set_occupied_get_remove", "C16 C02 C14", "E0505", SET + "let o = match a.entry(1) { hashbrown::hash_set::Entry::Occupied(o) => o, _ => unreachable!() };\n", "let r = o.get();", "let _ = o.remove();", "drop(r);"),
]

# outliving witnesses: (name, props, code, failing program, compiling twin)
O = [
    ("map_iter_outlives_map", "C16 C02", "E0597",
     "use hashbrown::HashMap;\nlet it;\n{\n    let m: HashMap<u32, u32> = HashMap::new();\n    it = m.iter();\n}\ndrop(it);",
     "use hashbrown::HashMap;\nlet it;\nlet m: HashMap<u32, u32> = HashMap::new();\n{\n    it = m.iter();\n}\ndrop(it);"),
    ("map_get_outlives_map", "C16 C02", "E0597",
     "use hashbrown::HashMap;\nlet r;\n{\n    let m: HashMap<u32, u32> = HashMap::new();\n    r = m.get(&1);\n}\ndrop(r);",
     "use hashbrown::HashMap;\nlet r;\nlet m: HashMap<u32, u32> = HashMap::new();\n{\n    r = m.get(&1);\n}\ndrop(r);"),
    ("table_iter_hash_outlives", "C16 C06", "E0597",
     "use hashbrown::HashTable;\nlet it;\n{\n    let t: HashTable<u32> = HashTable::new();\n    it = t.iter_hash(3);\n}\ndrop(it);",
     "use hashbrown::HashTable;\nlet it;\nlet t: HashTable<u32> = HashTable::new();\n{\n    it = t.iter_hash(3);\n}\ndrop(it);"),
    ("set_union_outlives_other", "C16 C07", "E0597",
     "use hashbrown::HashSet;\nlet a: HashSet<u32> = HashSet::new();\nlet u;\n{\n    let b: HashSet<u32> = HashSet::new();\n    u = a.union(&b);\n}\ndrop(u);",
     "use hashbrown::HashSet;\nlet a: HashSet<u32> = HashSet::new();\nlet b: HashSet<u32> = HashSet::new();\nlet u;\n{\n    u = a.union(&b);\n}\ndrop(u);"),
]

# auto-trait witnesses: (name, type with a !Send/!Sync content, the same type with Send+Sync content, trait)
SEND = "fn is_send<T: Send>() {}\n"
SYNC = "fn is_sync<T: Sync>() {}\n"
A = [
    ("map_rc_not_send", "is_send", "hashbrown::HashMap<std::rc::Rc<u32>, u32>", "hashbrown::HashMap<std::sync::Arc<u32>, u32>"),
    ("map_cell_not_sync", "is_sync", "hashbrown::HashMap<u32, std::cell::Cell<u32>>", "hashbrown::HashMap<u32, std::sync::atomic::AtomicU32>"),
    ("map_iter_cell_not_send", "is_send", "hashbrown::hash_map::Iter<'static, u32, std::cell::Cell<u32>>", "hashbrown::hash_map::Iter<'static, u32, std::sync::atomic::AtomicU32>"),
    ("map_iter_mut_rc_not_send", "is_send", "hashbrown::hash_map::IterMut<'static, u32, std::rc::Rc<u32>>", "hashbrown::hash_map::IterMut<'static, u32, std::sync::Arc<u32>>"),
    ("map_drain_rc_not_send", "is_send", "hashbrown::hash_map::Drain<'static, std::rc::Rc<u32>, u32>", "hashbrown::hash_map::Drain<'static, std::sync::Arc<u32>, u32>"),
    ("map_into_iter_rc_not_send", "is_send", "hashbrown::hash_map::IntoIter<std::rc::Rc<u32>, u32>", "hashbrown::hash_map::IntoIter<std::sync::Arc<u32>, u32>"),
    ("map_occupied_entry_rc_not_send", "is_send", "hashbrown::hash_map::OccupiedEntry<'static, u32, std::rc::Rc<u32>>", "hashbrown::hash_map::OccupiedEntry<'static, u32, std::sync::Arc<u32>>"),
    ("set_iter_cell_not_send", "is_send", "hashbrown::hash_set::Iter<'static, std::cell::Cell<u32>>", "hashbrown::hash_set::Iter<'static, std::sync::atomic::AtomicU32>"),
    ("table_iter_mut_rc_not_send", "is_send", "hashbrown::hash_table::IterMut<'static, std::rc::Rc<u32>>", "hashbrown::hash_table::IterMut<'static, std::sync::Arc<u32>>"),
    ("table_rc_not_send", "is_send", "hashbrown::HashTable<std::rc::Rc<u32>>", "hashbrown::HashTable<std::sync::Arc<u32>>"),
    ("table_cell_not_sync", "is_sync", "hashbrown::HashTable<std::cell::Cell<u32>>", "hashbrown::HashTable<std::sync::atomic::AtomicU32>"),
    ("table_iter_hash_never_send", "is_send", "hashbrown::hash_table::IterHash<'static, u32>", None),
]


def doc(lines, attr):
    out = ["/// ```%s" % attr]
    for l in lines.rstrip("\n").split("\n"):
        out.append("/// " + l if l else "///")
    out.append("/// ```")
    return "\n".join(out)


items = []
index = []
for (name, props, code, pre, borrow, bad, use) in W:
    fail = pre + borrow + "\n" + bad + "\n" + use + "\n"
    twin = pre + borrow + "\n" + use + "\n" + bad + "\n"
    items.append("/// witness `%s` (%s): a mutation/second borrow while the first is alive must be rejected with %s\n%s\n/// twin: the same statements with the borrow ended first compile\n%s\npub mod w_%s {}\n"
                 % (name, props, code, doc(fail, "compile_fail,%s" % code), doc(twin, "no_run"), name))
    index.append((name, props, code))
for (name, props, code, fail, twin) in O:
    items.append("/// witness `%s` (%s): the result must not outlive the collection (%s)\n%s\n/// twin\n%s\npub mod w_%s {}\n"
                 % (name, props, code, doc(fail, "compile_fail,%s" % code), doc(twin, "no_run"), name))
    index.append((name, props, code))
for (name, fn, bad, good) in A:
    pre = SEND if fn == "is_send" else SYNC
    fail = pre + "%s::<%s>();" % (fn, bad)
    parts = "/// witness `%s` (C16): auto trait must not hold (E0277)\n%s\n" % (name, doc(fail, "compile_fail,E0277"))
    if good:
        parts += "/// twin\n%s\n" % doc(pre + "%s::<%s>();" % (fn, good), "no_run")
    items.append(parts + "pub mod w_%s {}\n" % name)
    index.append((name, "C16", "E0277"))

open(os.path.join(V, "witnesses", "src", "lib.rs"), "w").write(
    "//! Generated by tools/gen_witnesses.py - do not edit by hand.\n//! Compile-fail witnesses (W-BORROW / W-AUTO) with compiling twins; decided by rustc, nothing is executed.\n#![allow(unused)]\n\n" + "\n".join(items))
import json
json.dump([{"name": n, "props": p.split(), "code": c} for n, p, c in index], open(os.path.join(V, "witnesses", "index.json"), "w"), indent=1)
print(len(index), "witnesses")
