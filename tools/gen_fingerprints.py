#!/usr/bin/env python3
"""Regenerate tables/fingerprints.json from the facts of the current /repo tree (run on the pinned, repaired tree only):
signature (parameter types and names, result, unsafety) and callee set of every non-closure function body, per
configuration. engine/inline.py uses it to recognise renamed / moved functions and reordered private signatures."""
import json, os, sys
V = os.path.dirname(os.path.dirname(os.path.abspath(__file__)))
sys.path.insert(0, os.path.join(V, "engine"))
import extract, inline

fns = {}
for cfg in extract.CONFIGS:
    if cfg == "posctl":
        continue
    j = json.load(open(extract.facts_path(cfg, os.environ.get("HBV_REPO", "/repo"))))
    for b in j["bodies"]:
        if "{closure" in b["path"] or b.get("kind") not in ("Fn", "AssocFn"):
            continue
        fp = inline._fingerprint(b)
        e = fns.setdefault(b["path"], dict(fp, cfgs=[]))
        e["cfgs"].append(cfg)
old = json.load(open(os.path.join(V, "tables", "fingerprints.json")))
out = {"_comment": old["_comment"], "fns": fns}
json.dump(out, open(os.path.join(V, "tables", "fingerprints.json"), "w"), indent=0, sort_keys=True)
print("fingerprints of %d functions (was %d)" % (len(fns), len(old["fns"])))
