#!/usr/bin/env python3
"""Measure the instance counts of every rule in every configuration on the CURRENT /repo tree
and write tables/floors.json. Run by hand on the pinned (repaired) tree only; checks never write it.
floor = measured count for counts <= 5, otherwise measured - max(1, measured // 10)."""
import json, os, sys, importlib
V = os.path.dirname(os.path.dirname(os.path.abspath(__file__)))
sys.path.insert(0, os.path.join(V, "engine"))
import extract, props
from core import Facts
from vocab import Vocab
out = {}
measured = {}
for cfg in extract.THOROUGH:
    F = Facts(extract.facts_path(cfg)); Vc = Vocab(F)
    for rule, (mod, fn) in props.RULES.items():
        only = props.RULE_CONFIGS.get(rule)
        if only and cfg not in only:
            continue
        r = getattr(importlib.import_module(mod), fn)(F, Vc)
        if r.violations:
            print("WARNING: %s fires in %s: %s" % (rule, cfg, [v["key"] for v in r.violations]))
        for what, got in r.info.items():
            if not isinstance(got, int):
                continue
            if what not in getattr(r, "floor_keys", set()):
                continue
            measured.setdefault(rule, {}).setdefault(what, {})[cfg] = got
            fl = got if got <= 5 else got - max(1, got // 10)
            out.setdefault(rule, {}).setdefault(what, {})[cfg] = fl
json.dump(out, open(os.path.join(V, "tables", "floors.json"), "w"), indent=1, sort_keys=True)
json.dump(measured, open(os.path.join(V, "tables", "floors_measured.json"), "w"), indent=1, sort_keys=True)
print("rules with floors:", len(out))
