#!/usr/bin/env python3
"""Measure the instance counts of every rule in every configuration on the CURRENT /repo tree
and write tables/floors.json. Run by hand on the pinned (repaired) tree only; checks never write it.
floor = measured count when it is 0/1, otherwise ceil(measured / 2)."""
import json, os, sys, importlib
V = os.path.dirname(os.path.dirname(os.path.abspath(__file__)))
sys.path.insert(0, os.path.join(V, "engine"))
import extract, props
from core import Facts
from vocab import Vocab
out = {}
measured = {}
for cfg in extract.THOROUGH:
    F = Facts(extract.facts_path(cfg)); Vc = Vocab(F)
    for rule, (mod, fn) in props.RULES.items():
        only = props.RULE_CONFIGS.get(rule)
        if only and cfg not in only:
            continue
        r = getattr(importlib.import_module(mod), fn)(F, Vc)
        if r.violations:
            print("WARNING: %s fires in %s: %s" % (rule, cfg, [v["key"] for v in r.violations]))
        for what, got in r.info.items():
            if not isinstance(got, int):
                continue
            if what not in getattr(r, "floor_keys", set()):
                continue
            measured.setdefault(rule, {}).setdefault(what, {})[cfg] = got
            # not-vacuous floors: a rule must still see at least half of what was confirmed on the pinned tree
            # (an anchor with a single instance must keep it); this tolerates refactors that merge or remove a few sites
            fl = got if got <= 1 else (got + 1) // 2
            out.setdefault(rule, {}).setdefault(what, {})[cfg] = fl
json.dump(out, open(os.path.join(V, "tables", "floors.json"), "w"), indent=1, sort_keys=True)
json.dump(measured, open(os.path.join(V, "tables", "floors_measured.json"), "w"), indent=1, sort_keys=True)
print("rules with floors:", len(out))
