#!/usr/bin/env python3
"""Regenerate MANIFEST.json from engine/props.py (single source of truth)."""
import json, os, sys
V = os.path.dirname(os.path.dirname(os.path.abspath(__file__)))
sys.path.insert(0, os.path.join(V, "engine"))
import props

ids = [json.loads(l)["id"] for l in open(os.path.join(V, "properties.jsonl"))]
checks = []
na = []
for pid in ids:
    P = props.PROPS.get(pid)
    if not P:
        na.append({"property_id": pid, "reason": props.NOT_APPLICABLE.get(pid, "check not built yet (framework under construction; see DESIGN.md section 5 for the planned rules)")})
        continue
    checks.append({
        "property_id": pid,
        "quick_cmd": "./hbv check %s --tier quick" % pid,
        "thorough_cmd": "./hbv check %s --tier thorough" % pid,
        "evidence_file": "/verif/evidence/%s.json" % pid,
        "replay_cmd_template": "./hbv replay {path}",
        "engine": "hbv-static",
        "level_claimed": {
            "category": P["level"],
            "text": "Static analysis over rustc's type-checked program (MIR control-flow graphs with resolved callees, trait-solver and variance facts) of the current tree, for every instantiation and every analysed cfg. Decides these clauses: " + P["decided"] + ".",
            "design_ref": "DESIGN.md section 5, " + pid,
        },
        "level_note": "Decides the structural clauses listed, not the behaviour as a whole. NOT decided: " + P["not_decided"] + ". Trusted base: rustc nightly front end/MIR construction/trait solver/borrowck, the frozen tables under /verif/tables and in the rule modules (each row confirmed by reading), allocators do not unwind, unsafe-API misuse out of scope, feature `nightly` and neon/lsx back-ends cannot be type-checked here.",
        "technique": "static analysis: " + ", ".join(P["rules"]) + (" + " + P["extra_technique"] if P.get("extra_technique") else ""),
    })
m = {
    "version": 1,
    "setup_cmd": "./hbv setup",
    "hooks": {
        "guard": "hashbrown_verif",
        "enable": "(no hooks: the analysis reads the compiler's view of the unmodified source; nothing is instrumented)",
        "baseline_off_cmd": "cd /repo && cargo test --workspace --no-fail-fast --offline",
        "source_commits": [],
        "add_only": True,
    },
    "engines": [{
        "name": "hbv-static",
        "path": "/verif/hbv",
        "serves_properties": [c["property_id"] for c in checks],
        "kind_free_text": "rustc_private fact extractor (extractor/) + python rule engine (engine/): path, dominance, control-dependence, dataflow, call-graph, trait-solver and signature rules specific to hashbrown; compile-fail witnesses decided by rustc's borrow checker",
    }],
    "checks": checks,
    "not_applicable": na,
    "notes": "Technique family: static analysis only. Exit 0 held / 1 + VIOLATION line / 2 + UNDECIDED line (an anchor a rule needs no longer exists, or the tree does not build: no verdict). Genuine defects repaired in /repo are listed as `fixed` in known_findings.json.",
}
json.dump(m, open(os.path.join(V, "MANIFEST.json"), "w"), indent=1)
print("checks:", [c["property_id"] for c in checks], "n/a:", [n["property_id"] for n in na])
