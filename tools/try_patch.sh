#!/bin/bash
# usage: try_patch.sh <patch.diff> [Cxx ...]   -- apply the patch to a scratch worktree of /repo HEAD, run the quick checks there, clean up.
VERIF=$(dirname $(dirname $(readlink -f $0)))
[ -f "$1" ] || { echo "no such patch: $1"; exit 3; }
P=$(readlink -f $1); shift
[ -f "$(dirname $P)/patch.rebased.diff" ] && P="$(dirname $P)/patch.rebased.diff"
WT=$(mktemp -d /tmp/hbv-try.XXXXXX)
git -C /repo worktree add -q --detach $WT HEAD || exit 2
cd $WT
if ! git apply $P 2>/dev/null; then
  echo "PATCH-DOES-NOT-APPLY"; # drop the fact cache of this scratch tree
python3 - "$WT" <<'PY'
import sys, os, shutil
sys.path.insert(0, os.path.join(os.path.dirname(os.path.abspath("hbv")), "engine"))
try:
    import extract
    p = extract.facts_path("default", sys.argv[1])
    d = os.path.dirname(p)
    if os.path.isdir(d) and os.path.basename(os.path.dirname(d)) == ".cache":
        shutil.rmtree(d)
except Exception:
    pass
PY
git -C /repo worktree remove --force $WT; exit 3
fi
PROPS="$@"
if [ -z "$PROPS" ]; then PROPS=$(python3 -c "import json,sys;print(' '.join(c['property_id'] for c in json.load(open(sys.argv[1]))['checks']))" $VERIF/MANIFEST.json); fi
cd $VERIF
for p in $PROPS; do
  OUT=$(HBV_REPO=$WT HBV_NO_EVIDENCE=1 ./hbv check $p --tier ${TIER:-quick} 2>&1)
  rc=$?
  echo "$p rc=$rc $(echo "$OUT" | grep -E '^\s+\[R-|^UNDECIDED' | head -3 | tr '\n' ' ' | cut -c1-400)"
done
# drop the fact cache of this scratch tree
python3 - "$WT" <<'PY'
import sys, os, shutil
sys.path.insert(0, os.path.join(os.path.dirname(os.path.abspath("hbv")), "engine"))
try:
    import extract
    p = extract.facts_path("default", sys.argv[1])
    d = os.path.dirname(p)
    if os.path.isdir(d) and os.path.basename(os.path.dirname(d)) == ".cache":
        shutil.rmtree(d)
except Exception:
    pass
PY
git -C /repo worktree remove --force $WT
