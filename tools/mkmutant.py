#!/usr/bin/env python3
"""mkmutant.py <name> <expected-rule|BENIGN> <<< JSON {"edits":[{"file":..,"old":..,"new":..},..], "property":.., "why":..}
Creates mutants/<name>.patch (or mutants/benign/<name>.patch) from textual replacements in a scratch worktree of /repo HEAD,
after checking that the result still type-checks with all features (cargo check --offline)."""
import json, os, subprocess, sys, tempfile
name, rule = sys.argv[1:3]
spec = json.load(sys.stdin)
edits = spec.get("edits") or [{"file": spec["file"], "old": spec["old"], "new": spec["new"]}]
wt = tempfile.mkdtemp(prefix="hbv-mk.")
subprocess.check_call(["git", "-C", "/repo", "worktree", "add", "-q", "--detach", wt, "HEAD"])
try:
    for e in edits:
        p = os.path.join(wt, e["file"])
        s = open(p).read()
        assert s.count(e["old"]) == 1, "old text occurs %d times in %s: %r" % (s.count(e["old"]), e["file"], e["old"][:60])
        open(p, "w").write(s.replace(e["old"], e["new"]))
    env = dict(os.environ, CARGO_NET_OFFLINE="true", CARGO_TARGET_DIR="/tmp/hbv-mk-target")
    r = subprocess.run(["cargo", "check", "--offline", "--lib", "--features", "rayon,serde,rustc-internal-api"], cwd=wt, env=env, stdout=subprocess.PIPE, stderr=subprocess.STDOUT, text=True)
    if r.returncode != 0:
        print(r.stdout[-3000:]); print("DOES NOT COMPILE - not written"); sys.exit(1)
    d = subprocess.check_output(["git", "-C", wt, "diff"], text=True)
    hdr = "# mutant: %s\n# expected-rule: %s\n# expected-property: %s\n# why: %s\n" % (name, rule, spec.get("property", ""), spec.get("why", ""))
    out = "/verif/mutants/%s%s.patch" % ("benign/" if rule == "BENIGN" else "", name)
    open(out, "w").write(hdr + d)
    print("wrote %s (%d lines)" % (out, len(d.splitlines())))
finally:
    subprocess.call(["git", "-C", "/repo", "worktree", "remove", "--force", wt])
