#!/usr/bin/env python3
"""mkmutant.py <name> <rule-expected> <file> <<< JSON {"old":..., "new":...}  -- create mutants/<name>.patch from a textual replacement in a scratch worktree of /repo HEAD"""
import json, os, subprocess, sys, tempfile
name, rule, rel = sys.argv[1:4]
spec = json.load(sys.stdin)
wt = tempfile.mkdtemp(prefix="hbv-mk.")
subprocess.check_call(["git", "-C", "/repo", "worktree", "add", "-q", "--detach", wt, "HEAD"])
try:
    p = os.path.join(wt, rel)
    s = open(p).read()
    assert s.count(spec["old"]) == 1, "old text occurs %d times" % s.count(spec["old"])
    open(p, "w").write(s.replace(spec["old"], spec["new"]))
    d = subprocess.check_output(["git", "-C", wt, "diff"], text=True)
    hdr = "# mutant: %s\n# expected-rule: %s\n# expected-property: %s\n# why: %s\n" % (name, rule, spec.get("property", ""), spec.get("why", ""))
    open("/verif/mutants/%s.patch" % name, "w").write(hdr + d)
    print("wrote mutants/%s.patch (%d lines)" % (name, len(d.splitlines())))
finally:
    subprocess.call(["git", "-C", "/repo", "worktree", "remove", "--force", wt])
