use hashbrown::HashMap;
use std::cell::Cell;
use std::hash::{BuildHasher, Hasher};
use std::panic::{catch_unwind, AssertUnwindSafe};
use std::rc::Rc;

#[derive(Clone)]
struct Plan { calls: Rc<Cell<usize>>, panic_at: Rc<Cell<usize>>, seed: u64, clone_panics: bool }
struct H(u64);
impl Hasher for H { fn finish(&self) -> u64 { self.0 } fn write(&mut self, b: &[u8]) { for x in b { self.0 = self.0.wrapping_add(*x as u64); } } }
#[derive(Clone)]
struct Collide(Plan);
impl BuildHasher for Collide {
    type Hasher = H;
    fn build_hasher(&self) -> H {
        let c = self.0.calls.get() + 1; self.0.calls.set(c);
        if c == self.0.panic_at.get() { panic!("hasher panic"); }
        H(0)
    }
}
struct HZ(u64);
impl Hasher for HZ { fn finish(&self) -> u64 { 0 } fn write(&mut self, _b: &[u8]) {} }

fn rehash_case() {
    let plan = Plan { calls: Rc::new(Cell::new(0)), panic_at: Rc::new(Cell::new(usize::MAX)), seed: 0, clone_panics: false };
    struct AllZero(Plan);
    impl BuildHasher for AllZero { type Hasher = HZ; fn build_hasher(&self) -> HZ { let c = self.0.calls.get()+1; self.0.calls.set(c); if c == self.0.panic_at.get() { panic!("hasher panic") } HZ(0) } }
    let mut m: HashMap<u32, u32, AllZero> = HashMap::with_hasher(AllZero(plan.clone()));
    for i in 0..28 { m.insert(i, i); }
    for i in 0..20 { m.remove(&i); }
    println!("len={} cap={}", m.len(), m.capacity());
    plan.panic_at.set(plan.calls.get() + 3);
    let r = catch_unwind(AssertUnwindSafe(|| { m.insert(1000, 0); }));
    println!("insert panicked: {}", r.is_err());
    plan.panic_at.set(usize::MAX);
    let n = m.iter().count();
    println!("len={} yielded={}", m.len(), n);
    assert_eq!(m.len(), n);
}

#[derive(Debug)]
struct SeedBH { seed: u64, armed: Rc<Cell<bool>> }
impl Clone for SeedBH { fn clone(&self) -> Self { if self.armed.get() { panic!("clone panic") } SeedBH { seed: self.seed, armed: self.armed.clone() } } }
struct SH(u64);
impl Hasher for SH { fn finish(&self) -> u64 { self.0 } fn write(&mut self, b: &[u8]) { for x in b { self.0 = (self.0 ^ *x as u64).wrapping_mul(0x100000001b3); } } }
impl BuildHasher for SeedBH { type Hasher = SH; fn build_hasher(&self) -> SH { SH(self.seed) } }

fn clone_from_case() {
    let armed = Rc::new(Cell::new(false));
    let mut src: HashMap<u32, u32, SeedBH> = HashMap::with_hasher(SeedBH { seed: 1, armed: armed.clone() });
    let mut dst: HashMap<u32, u32, SeedBH> = HashMap::with_hasher(SeedBH { seed: 0xdeadbeef12345, armed: armed.clone() });
    for i in 0..100 { src.insert(i, i); }
    for i in 0..10 { dst.insert(i + 1000, i); }
    armed.set(true);
    let r = catch_unwind(AssertUnwindSafe(|| dst.clone_from(&src)));
    armed.set(false);
    println!("clone_from panicked: {}", r.is_err());
    let found = (0..2000u32).filter(|k| dst.contains_key(k)).count();
    println!("len={} yielded={} found={}", dst.len(), dst.iter().count(), found);
    assert_eq!(dst.len(), found);
}

/// C15: two requests that resolve to two DIFFERENT entries of a table of zero-sized elements.
fn manymut_zst_case() {
    use hashbrown::HashTable;
    let mut t: HashTable<()> = HashTable::new();
    let (h1, h2) = (1u64 << 57, 2u64 << 57); // different tag bits: each lookup can only match its own entry
    t.insert_unique(h1, (), |_| unreachable!());
    t.insert_unique(h2, (), |_| 0);
    println!("len={}", t.len());
    assert_eq!(t.len(), 2);
    let r = catch_unwind(AssertUnwindSafe(|| {
        let [a, b] = t.get_many_mut([h1, h2], |_, _| true);
        (a.is_some(), b.is_some())
    }));
    println!("get_many_mut on two distinct entries: {:?}", r.as_ref().map_err(|_| "panicked"));
    assert_eq!(r.ok(), Some((true, true)), "two distinct entries must yield two references, not a duplicate panic");
}

fn main() {
    let which = std::env::args().nth(1).unwrap_or_default();
    if which == "rehash" { rehash_case() } else if which == "manymut-zst" { manymut_zst_case() } else { clone_from_case() }
}
